/*
 * killafter.so - LD_PRELOAD shim for C12's abnormal-end cases.
 *
 * Counts the successful modifying calls (pwrite/pwrite64/write/pwritev/fallocate/
 * ftruncate) whose descriptor refers to the file named by KILLAFTER_PATH (compared by
 * device+inode) and raises SIGKILL in the calling process right after the
 * KILLAFTER_N-th one returned (N <= 0: never; count only).  Every counted call is
 * appended to KILLAFTER_LOG as "seq op offset len\n" so that a dry run tells the
 * harness how many kill points a command has.  Contains no oracle.
 */
#define _GNU_SOURCE
#include <dlfcn.h>
#include <fcntl.h>
#include <signal.h>
#include <stdio.h>
#include <stdlib.h>
#include <string.h>
#include <sys/stat.h>
#include <sys/syscall.h>
#include <sys/types.h>
#include <sys/uio.h>
#include <unistd.h>

static int inited;
static int have_target;
static dev_t tdev;
static ino_t tino;
static long kill_at;
static long count;
static int logfd = -1;

static void init(void)
{
	const char *p, *n, *l;
	struct stat st;

	if (inited)
		return;
	inited = 1;
	p = getenv("KILLAFTER_PATH");
	n = getenv("KILLAFTER_N");
	l = getenv("KILLAFTER_LOG");
	if (p && stat(p, &st) == 0) {
		tdev = st.st_dev;
		tino = st.st_ino;
		have_target = 1;
	}
	kill_at = n ? atol(n) : 0;
	if (l)
		logfd = syscall(SYS_open, l, O_WRONLY | O_CREAT | O_APPEND | O_CLOEXEC, 0600);
}

static int watched(int fd)
{
	struct stat st;

	init();
	if (!have_target || fd == logfd)
		return 0;
	if (fstat(fd, &st) != 0)
		return 0;
	return st.st_dev == tdev && st.st_ino == tino;
}

static void hit(const char *op, long long off, long long len)
{
	char buf[96];
	int n;

	count++;
	if (logfd >= 0) {
		n = snprintf(buf, sizeof(buf), "%ld %s %lld %lld\n", count, op, off, len);
		syscall(SYS_write, logfd, buf, (size_t) n);
	}
	if (kill_at > 0 && count == kill_at) {
		syscall(SYS_kill, getpid(), SIGKILL);
		for (;;)
			pause();
	}
}

#define REAL(name) \
	static __typeof__(name) *real; \
	if (!real) \
		real = dlsym(RTLD_NEXT, #name)

ssize_t pwrite64(int fd, const void *buf, size_t n, off64_t off)
{
	ssize_t r;
	REAL(pwrite64);
	r = real(fd, buf, n, off);
	if (r > 0 && watched(fd))
		hit("pwrite", off, r);
	return r;
}

ssize_t pwrite(int fd, const void *buf, size_t n, off_t off)
{
	ssize_t r;
	REAL(pwrite);
	r = real(fd, buf, n, off);
	if (r > 0 && watched(fd))
		hit("pwrite", off, r);
	return r;
}

ssize_t write(int fd, const void *buf, size_t n)
{
	ssize_t r;
	REAL(write);
	r = real(fd, buf, n);
	if (r > 0 && fd > 2 && watched(fd))
		hit("write", (long long) lseek(fd, 0, SEEK_CUR) - r, r);
	return r;
}

ssize_t pwritev(int fd, const struct iovec *iov, int cnt, off_t off)
{
	ssize_t r;
	REAL(pwritev);
	r = real(fd, iov, cnt, off);
	if (r > 0 && watched(fd))
		hit("pwritev", off, r);
	return r;
}

int fallocate(int fd, int mode, off_t off, off_t len)
{
	int r;
	REAL(fallocate);
	r = real(fd, mode, off, len);
	if (r == 0 && watched(fd))
		hit("fallocate", off, len);
	return r;
}

int fallocate64(int fd, int mode, off64_t off, off64_t len)
{
	int r;
	REAL(fallocate64);
	r = real(fd, mode, off, len);
	if (r == 0 && watched(fd))
		hit("fallocate", off, len);
	return r;
}

int ftruncate(int fd, off_t len)
{
	int r;
	REAL(ftruncate);
	r = real(fd, len);
	if (r == 0 && watched(fd))
		hit("ftruncate", len, 0);
	return r;
}

int ftruncate64(int fd, off64_t len)
{
	int r;
	REAL(ftruncate64);
	r = real(fd, len);
	if (r == 0 && watched(fd))
		hit("ftruncate", len, 0);
	return r;
}
