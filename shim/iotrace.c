/*
 * iotrace.so - LD_PRELOAD I/O tracer for the syscall-boundary observation point.
 *
 * Environment:
 *   IOTRACE_WATCH       colon-separated absolute paths.  A descriptor is "watched" when
 *                       fstat() of it gives the st_dev+st_ino of one of these paths (the
 *                       paths are (re)stat'ed at start-up and at every open*, so a file
 *                       created or re-created later is picked up).  The index of the path
 *                       in the list is the record's "watch index".
 *   IOTRACE_OUT         file that receives the records.  Opened lazily with O_APPEND; every
 *                       record is appended with ONE writev(2) (header + payload), so
 *                       records of several processes/threads never interleave and the file
 *                       order is the global order.
 *   IOTRACE_KILL_AFTER  n > 0: raise SIGKILL in the calling process right after the n-th
 *                       *modifying* record (successful write/pwrite/pwritev/writev/
 *                       ftruncate/fallocate, or an open with O_TRUNC) on watch index 0 has
 *                       been appended to IOTRACE_OUT.
 *
 * Record layout (little endian, 56-byte header, then `paylen` payload bytes):
 *   u32 magic 'IOTR'   u32 seq (per process, from 1)   u32 pid   u16 op   u16 watch
 *   s32 fd   u32 aux (open: flags, fallocate: mode, sync_file_range/pwritev2: flags)
 *   s64 offset   u64 length (requested)   s64 result (return value, or -errno)
 *   u32 paylen   u32 tid
 * The payload is present only for successful data writes and holds exactly `result` bytes.
 *
 * For calls on watched descriptors the real call and the append of its record happen under
 * one mutex, so the order of records is the order in which the calls took effect.  The
 * shim's own I/O uses raw syscalls only (it never re-enters an interposed function).
 *
 * Not seen: stdio (glibc's fopen/fwrite call internal symbols), mmap stores, io_uring,
 * sendfile/splice/copy_file_range, statically linked programs, direct syscall(2) users.
 * That is what the replay self-check on the Python side is for.  Contains no oracle.
 * Plain build only (sanitizer runtimes interpose the same symbols).
 */
#define _GNU_SOURCE
#include <dlfcn.h>
#include <errno.h>
#include <fcntl.h>
#include <pthread.h>
#include <signal.h>
#include <stdarg.h>
#include <stdint.h>
#include <stdio.h>
#include <stdlib.h>
#include <string.h>
#include <sys/stat.h>
#include <sys/syscall.h>
#include <sys/types.h>
#include <sys/uio.h>
#include <unistd.h>

#define IOT_MAGIC 0x52544F49u	/* "IOTR" */

enum {
	OP_OPEN = 1, OP_CLOSE = 2, OP_PWRITE = 3, OP_WRITE = 4, OP_PWRITEV = 5,
	OP_WRITEV = 6, OP_FSYNC = 7, OP_FDATASYNC = 8, OP_SYNC_FILE_RANGE = 9,
	OP_SYNCFS = 10, OP_FTRUNCATE = 11, OP_FALLOCATE = 12, OP_SYNC = 13,
};

struct iot_hdr {
	uint32_t magic, seq, pid;
	uint16_t op, watch;
	int32_t fd;
	uint32_t aux;
	int64_t offset;
	uint64_t length;
	int64_t result;
	uint32_t paylen, tid;
} __attribute__((packed));

#define MAX_WATCH 16
#define OUT_FD_MIN 700

static struct {
	char *path;
	dev_t dev;
	ino_t ino;
	int ok;
} watch[MAX_WATCH];
static int nwatch;
static int inited;
static int outfd = -1;
static int out_failed;
static const char *outpath;
static long kill_after;
static long nmod;		/* modifying records on watch 0 so far */
static uint32_t seq;
static pthread_mutex_t mtx = PTHREAD_MUTEX_INITIALIZER;

static void restat(void)
{
	struct stat st;
	int i;

	for (i = 0; i < nwatch; i++) {
		if (stat(watch[i].path, &st) == 0) {
			watch[i].dev = st.st_dev;
			watch[i].ino = st.st_ino;
			watch[i].ok = 1;
		} else
			watch[i].ok = 0;
	}
}

static void atfork_prepare(void) { pthread_mutex_lock(&mtx); }
static void atfork_parent(void) { pthread_mutex_unlock(&mtx); }
static void atfork_child(void)
{
	pthread_mutex_t fresh = PTHREAD_MUTEX_INITIALIZER;
	memcpy(&mtx, &fresh, sizeof(mtx));
}

static void init(void)
{
	const char *w, *k;
	char *copy, *p, *q;

	if (inited)
		return;
	pthread_mutex_lock(&mtx);
	if (inited) {
		pthread_mutex_unlock(&mtx);
		return;
	}
	w = getenv("IOTRACE_WATCH");
	outpath = getenv("IOTRACE_OUT");
	k = getenv("IOTRACE_KILL_AFTER");
	kill_after = k ? atol(k) : 0;
	if (w && outpath && (copy = strdup(w)) != NULL) {
		outpath = strdup(outpath);
		for (p = copy; p && *p && nwatch < MAX_WATCH; p = q) {
			q = strchr(p, ':');
			if (q)
				*q++ = 0;
			if (*p)
				watch[nwatch++].path = p;
		}
		restat();
	}
	pthread_atfork(atfork_prepare, atfork_parent, atfork_child);
	__atomic_store_n(&inited, 1, __ATOMIC_RELEASE);
	pthread_mutex_unlock(&mtx);
}

/* index of the watched file that fd refers to, or -1 */
static int watched(int fd)
{
	struct stat st;
	int i, unresolved = 0;

	if (!inited)
		init();
	if (nwatch == 0 || fd < 0 || fd == outfd)
		return -1;
	if (fstat(fd, &st) != 0)
		return -1;
	for (i = 0; i < nwatch; i++) {
		if (!watch[i].ok)
			unresolved = 1;
		else if (watch[i].dev == st.st_dev && watch[i].ino == st.st_ino)
			return i;
	}
	if (unresolved && S_ISREG(st.st_mode)) {
		int found = -1;

		pthread_mutex_lock(&mtx);
		restat();
		for (i = 0; i < nwatch; i++)
			if (watch[i].ok && watch[i].dev == st.st_dev &&
			    watch[i].ino == st.st_ino) {
				found = i;
				break;
			}
		pthread_mutex_unlock(&mtx);
		return found;
	}
	return -1;
}

static void open_out(void)
{
	int fd, hi;

	if (outfd >= 0 || out_failed || !outpath)
		return;
	fd = syscall(SYS_openat, AT_FDCWD, outpath,
		     O_WRONLY | O_CREAT | O_APPEND | O_CLOEXEC, 0600);
	if (fd < 0) {
		out_failed = 1;
		return;
	}
	hi = syscall(SYS_fcntl, fd, F_DUPFD_CLOEXEC, OUT_FD_MIN);
	if (hi >= 0) {
		syscall(SYS_close, fd);
		fd = hi;
	}
	outfd = fd;
}

/* caller holds mtx */
static void emit(int op, int w, int fd, uint32_t aux, int64_t off, uint64_t len,
		 int64_t result, const struct iovec *pay, int paycnt)
{
	struct iot_hdr h;
	struct iovec iov[1 + 64], *v = iov;
	size_t left;
	int i, n = 1, modifying;
	static pid_t mypid;
	pid_t pid = getpid();

	if (pid != mypid) {		/* first use, or we are a fork child */
		mypid = pid;
		seq = 0;
	}
	open_out();
	if (outfd < 0)
		return;
	memset(&h, 0, sizeof(h));
	h.magic = IOT_MAGIC;
	h.seq = ++seq;
	h.pid = (uint32_t) pid;
	h.op = (uint16_t) op;
	h.watch = (uint16_t) w;
	h.fd = fd;
	h.aux = aux;
	h.offset = off;
	h.length = len;
	h.result = result;
	h.tid = (uint32_t) syscall(SYS_gettid);
	if (pay && result > 0) {
		if (paycnt + 1 > (int) (sizeof(iov) / sizeof(iov[0]))) {
			v = malloc(sizeof(*v) * (paycnt + 1));
			if (!v)
				return;
		}
		left = (size_t) result;
		for (i = 0; i < paycnt && left; i++) {
			size_t l = pay[i].iov_len < left ? pay[i].iov_len : left;

			if (!l)
				continue;
			v[n].iov_base = pay[i].iov_base;
			v[n].iov_len = l;
			n++;
			left -= l;
		}
		h.paylen = (uint32_t) ((size_t) result - left);
	}
	v[0].iov_base = &h;
	v[0].iov_len = sizeof(h);
	if (n <= 1024)
		syscall(SYS_writev, outfd, v, n);
	else {
		/* more segments than IOV_MAX: linearise */
		size_t tot = sizeof(h) + h.paylen, o = 0;
		char *b = malloc(tot);

		if (b) {
			for (i = 0; i < n; i++) {
				memcpy(b + o, v[i].iov_base, v[i].iov_len);
				o += v[i].iov_len;
			}
			syscall(SYS_write, outfd, b, tot);
			free(b);
		}
	}
	if (v != iov)
		free(v);

	modifying = 0;
	switch (op) {
	case OP_PWRITE: case OP_WRITE: case OP_PWRITEV: case OP_WRITEV:
		modifying = result > 0;
		break;
	case OP_FTRUNCATE: case OP_FALLOCATE:
		modifying = result == 0;
		break;
	case OP_OPEN:
		modifying = result >= 0 && (aux & O_TRUNC) && (aux & O_ACCMODE) != O_RDONLY;
		break;
	}
	if (modifying && w == 0) {
		nmod++;
		if (kill_after > 0 && nmod == kill_after) {
			syscall(SYS_kill, pid, SIGKILL);
			for (;;)
				pause();
		}
	}
}

#define REAL(name) \
	static __typeof__(name) *real_##name; \
	if (!real_##name) \
		real_##name = (__typeof__(name) *) dlsym(RTLD_NEXT, #name)

#define RES(r) ((r) < 0 ? -(int64_t) errno : (int64_t) (r))

static int64_t curpos(int fd)
{
	return (int64_t) syscall(SYS_lseek, fd, (off_t) 0, SEEK_CUR);
}

/* ---------------------------------------------------------------- open / close */

static void note_open(int fd, int flags)
{
	int w, e = errno;

	if (!inited)
		init();
	if (nwatch == 0 || fd < 0)
		return;
	pthread_mutex_lock(&mtx);
	restat();
	pthread_mutex_unlock(&mtx);
	w = watched(fd);
	if (w >= 0) {
		pthread_mutex_lock(&mtx);
		emit(OP_OPEN, w, fd, (uint32_t) flags, 0, 0, fd, NULL, 0);
		pthread_mutex_unlock(&mtx);
	}
	errno = e;
}

#define OPEN_BODY(fn, call_with_mode, call_without)			\
	int fd, mode = 0;						\
	REAL(fn);							\
	if ((flags & O_CREAT) || (flags & O_TMPFILE) == O_TMPFILE) {	\
		va_list ap;						\
		va_start(ap, flags);					\
		mode = va_arg(ap, int);					\
		va_end(ap);						\
		fd = call_with_mode;					\
	} else								\
		fd = call_without;					\
	note_open(fd, flags);						\
	return fd

int open(const char *path, int flags, ...)
{
	OPEN_BODY(open, real_open(path, flags, mode), real_open(path, flags));
}

int open64(const char *path, int flags, ...)
{
	OPEN_BODY(open64, real_open64(path, flags, mode), real_open64(path, flags));
}

int openat(int dfd, const char *path, int flags, ...)
{
	OPEN_BODY(openat, real_openat(dfd, path, flags, mode), real_openat(dfd, path, flags));
}

int openat64(int dfd, const char *path, int flags, ...)
{
	OPEN_BODY(openat64, real_openat64(dfd, path, flags, mode),
		  real_openat64(dfd, path, flags));
}

/* _FORTIFY_SOURCE entry points (no mode argument by construction) */
int __open_2(const char *path, int flags);
int __open64_2(const char *path, int flags);
int __openat_2(int dfd, const char *path, int flags);
int __openat64_2(int dfd, const char *path, int flags);

int __open_2(const char *path, int flags)
{
	int fd;
	REAL(__open_2);
	fd = real___open_2(path, flags);
	note_open(fd, flags);
	return fd;
}

int __open64_2(const char *path, int flags)
{
	int fd;
	REAL(__open64_2);
	fd = real___open64_2(path, flags);
	note_open(fd, flags);
	return fd;
}

int __openat_2(int dfd, const char *path, int flags)
{
	int fd;
	REAL(__openat_2);
	fd = real___openat_2(dfd, path, flags);
	note_open(fd, flags);
	return fd;
}

int __openat64_2(int dfd, const char *path, int flags)
{
	int fd;
	REAL(__openat64_2);
	fd = real___openat64_2(dfd, path, flags);
	note_open(fd, flags);
	return fd;
}

int creat(const char *path, mode_t mode)
{
	int fd;
	REAL(creat);
	fd = real_creat(path, mode);
	note_open(fd, O_CREAT | O_WRONLY | O_TRUNC);
	return fd;
}

int creat64(const char *path, mode_t mode)
{
	int fd;
	REAL(creat64);
	fd = real_creat64(path, mode);
	note_open(fd, O_CREAT | O_WRONLY | O_TRUNC);
	return fd;
}

int close(int fd)
{
	int r, w, e;
	REAL(close);

	if (fd >= 0 && fd == outfd)
		return 0;	/* somebody closing "all" descriptors: keep the trace open */
	w = watched(fd);
	if (w < 0)
		return real_close(fd);
	pthread_mutex_lock(&mtx);
	r = real_close(fd);
	e = errno;
	emit(OP_CLOSE, w, fd, 0, 0, 0, RES(r), NULL, 0);
	pthread_mutex_unlock(&mtx);
	errno = e;
	return r;
}

/* ---------------------------------------------------------------- data writes */

ssize_t pwrite64(int fd, const void *buf, size_t n, off64_t off)
{
	ssize_t r;
	int w, e;
	struct iovec iov;
	REAL(pwrite64);

	w = watched(fd);
	if (w < 0)
		return real_pwrite64(fd, buf, n, off);
	pthread_mutex_lock(&mtx);
	r = real_pwrite64(fd, buf, n, off);
	e = errno;
	iov.iov_base = (void *) buf;
	iov.iov_len = n;
	emit(OP_PWRITE, w, fd, 0, off, n, RES(r), &iov, 1);
	pthread_mutex_unlock(&mtx);
	errno = e;
	return r;
}

ssize_t pwrite(int fd, const void *buf, size_t n, off_t off)
{
	ssize_t r;
	int w, e;
	struct iovec iov;
	REAL(pwrite);

	w = watched(fd);
	if (w < 0)
		return real_pwrite(fd, buf, n, off);
	pthread_mutex_lock(&mtx);
	r = real_pwrite(fd, buf, n, off);
	e = errno;
	iov.iov_base = (void *) buf;
	iov.iov_len = n;
	emit(OP_PWRITE, w, fd, 0, off, n, RES(r), &iov, 1);
	pthread_mutex_unlock(&mtx);
	errno = e;
	return r;
}

ssize_t write(int fd, const void *buf, size_t n)
{
	ssize_t r;
	int w, e;
	int64_t off;
	struct iovec iov;
	REAL(write);

	w = watched(fd);
	if (w < 0)
		return real_write(fd, buf, n);
	pthread_mutex_lock(&mtx);
	off = curpos(fd);
	r = real_write(fd, buf, n);
	e = errno;
	/* the position after the call is authoritative (O_APPEND descriptors) */
	if (r > 0)
		off = curpos(fd) - r;
	iov.iov_base = (void *) buf;
	iov.iov_len = n;
	emit(OP_WRITE, w, fd, 0, off, n, RES(r), &iov, 1);
	pthread_mutex_unlock(&mtx);
	errno = e;
	return r;
}

static uint64_t iov_total(const struct iovec *iov, int cnt)
{
	uint64_t t = 0;
	int i;

	for (i = 0; i < cnt; i++)
		t += iov[i].iov_len;
	return t;
}

ssize_t writev(int fd, const struct iovec *iov, int cnt)
{
	ssize_t r;
	int w, e;
	int64_t off;
	REAL(writev);

	w = watched(fd);
	if (w < 0)
		return real_writev(fd, iov, cnt);
	pthread_mutex_lock(&mtx);
	off = curpos(fd);
	r = real_writev(fd, iov, cnt);
	e = errno;
	if (r > 0)
		off = curpos(fd) - r;
	emit(OP_WRITEV, w, fd, 0, off, cnt > 0 ? iov_total(iov, cnt) : 0, RES(r), iov,
	     cnt > 0 ? cnt : 0);
	pthread_mutex_unlock(&mtx);
	errno = e;
	return r;
}

ssize_t pwritev(int fd, const struct iovec *iov, int cnt, off_t off)
{
	ssize_t r;
	int w, e;
	REAL(pwritev);

	w = watched(fd);
	if (w < 0)
		return real_pwritev(fd, iov, cnt, off);
	pthread_mutex_lock(&mtx);
	r = real_pwritev(fd, iov, cnt, off);
	e = errno;
	emit(OP_PWRITEV, w, fd, 0, off, cnt > 0 ? iov_total(iov, cnt) : 0, RES(r), iov,
	     cnt > 0 ? cnt : 0);
	pthread_mutex_unlock(&mtx);
	errno = e;
	return r;
}

ssize_t pwritev64(int fd, const struct iovec *iov, int cnt, off64_t off)
{
	ssize_t r;
	int w, e;
	REAL(pwritev64);

	w = watched(fd);
	if (w < 0)
		return real_pwritev64(fd, iov, cnt, off);
	pthread_mutex_lock(&mtx);
	r = real_pwritev64(fd, iov, cnt, off);
	e = errno;
	emit(OP_PWRITEV, w, fd, 0, off, cnt > 0 ? iov_total(iov, cnt) : 0, RES(r), iov,
	     cnt > 0 ? cnt : 0);
	pthread_mutex_unlock(&mtx);
	errno = e;
	return r;
}

ssize_t pwritev2(int fd, const struct iovec *iov, int cnt, off_t off, int flags)
{
	ssize_t r;
	int w, e;
	int64_t o = off;
	REAL(pwritev2);

	w = watched(fd);
	if (w < 0)
		return real_pwritev2(fd, iov, cnt, off, flags);
	pthread_mutex_lock(&mtx);
	if (off == -1)
		o = curpos(fd);
	r = real_pwritev2(fd, iov, cnt, off, flags);
	e = errno;
	if (off == -1 && r > 0)
		o = curpos(fd) - r;
	emit(OP_PWRITEV, w, fd, (uint32_t) flags, o, cnt > 0 ? iov_total(iov, cnt) : 0,
	     RES(r), iov, cnt > 0 ? cnt : 0);
	pthread_mutex_unlock(&mtx);
	errno = e;
	return r;
}

ssize_t pwritev64v2(int fd, const struct iovec *iov, int cnt, off64_t off, int flags)
{
	ssize_t r;
	int w, e;
	int64_t o = off;
	REAL(pwritev64v2);

	w = watched(fd);
	if (w < 0)
		return real_pwritev64v2(fd, iov, cnt, off, flags);
	pthread_mutex_lock(&mtx);
	if (off == -1)
		o = curpos(fd);
	r = real_pwritev64v2(fd, iov, cnt, off, flags);
	e = errno;
	if (off == -1 && r > 0)
		o = curpos(fd) - r;
	emit(OP_PWRITEV, w, fd, (uint32_t) flags, o, cnt > 0 ? iov_total(iov, cnt) : 0,
	     RES(r), iov, cnt > 0 ? cnt : 0);
	pthread_mutex_unlock(&mtx);
	errno = e;
	return r;
}

/* ---------------------------------------------------------------- durability */

#define SYNC1(fn, opcode)						\
int fn(int fd)								\
{									\
	int r, w, e;							\
	REAL(fn);							\
	w = watched(fd);						\
	if (w < 0)							\
		return real_##fn(fd);					\
	pthread_mutex_lock(&mtx);					\
	r = real_##fn(fd);						\
	e = errno;							\
	emit(opcode, w, fd, 0, 0, 0, RES(r), NULL, 0);			\
	pthread_mutex_unlock(&mtx);					\
	errno = e;							\
	return r;							\
}

SYNC1(fsync, OP_FSYNC)
SYNC1(fdatasync, OP_FDATASYNC)
SYNC1(syncfs, OP_SYNCFS)

int sync_file_range(int fd, off64_t off, off64_t n, unsigned int flags)
{
	int r, w, e;
	REAL(sync_file_range);

	w = watched(fd);
	if (w < 0)
		return real_sync_file_range(fd, off, n, flags);
	pthread_mutex_lock(&mtx);
	r = real_sync_file_range(fd, off, n, flags);
	e = errno;
	emit(OP_SYNC_FILE_RANGE, w, fd, flags, off, (uint64_t) n, RES(r), NULL, 0);
	pthread_mutex_unlock(&mtx);
	errno = e;
	return r;
}

void sync(void)
{
	int i;
	REAL(sync);

	if (!inited)
		init();
	real_sync();
	if (nwatch == 0)
		return;
	pthread_mutex_lock(&mtx);
	for (i = 0; i < nwatch; i++)
		if (watch[i].ok)
			emit(OP_SYNC, i, -1, 0, 0, 0, 0, NULL, 0);
	pthread_mutex_unlock(&mtx);
}

/* ---------------------------------------------------------------- size / allocation */

#define TRUNC(fn, offtype)						\
int fn(int fd, offtype len)						\
{									\
	int r, w, e;							\
	REAL(fn);							\
	w = watched(fd);						\
	if (w < 0)							\
		return real_##fn(fd, len);				\
	pthread_mutex_lock(&mtx);					\
	r = real_##fn(fd, len);						\
	e = errno;							\
	emit(OP_FTRUNCATE, w, fd, 0, len, 0, RES(r), NULL, 0);		\
	pthread_mutex_unlock(&mtx);					\
	errno = e;							\
	return r;							\
}

TRUNC(ftruncate, off_t)
TRUNC(ftruncate64, off64_t)

#define FALLOC(fn, offtype)						\
int fn(int fd, int mode, offtype off, offtype len)			\
{									\
	int r, w, e;							\
	REAL(fn);							\
	w = watched(fd);						\
	if (w < 0)							\
		return real_##fn(fd, mode, off, len);			\
	pthread_mutex_lock(&mtx);					\
	r = real_##fn(fd, mode, off, len);				\
	e = errno;							\
	emit(OP_FALLOCATE, w, fd, (uint32_t) mode, off, (uint64_t) len,	\
	     RES(r), NULL, 0);						\
	pthread_mutex_unlock(&mtx);					\
	errno = e;							\
	return r;							\
}

FALLOC(fallocate, off_t)
FALLOC(fallocate64, off64_t)

/* posix_fallocate returns the error number instead of setting errno */
#define PFALLOC(fn, offtype)						\
int fn(int fd, offtype off, offtype len)				\
{									\
	int r, w, e;							\
	REAL(fn);							\
	w = watched(fd);						\
	if (w < 0)							\
		return real_##fn(fd, off, len);				\
	pthread_mutex_lock(&mtx);					\
	r = real_##fn(fd, off, len);					\
	e = errno;							\
	emit(OP_FALLOCATE, w, fd, 0, off, (uint64_t) len,		\
	     r ? -(int64_t) r : 0, NULL, 0);				\
	pthread_mutex_unlock(&mtx);					\
	errno = e;							\
	return r;							\
}

PFALLOC(posix_fallocate, off_t)
PFALLOC(posix_fallocate64, off64_t)
