/*
 * failwrite.so - LD_PRELOAD shim used by checks/C17.py (plain build only).
 *
 * Counts the pwrite64/pwrite/write calls that hit the file FAILWRITE_PATH (identified by
 * st_dev/st_ino).  The FAILWRITE_K-th of them (1-based; 0 = never) fails, and from then on
 * every write that overlaps the byte range of that call fails too (a bad sector: the
 * library retries a failed pwrite with lseek+write, a one-shot failure would be repaired
 * by the retry and there would be nothing to report).
 *   FAILWRITE_MODE=eio (default) -> -1/EIO, enospc -> -1/ENOSPC, short -> writes half.
 * The first injected failure is announced on fd 1 with a raw write(2) as
 * "!FAULT <n> <size> <offset>\n" (the driver flushes its own stdout after every result
 * line, so the announcement precedes the result line of the library call during which it
 * happened); with FAILWRITE_TRACE every counted call is announced as "!W <n> <size> <off>",
 * with FAILWRITE_SYNCTRACE every fsync/fdatasync of the target as "!S 0 0 0".
 */
#define _GNU_SOURCE
#include <dlfcn.h>
#include <errno.h>
#include <stdio.h>
#include <stdlib.h>
#include <string.h>
#include <sys/stat.h>
#include <sys/types.h>
#include <unistd.h>

static ssize_t (*real_write)(int, const void *, size_t);
static ssize_t (*real_pwrite)(int, const void *, size_t, off_t);
static ssize_t (*real_pwrite64)(int, const void *, size_t, off64_t);
static dev_t t_dev;
static ino_t t_ino;
static int (*real_fsync)(int);
static int (*real_fdatasync)(int);
static int have_target, inited, trace, synctrace;
static long fail_k, counter;
static int mode;	/* 0 eio, 1 enospc, 2 short */
static int bad_set;
static long long bad_lo, bad_hi;

static void init(void)
{
	const char *p;
	struct stat st;

	if (inited)
		return;
	inited = 1;
	real_write = dlsym(RTLD_NEXT, "write");
	real_pwrite = dlsym(RTLD_NEXT, "pwrite");
	real_pwrite64 = dlsym(RTLD_NEXT, "pwrite64");
	real_fsync = dlsym(RTLD_NEXT, "fsync");
	real_fdatasync = dlsym(RTLD_NEXT, "fdatasync");
	p = getenv("FAILWRITE_PATH");
	if (p && stat(p, &st) == 0) {
		t_dev = st.st_dev;
		t_ino = st.st_ino;
		have_target = 1;
	}
	p = getenv("FAILWRITE_K");
	fail_k = p ? atol(p) : 0;
	p = getenv("FAILWRITE_MODE");
	if (p && !strcmp(p, "enospc"))
		mode = 1;
	else if (p && !strcmp(p, "short"))
		mode = 2;
	trace = getenv("FAILWRITE_TRACE") != NULL;
	synctrace = getenv("FAILWRITE_SYNCTRACE") != NULL;
}

static void say(const char *tag, long n, size_t size, long long off)
{
	char buf[96];
	int len = snprintf(buf, sizeof(buf), "%s %ld %zu %lld\n", tag, n, size, off);

	if (len > 0)
		real_write(1, buf, len);
}

/* returns 0 = pass through, 1 = fail with errno set, 2 = short write */
static int decide(int fd, size_t size, long long off)
{
	struct stat st;
	long n;
	int hit = 0;

	init();
	if (!have_target || fd <= 2 || size == 0)
		return 0;
	if (fstat(fd, &st) != 0 || st.st_dev != t_dev || st.st_ino != t_ino)
		return 0;
	if (off < 0)
		off = (long long) lseek(fd, 0, SEEK_CUR);
	n = ++counter;
	if (trace)
		say("!W", n, size, off);
	if (n == fail_k) {
		bad_set = 1;
		bad_lo = off;
		bad_hi = off + (long long) size;
		say("!FAULT", n, size, off);
		hit = 1;
	} else if (bad_set && off < bad_hi && off + (long long) size > bad_lo) {
		hit = 1;
	}
	if (!hit)
		return 0;
	if (mode == 2 && size > 1)
		return 2;
	errno = mode == 1 ? ENOSPC : EIO;
	return 1;
}

ssize_t write(int fd, const void *buf, size_t count)
{
	int d = decide(fd, count, -1);

	if (d == 1)
		return -1;
	if (d == 2)
		return real_write(fd, buf, count / 2);
	return real_write(fd, buf, count);
}

ssize_t pwrite(int fd, const void *buf, size_t count, off_t off)
{
	int d = decide(fd, count, (long long) off);

	if (d == 1)
		return -1;
	if (d == 2)
		return real_pwrite(fd, buf, count / 2, off);
	return real_pwrite(fd, buf, count, off);
}

ssize_t pwrite64(int fd, const void *buf, size_t count, off64_t off)
{
	int d = decide(fd, count, (long long) off);

	if (d == 1)
		return -1;
	if (d == 2)
		return real_pwrite64(fd, buf, count / 2, off);
	return real_pwrite64(fd, buf, count, off);
}

static void note_sync(int fd)
{
	struct stat st;

	init();
	if (!synctrace || !have_target || fd <= 2)
		return;
	if (fstat(fd, &st) != 0 || st.st_dev != t_dev || st.st_ino != t_ino)
		return;
	say("!S", 0, 0, 0);
}

int fsync(int fd)
{
	note_sync(fd);
	return real_fsync(fd);
}

int fdatasync(int fd)
{
	note_sync(fd);
	return real_fdatasync(fd);
}
