"""C16 - every bitmap implementation behaves as a set of integers.

Random operation histories are executed by drivers/drv_bitmap.c on every backend
(bitarray, rbtree, autodir, legacy 32-bit) and every result is compared with a Python
reference set.  Half of the histories run the ASan build, half the plain build with the
rbtree backend's own DEBUG_RB structural check compiled in.
"""
import json
import os

from vf import build, run, report

ENOENT, EINVAL = "ENOENT", "EINVAL"

BUDGET = {"quick": 4000, "thorough": 100000}
OPS_PER_HISTORY = 200


class Model:
    def __init__(self, start, end, real_end, cbits):
        self.start, self.end, self.real_end, self.cbits = start, end, real_end, cbits
        self.bits = set()
        self.pad_known = True      # bits in (end, real_end] are known (all backends agree)

    def copy(self):
        m = Model(self.start, self.end, self.real_end, self.cbits)
        m.bits = set(self.bits)
        m.pad_known = self.pad_known
        return m

    def extents(self):
        out = []
        for b in sorted(self.bits):
            if out and out[-1][1] == b:
                out[-1][1] = b + 1
            else:
                out.append([b, b + 1])
        return out

    def limit(self):
        return self.real_end if self.pad_known else self.end


def gen_history(rng, kinds):
    """Return (script_lines, expectations, stats).  Each expectation is
    (line_index, op_descr, expected) where expected is a str (exact match) or a tuple
    ('get', err, nbits, bits_as_int)."""
    cbits = rng.choice([0, 0, 0, 2, 4]) if "cluster" in kinds else 0
    magic = rng.choice(["B", "I", "G"]) if cbits == 0 else "B"
    start = rng.choice([0, 1, 1]) if cbits == 0 else 0
    size = rng.choice([8, 9, 15, 16, 17, 63, 64, 65, 100, 127, 128, 129, 200, 500, 1000,
                       4096, 8191, 70000 if rng.random() < 0.3 else 3000])
    end = start + size - 1
    real_end = end + rng.choice([0, 0, 1, 7, 8, 13, 64])
    backends = [("ba", 1), ("rb", 2), ("auto", 3)]
    if cbits == 0:
        backends.append(("legacy", 0))
    lines = ["fs %d 1" % cbits]
    exp = [(0, "fs", "r fs 0 cbits=%d" % cbits)]
    models = {}
    slots = {}
    for i, (name, typ) in enumerate(backends):
        lines.append("new %d %s %d %d %d %d" % (i, magic, typ, start, end, real_end))
        exp.append((len(lines) - 1, "new", "r new 0"))
        slots[name] = i
    m = Model(start, end, real_end, cbits)
    stats = {"merges": 0, "splits": 0, "max_extents": 0, "ops": {}}
    ratio = 1 << cbits
    copy_slots = None       # after 'copy' we keep a diverging copy of every backend
    cm = None

    def emit(cmdfmt, expected, descr, targets=None):
        for name, s in slots.items():
            if targets and name not in targets:
                continue
            lines.append(cmdfmt % s)
            e = expected(name) if callable(expected) else expected
            if e is not None:
                exp.append((len(lines) - 1, "%s[%s]" % (descr, name), e))

    def pick_pos(lo, hi):
        """A cluster index in [lo, hi], biased to extent edges."""
        if hi < lo:
            return lo
        if rng.random() < 0.6:
            ex = m.extents()
            if ex:
                a, b = rng.choice(ex)
                c = rng.choice([a - 1, a, a + 1, b - 2, b - 1, b, b + 1])
                if lo <= c <= hi:
                    return c
        r = rng.random()
        if r < 0.1:
            return lo
        if r < 0.2:
            return hi
        return rng.randint(lo, hi)

    def blk(c):
        """A block number inside cluster c."""
        return c * ratio + (rng.randrange(ratio) if ratio > 1 else 0)

    nops = OPS_PER_HISTORY
    for _ in range(nops):
        before = len(m.extents())
        r = rng.random()
        op = None
        if r < 0.16:
            op = "mark"
            if rng.random() < 0.04:
                c = rng.choice([m.end + 1, m.end + 5] + ([m.start - 1] if m.start else []))
                emit("mark %%d %d" % (c * ratio), "r mark 0", "mark-oor")
            else:
                c = pick_pos(m.start, m.end)
                emit("mark %%d %d" % blk(c), "r mark %d" % (c in m.bits), "mark")
                m.bits.add(c)
        elif r < 0.30:
            op = "unmark"
            if rng.random() < 0.04:
                c = m.end + 1
                emit("unmark %%d %d" % (c * ratio), "r unmark 0", "unmark-oor")
            else:
                c = pick_pos(m.start, m.end)
                emit("unmark %%d %d" % blk(c), "r unmark %d" % (c in m.bits), "unmark")
                m.bits.discard(c)
        elif r < 0.42:
            op = "test"
            if rng.random() < 0.04:
                emit("test %%d %d" % ((m.end + 1) * ratio), "r test 0", "test-oor")
            else:
                c = pick_pos(m.start, m.end)
                emit("test %%d %d" % blk(c), "r test %d" % (c in m.bits), "test")
        elif r < 0.62:
            op = rng.choice(["mrange", "urange", "trange", "trange"])
            c0 = pick_pos(m.start, m.end)
            c1 = min(m.end, pick_pos(c0, min(m.end, c0 + rng.choice([0, 1, 3, 8, 20, 70, 300]))))
            if c1 < c0:
                c1 = c0
            # block-unit arguments whose cluster span is exactly [c0, c1]
            b0 = blk(c0)
            b1 = blk(c1)
            if b1 < b0:
                b1 = b0
            n = b1 - b0 + 1
            rngc = range(c0, c1 + 1)
            if op == "mrange":
                emit("mrange %%d %d %d" % (b0, n), "r mrange 0", "mrange")
                m.bits.update(rngc)
            elif op == "urange":
                emit("urange %%d %d %d" % (b0, n), "r urange 0", "urange")
                m.bits.difference_update(rngc)
            else:
                clear = not any(c in m.bits for c in rngc)

                def e(name, clear=clear):
                    if name == "legacy" and magic != "B":
                        return None
                    return "r trange %d" % clear
                emit("trange %%d %d %d" % (b0, n), e, "trange")
                if magic == "I" and "legacy" in slots:
                    emit("itrange %%d %d %d" % (b0, n), "r itrange %d" % clear, "itrange",
                         targets=("legacy",))
        elif r < 0.72:
            op = "get"
            lim = m.limit()
            k = rng.randrange(0, (lim - m.start) // 8 + 1)
            s0 = m.start + 8 * k
            if s0 > lim:
                s0 = m.start
            maxn = lim - s0 + 1
            n = min(maxn, rng.choice([1, 3, 7, 8, 9, 16, 31, 64, 100, 1000, maxn]))
            if n >= 1:
                val = 0
                for i in range(n):
                    if (s0 + i) in m.bits:
                        val |= 1 << i
                emit("get %%d %d %d" % (s0, n), ("get", "0", n, val), "get")
        elif r < 0.80:
            op = "set"
            lim = m.limit()
            k = rng.randrange(0, (lim - m.start) // 8 + 1)
            s0 = m.start + 8 * k
            if s0 > m.end:
                s0 = m.start
            maxn = m.end - s0 + 1
            n = min(maxn, rng.choice([1, 5, 8, 13, 16, 24, 64, 200, maxn]))
            if n >= 1:
                # the range must be clear first (rb set_range only ever adds bits; its
                # one caller, the bitmap loader, works on fresh bitmaps)
                if any((s0 + i) in m.bits for i in range(n)):
                    emit("urange %%d %d %d" % (s0 * ratio, n * ratio), "r urange 0", "urange")
                    m.bits.difference_update(range(s0, s0 + n))
                pat = rng.choice(["rand", "rand", "ones", "runs", "zero"])
                val = 0
                if pat == "ones":
                    val = (1 << n) - 1
                elif pat == "rand":
                    val = rng.getrandbits(n)
                elif pat == "runs":
                    i = 0
                    on = rng.random() < 0.5
                    while i < n:
                        ln = rng.choice([1, 2, 7, 8, 9, 17, 40])
                        if on:
                            val |= ((1 << min(ln, n - i)) - 1) << i
                        on = not on
                        i += ln
                nb = (n + 7) // 8
                full = val
                # padding bits of the last byte carry the current content
                for i in range(n, nb * 8):
                    if (s0 + i) in m.bits:
                        full |= 1 << i
                tail_known = (s0 + nb * 8 - 1) <= m.limit() or all(
                    (s0 + i) > m.real_end or (s0 + i) <= m.limit() for i in range(n, nb * 8))
                if tail_known:
                    hexs = full.to_bytes(nb, "little").hex()
                    emit("set %%d %d %d %s" % (s0, n, hexs), "r set 0", "set")
                    for i in range(n):
                        if val >> i & 1:
                            m.bits.add(s0 + i)
        elif r < 0.90:
            op = rng.choice(["ffz", "ffs"])
            if rng.random() < 0.06:
                # invalid: start > end or end beyond the bitmap
                if rng.random() < 0.5 and m.end > m.start:
                    a, b = m.start + 1, m.start
                else:
                    a, b = m.start, m.end + 1
                emit("%s %%d %d %d" % (op, a * ratio, b * ratio), "r %s EINVAL" % op, op + "-inv")
            else:
                c0 = pick_pos(m.start, m.end)
                c1 = pick_pos(c0, m.end) if rng.random() < 0.7 else m.end
                b0, b1 = blk(c0), blk(c1)
                if b1 < b0:
                    b1 = b0
                want = op == "ffs"
                res = None
                for c in range(c0, c1 + 1):
                    if (c in m.bits) == want:
                        res = max(c * ratio, b0)
                        break
                e = "r %s ENOENT" % op if res is None else "r %s 0 %d" % (op, res)
                emit("%s %%d %d %d" % (op, b0, b1), e, op)
        elif r < 0.92:
            op = "copy"
            # copy every backend's bitmap to slot+8, then compare and diverge
            for name, s in slots.items():
                lines.append("copy %d %d" % (s, s + 8))
                exp.append((len(lines) - 1, "copy[%s]" % name, "r copy 0"))
                lines.append("cmp %d %d" % (s, s + 8))
                exp.append((len(lines) - 1, "cmp-after-copy[%s]" % name, "r cmp 0"))
            cm = m.copy()
            copy_slots = True
        elif r < 0.95:
            op = "cmp"
            if copy_slots and cm.start == m.start:
                same = (cm.end == m.end and
                        all(((c in cm.bits) == (c in m.bits))
                            for c in range(m.start, m.end + 1)))
                # where do they differ?  (used for the finding signature)
                for name, s in slots.items():
                    lines.append("cmp %d %d" % (s, s + 8))
                    exp.append((len(lines) - 1, "cmp[%s]" % name,
                                "r cmp 0" if same else "r cmp NEQ"))
        elif r < 0.97:
            op = "resize"
            ne = rng.choice([m.end, max(m.start, m.end - rng.randint(1, 40)),
                             m.end + rng.randint(1, 200),
                             max(m.start, pick_pos(m.start, m.end))])
            nre = ne + rng.choice([0, 0, 3, 8, 31])
            emit("resize %%d %d %d" % (ne, nre), "r resize 0", "resize")
            keep = min(ne, m.end)
            m.bits = {c for c in m.bits if c <= keep}
            m.end, m.real_end = ne, nre
            m.pad_known = (ne == nre)
            copy_slots = None
        elif r < 0.98:
            op = "pad"
            emit("pad %d", "r pad 0", "pad")
            m.bits = {c for c in m.bits if c <= m.end}
            m.bits.update(range(m.end + 1, m.real_end + 1))
            m.pad_known = True
        elif r < 0.99:
            op = "fudge"
            if m.pad_known and rng.random() < 0.5:
                ne = rng.randint(m.start, m.real_end)
            else:
                ne = rng.randint(m.start, m.end)
            if rng.random() < 0.1:
                emit("fudge %%d %d" % (m.real_end + 1), "r fudge NEQ", "fudge-neq")
            else:
                emit("fudge %%d %d" % ne, "r fudge 0 %d" % m.end, "fudge")
                if not m.pad_known:
                    m.bits = {c for c in m.bits if c <= ne}
                m.end = ne
                copy_slots = None
        else:
            op = "clear"
            emit("clear %d", "r clear 0", "clear")
            m.bits.clear()
            m.pad_known = True
        stats["ops"][op] = stats["ops"].get(op, 0) + 1
        after = len(m.extents())
        stats["max_extents"] = max(stats["max_extents"], after)
        if op in ("mark", "mrange", "set") and after < before:
            stats["merges"] += 1
        if op in ("unmark", "urange") and after > before:
            stats["splits"] += 1
        # also mutate the copies now and then so that they diverge
        if copy_slots and rng.random() < 0.15 and cm.end >= cm.start:
            c = rng.randint(cm.start, cm.end)
            for name, s in slots.items():
                lines.append("mark %d %d" % (s + 8, c * ratio))
                exp.append((len(lines) - 1, "mark-copy[%s]" % name, "r mark %d" % (c in cm.bits)))
            cm.bits.add(c)
    # final full read-out of every backend
    n = m.end - m.start + 1
    val = 0
    for i in range(n):
        if (m.start + i) in m.bits:
            val |= 1 << i
    emit("get %%d %d %d" % (m.start, n), ("get", "0", n, val), "final-get")
    if magic == "B" and m.end > m.start + 1:
        # ext2fs_count_used_blocks over the whole range (block units)
        cnt = sum(1 for c in m.bits if m.start <= c <= m.end) * ratio
        lo, hi = m.start * ratio, m.end * ratio + ratio - 1
        emit("count %%d %d %d" % (lo, hi), "r count 0 %d" % cnt, "count")
    cfg = {"cbits": cbits, "magic": magic, "start": start, "size": size,
           "pad": real_end - end, "backends": [b[0] for b in backends]}
    return lines, exp, stats, cfg


def judge(lines, exp, outtext):
    """Compare driver output with expectations; returns list of (key, what)."""
    out = outtext.split("\n")
    res = [l for l in out if l.startswith("r ")]
    if out and out[-1] != "" and res and res[-1] == out[-1]:
        res.pop()       # partial last line of a driver that died
    viol = []
    if len(res) < len(lines):
        viol.append(("driver-died", "driver produced %d of %d results; last command: %s" %
                     (len(res), len(lines), lines[len(res)] if len(res) < len(lines) else "?")))
    for idx, descr, e in exp:
        if idx >= len(res):
            break
        got = res[idx]
        if isinstance(e, tuple):
            _, err, n, val = e
            parts = got.split()
            ok = len(parts) >= 3 and parts[1] == "get" and parts[2] == err
            gv = None
            if ok:
                hexs = parts[3] if len(parts) > 3 else ""
                try:
                    gv = int.from_bytes(bytes.fromhex(hexs), "little") & ((1 << n) - 1)
                    ok = gv == val
                except ValueError:
                    ok = False
            if not ok:
                diff = ""
                if gv is not None:
                    x = gv ^ val
                    lowest = (x & -x).bit_length() - 1
                    diff = " first differing bit offset %d (got %d)" % (lowest, gv >> lowest & 1)
                viol.append((descr, "cmd %r: got %s expected bits=%x/%d%s" %
                             (lines[idx], got[:80], val, n, diff)))
        elif got != e:
            viol.append((descr, "cmd %r: got %r expected %r" % (lines[idx], got, e)))
    return viol


def signature(descr, lines, got_what, m_hint=""):
    """Narrow, stable key for known-findings matching: op[backend] + result class."""
    return descr


def _run_one(arg):
    drv, env, seed, idx, kinds = arg
    rng = run.rng_for(seed, "C16", idx)
    lines, exp, stats, cfg = gen_history(rng, kinds)
    script = ("\n".join(lines) + "\nquit\n").encode()
    r = run.run([drv], env=env, stdin=script, timeout=120, cap=8 << 20)
    viol = judge(lines, exp, r.text)
    crash = None
    if r.timed_out:
        crash = ("timeout", "driver timed out")
    elif r.sig or r.rc not in (0,):
        et = r.etext
        i = et.find("==ERROR")
        crash = ("crash rc=%s sig=%s" % (r.rc, r.sig), et[max(0, i - 20):][:2500] if i >= 0 else et[-1500:])
    return {"idx": idx, "viol": viol[:5], "nviol": len(viol), "crash": crash, "stats": stats,
            "cfg": cfg, "nlines": len(lines), "script": lines if (viol or crash) else None,
            "sample": lines[:14] if idx < 2 else None}


def classify(descr, what, cfg):
    """Finding key = operation[backend] + a coarse condition, so different defects of the
    same operation are still told apart by their condition."""
    cond = ""
    if descr.startswith("cmp"):
        cond = " cluster" if cfg["cbits"] else " noncluster"
    if "EINVAL" in what or "ENOENT" in what:
        cond += " err"
    return "C16 %s%s" % (descr, cond)


def main(tier, seed, replay=None, scale=1.0):
    rep = report.Report("C16", tier, seed, "exploration",
                        rule="seeded random histories of %d bitmap API calls, each replayed on "
                             "bitarray/rbtree/autodir/legacy backends and judged against a Python "
                             "set; non-trivial = history reaching >=3 extents with >=1 merge and "
                             ">=1 split in the model; distinct by (config, op histogram)" %
                             OPS_PER_HISTORY)
    plain = build.get_build("plain")
    asan = build.get_build("asan")
    drv_plain = plain.driver("drv_bitmap", extra_cflags="-DDRV_DEBUG_RB")
    drv_asan = asan.driver("drv_bitmap")
    env_p = run.base_env(plain)
    env_a = run.base_env(asan)
    if replay:
        case = json.load(open(os.path.join(replay, "case.json")))["case"]
        items = [(drv_asan if case["variant"] == "asan" else drv_plain,
                  env_a if case["variant"] == "asan" else env_p, case["seed"], case["idx"],
                  case["kinds"])]
    else:
        n = max(4, int(BUDGET[tier] * scale))
        kinds = ["cluster"]
        items = [((drv_asan, env_a) if i % 2 else (drv_plain, env_p)) + (seed, i, kinds)
                 for i in range(n)]
    results = run.pmap(_run_one, items, chunksize=4)
    for it, r in zip(items, results):
        st = r["stats"]
        nontriv = None
        if st["max_extents"] >= 3 and st["merges"] >= 1 and st["splits"] >= 1:
            nontriv = json.dumps([r["cfg"], sorted(st["ops"].items())], sort_keys=True)
        rep.case(nontriv)
        rep.count("api_calls", r["nlines"])
        rep.count("merges", st["merges"])
        rep.count("splits", st["splits"])
        for k, v in st["ops"].items():
            rep.count("op_" + str(k), v)
        rep.add("configs", r["cfg"])
        variant = "asan" if it[0] == drv_asan else "plain+DEBUG_RB"
        rep.count("histories_" + variant)
        if r["sample"]:
            rep.sample({"config": r["cfg"], "first_commands": r["sample"]})
        case = {"seed": it[2], "idx": it[3], "kinds": it[4],
                "variant": "asan" if it[0] == drv_asan else "plain", "cfg": r["cfg"]}
        files = {"script.txt": ("\n".join(r["script"]) + "\n").encode()} if r["script"] else {}
        seen = set()
        for descr, what in r["viol"]:
            key = classify(descr, what, r["cfg"])
            if key in seen:
                continue
            seen.add(key)
            rep.violation(key, what, replay=case, files=files)
        if r["crash"]:
            kind, text = r["crash"]
            if kind == "timeout":
                rep.note_inconclusive("driver timeout idx=%d" % r["idx"])
            else:
                k = "C16 " + kind
                if "AddressSanitizer" in text:
                    import re
                    mm = re.search(r"AddressSanitizer: (\S+).*?\n(?:.*\n)*?\s+#\d+ \S+ in (\w+)", text)
                    k = "C16 asan %s in %s" % (mm.group(1), mm.group(2)) if mm else "C16 asan"
                elif "Tree Error" in text:
                    k = "C16 rbtree structural invariant broken (DEBUG_RB check_tree)"
                rep.violation(k, text[-800:], replay=case, files=files)
    rep.assumptions = ["bitmaps are used as their callers use them: range starts byte-aligned "
                       "relative to the bitmap start, set_range only onto clear ranges, padding "
                       "bits beyond 'end' unspecified after a resize until set_padding/clear",
                       "ASan red zones only; plain half runs the rbtree's DEBUG_RB check_tree"]
    return rep.finish()
