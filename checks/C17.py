"""C17 - block I/O layer: coherent, durable on flush, race-free under threads.

(A)  Random histories of io_channel calls are executed by drivers/drv_io.c on every channel
     configuration (unix cached / cache=off / IO_FLAG_NOCACHE / write-through / forced bounce /
     O_DIRECT / IO_FLAG_THREADS / unixfd / undo-wrapped / test_io-wrapped, with an "offset"
     option) and judged against a Python byte-array model of the backing file: every read
     must return the most recently written bytes, after every flush and close the file
     (read by Python) must equal the model, the unix_io cache self-check
     ("verif_check_cache") must report coherent after every call, and on the plain build a
     flush must fsync the backing file.  Half of the histories run the ASan build.
(A-fault) For a few histories every device write k of the fault-free run is made to fail
     (LD_PRELOAD shim shim/failwrite.c, bad-sector semantics); some call at or after the
     failing one, no later than close, must return an error.
(B)  drivers/drv_rwbmap.c (ThreadSanitizer build) loads the bitmaps of generated
     geometries with thread counts {1,2,3,4,7,16,groups,groups+5,-1} under seeded delays:
     digests, tail flags and error class must equal the single-threaded result, the
     threads' group ranges must partition [0, groups), and neither the driver nor the
     TSan-built dumpe2fs / e2fsck -fn / e2freefrag / debugfs / e2image may produce a
     ThreadSanitizer report.
"""
import json
import os
import random
import re
import select
import signal
import struct
import subprocess
import time
import zlib

from vf import build, run, report

BUDGET_A = {"quick": 400, "thorough": 10000}
BUDGET_B = {"quick": 60, "thorough": 1500}
BUDGET_FAULT = {"quick": 10, "thorough": 100}          # histories whose every write is failed
BUDGET_C = {"quick": 40, "thorough": 1200}           # multi-threaded shared-channel histories
BUDGET = {"quick": BUDGET_A["quick"] + BUDGET_B["quick"],
          "thorough": BUDGET_A["thorough"] + BUDGET_B["thorough"]}
OPS_PER_HISTORY = 70
SLACK = 131072
VERIF = os.path.dirname(os.path.dirname(os.path.abspath(__file__)))

# ---------------------------------------------------------------------------------------
# (A) history generation
# ---------------------------------------------------------------------------------------

WRITE_CLASSES = ("initial content", "write of 1-4 blocks", "write of >4 blocks",
                 "write with byte count", "write_byte", "zeroout", "discard")


def open_lines(cfg, nopen):
    """Commands that (re)open the channel in its configuration."""
    flags = ",".join(cfg["flags"]) or "-"
    l = ["open %s %s @IMG%s" % (cfg["kind"], flags,
                                 (" @UNDO%d" % nopen) if cfg["kind"] == "undo" else "")]
    if cfg["offset"]:
        l.append("opt offset=%d" % cfg["offset"])
    return l


def post_open_lines(cfg, bs):
    l = ["bs %d" % bs]
    if cfg["cache"] == "off-opt":
        l.append("opt cache=off")
    if cfg["wt"]:
        l.append("wt 1")
    return l


def gen_config(rng):
    kind = rng.choices(["unix", "unixfd", "undo", "test"], [40, 15, 20, 25])[0]
    flags = ["rw"]
    if rng.random() < 0.3:
        flags.append("threads")
    if rng.random() < 0.12:
        flags.append("direct")
    if rng.random() < 0.05:
        flags.append("excl")
    cache = rng.choices(["on", "off-opt", "off-flag"], [72, 18, 10])[0]
    if cache == "off-flag":
        flags.append("nocache")
    bounce = rng.choices(["no", "env", "flag"], [80, 14, 6])[0]
    if bounce == "flag":
        flags.append("bounce")
    wt = kind in ("unix", "unixfd") and cache == "on" and rng.random() < 0.25
    sizes = [1024, 2048, 4096] + ([65536] if rng.random() < 0.2 else [])
    nblk = rng.randint(8, 20)
    b0 = rng.choice([0, 0, 1, 5])
    offset = rng.choice([0, 0, 0, 0, 0, 512, 1024, 4096, 1000, 77])
    cfg = {"kind": kind, "flags": flags, "cache": cache, "bounce_env": bounce == "env",
           "wt": wt, "sizes": sizes, "nblk": nblk, "b0": b0, "offset": offset,
           "bufoff": rng.choice([0, 0, 0, 1, 8, 512]),
           "tail": rng.choice([0, 0, 300, 4096]),
           "hook": rng.random() < 0.7,      # 30%: model-only, no verif_check_cache calls
           "init_seed": rng.getrandbits(48)}
    return cfg


def file_size(cfg):
    return cfg["offset"] + (cfg["b0"] + cfg["nblk"]) * max(cfg["sizes"]) + SLACK + cfg["tail"]


def config_class(cfg):
    """What the evidence calls a distinct channel configuration."""
    return "%s %s cache=%s%s%s off=%d" % (cfg["kind"], "+".join(cfg["flags"]), cfg["cache"],
                                          " wt" if cfg["wt"] else "",
                                          " bounce-env" if cfg["bounce_env"] else "",
                                          cfg["offset"])


def gen_history(rng, nops=OPS_PER_HISTORY):
    cfg = gen_config(rng)
    b0, nblk = cfg["b0"], cfg["nblk"]
    end = b0 + nblk
    bs = rng.choice(cfg["sizes"])
    lines = ["bufoff %d" % cfg["bufoff"]] + open_lines(cfg, 0) + post_open_lines(cfg, bs)
    nopen = 1
    recent = []                 # blocks recently touched through the cache path

    def touch(blk, n):
        for b in range(blk, blk + n):
            if b in recent:
                recent.remove(b)
            recent.append(b)
        del recent[:-8]

    def pick(count):
        hi = end - count
        if recent and rng.random() < 0.55:
            b = rng.choice(recent) - rng.randrange(count)
        elif rng.random() < 0.15:
            b = rng.choice([b0, hi])
        else:
            b = rng.randint(b0, hi)
        return max(b0, min(hi, b))

    def token():
        return rng.randbytes(rng.choice([13, 31, 31, 61])).hex()

    def emit(l):
        lines.append(l)
        if cfg["hook"]:
            lines.append("chk")

    for _ in range(nops):
        r = rng.random()
        s32 = "32" if rng.random() < 0.1 else ""
        if r < 0.22:
            n = rng.randint(1, 4)
            b = pick(n)
            emit("rd%s %d %d" % (s32, b, n))
            touch(b, n)
        elif r < 0.46:
            n = rng.randint(1, 4)
            b = pick(n)
            emit("wr%s %d %d %s" % (s32, b, n, token()))
            touch(b, n)
        elif r < 0.51:
            n = min(nblk, rng.randint(5, 12))
            emit("rd%s %d %d" % (s32, pick(n), n))
        elif r < 0.60:
            n = min(nblk, rng.randint(5, 12))
            emit("wr%s %d %d %s" % (s32, pick(n), n, token()))
        elif r < 0.71:
            size = rng.choice([1, 17, 511, 512, 1000, bs - 1, bs + 1, 3 * bs + 5, 5000, 2 * bs])
            size = max(1, min(size, nblk * bs))
            nb = (size + bs - 1) // bs
            b = pick(nb)
            if rng.random() < 0.45:
                emit("rd%s %d %d" % (s32, b, -size))
            else:
                emit("wr%s %d %d %s" % (s32, b, -size, token()))
        elif r < 0.78:
            size = rng.choice([1, 2, 7, 100, 513, bs + 3, 2 * bs + 1])
            nb = (size + bs - 1) // bs + 1
            b = pick(nb)
            off = b * bs + rng.choice([1, 3, rng.randrange(bs), rng.randrange(bs) | 1, 0])
            emit("wb %d %d %s" % (off, size, token()))
        elif r < 0.83:
            n = rng.randint(1, 6)
            emit("zo %d %d" % (pick(n), n))
        elif r < 0.87:
            n = rng.randint(1, 6)
            emit("di %d %d" % (pick(n), n))
        elif r < 0.89:
            n = rng.randint(1, 8)
            emit("ra %d %d" % (pick(n), n))
        elif r < 0.93:
            bs = rng.choice(cfg["sizes"])
            emit("bs %d" % bs)
            del recent[:]
        elif r < 0.98:
            emit("fl")
        else:
            lines.append("cl")
            lines.extend(open_lines(cfg, nopen))
            nopen += 1
            if rng.random() < 0.5:
                bs = rng.choice(cfg["sizes"])
            lines.extend(post_open_lines(cfg, bs))
            if cfg["hook"]:
                lines.append("chk")
            del recent[:]
    lines.append("fl")
    if cfg["hook"]:
        lines.append("chk")
    lines.append("cl")
    return cfg, lines


# ---------------------------------------------------------------------------------------
# (A) interactive execution + judgement
# ---------------------------------------------------------------------------------------

class Session:
    """A drv_io child driven one command at a time."""

    def __init__(self, argv, env, errpath):
        self.errpath = errpath
        self.errf = open(errpath, "wb")
        self.p = subprocess.Popen(argv, env=env, stdin=subprocess.PIPE, stdout=subprocess.PIPE,
                                  stderr=self.errf, start_new_session=True, bufsize=0)
        self.fd = self.p.stdout.fileno()
        self.buf = b""
        self.events = []
        self.dead = False
        self.timed_out = False
        self.rc = None

    def call(self, line, timeout=60):
        try:
            self.p.stdin.write(line.encode() + b"\n")
        except OSError:
            self.dead = True
            return None
        deadline = time.time() + timeout
        while True:
            while b"\n" in self.buf:
                l, self.buf = self.buf.split(b"\n", 1)
                s = l.decode("utf-8", "replace")
                if s.startswith("!"):
                    self.events.append(s)
                    continue
                return s
            left = deadline - time.time()
            if left <= 0:
                self.timed_out = True
                return None
            r, _, _ = select.select([self.fd], [], [], left)
            if not r:
                self.timed_out = True
                return None
            b = os.read(self.fd, 1 << 16)
            if not b:
                self.dead = True
                return None
            self.buf += b

    def pop_events(self):
        ev, self.events = self.events, []
        return ev

    def close(self):
        try:
            self.p.stdin.close()
        except OSError:
            pass
        if self.timed_out:
            try:
                os.killpg(self.p.pid, signal.SIGKILL)
            except OSError:
                pass
        try:
            self.p.wait(timeout=30)
        except subprocess.TimeoutExpired:
            try:
                os.killpg(self.p.pid, signal.SIGKILL)
            except OSError:
                pass
            self.p.wait()
        self.p.stdout.close()
        self.errf.close()
        self.rc = self.p.returncode
        with open(self.errpath, "rb") as f:
            return f.read(1 << 20).decode("utf-8", "replace")


def initial_content(cfg):
    return random.Random(cfg["init_seed"]).randbytes(file_size(cfg))


def op_class(line):
    """Operation + size class, used in violation keys."""
    p = line.split()
    c = p[0]
    if c in ("rd", "rd32", "wr", "wr32"):
        n = int(p[2])
        what = "read" if c[0] == "r" else "write"
        if n < 0:
            return "%s with byte count" % what
        return "%s of %s blocks" % (what, "1-4" if n <= 4 else ">4")
    return {"wb": "write_byte", "zo": "zeroout", "di": "discard", "ra": "readahead",
            "bs": "set_blksize", "fl": "flush", "cl": "close", "open": "open",
            "opt": "set_option", "wt": "set writethrough", "chk": "verif_check_cache",
            "bufoff": "bufoff"}.get(c, c)


def crc_poison(n):
    return zlib.crc32(b"\xa5" * n)


def execute(cfg, lines, drv, env, wdir, tag="h", shim=None, call_timeout=15):
    """Run `lines` on a fresh backing file and judge them.  Returns a dict with the first
    violation (key, what, index of the offending line) or None, plus observation stats."""
    img = os.path.join(wdir, tag + ".img")
    undo = os.path.join(wdir, tag + ".undo")
    for f in os.listdir(wdir):
        if f.startswith(tag + ".undo"):
            os.unlink(os.path.join(wdir, f))
    init = initial_content(cfg)
    with open(img, "wb") as f:
        f.write(init)
    model = bytearray(init)
    del init
    writes = []                 # (line index, class index, a, b) of model updates, in order
    env = dict(env)
    if cfg["bounce_env"]:
        env["UNIX_IO_FORCE_BOUNCE"] = "1"
    if shim:
        env["LD_PRELOAD"] = shim
        env["FAILWRITE_PATH"] = img
        env["FAILWRITE_K"] = "0"
        env["FAILWRITE_SYNCTRACE"] = "1"
    infer = (cfg["cache"] == "on" and not cfg["wt"] and cfg["kind"] != "undo")
    st = {"ops": {}, "dirty_evictions": 0, "overlap_writes": 0, "direct_writes": 0,
          "byte_writes": 0, "file_compares": 0, "hook_checks": 0, "reads_checked": 0,
          "blocks_read": 0, "fsync_seen": 0, "reopens": 0, "wb_unimplemented": 0,
          "blocks": set(), "executed": 0}
    bs, off = 1024, 0
    pending = []                # [a, b) written through the cache, not yet seen in the file
    recent = []                 # byte ranges of the 8 most recently cache-accessed blocks
    viol = None
    prev_op = "open"
    fdr = os.open(img, os.O_RDONLY)
    sess = Session([drv], env, os.path.join(wdir, tag + ".err"))

    def last_writer(a, b):
        for idx, cls, wa, wb_ in reversed(writes):
            if wa < b and wb_ > a:
                return cls, idx
        return 0, -1

    def touch(a, n):
        for i in range(n):
            r = (a + i * bs, a + (i + 1) * bs)
            if r in recent:
                recent.remove(r)
            recent.append(r)
        del recent[:-8]

    def overlaps_recent(a, b):
        return any(ra < b and rb > a for ra, rb in recent)

    def drop_pending(a, b):
        pending[:] = [p for p in pending if not (p[0] < b and p[1] > a)]

    def look_for_evictions():
        for p in list(pending):
            if os.pread(fdr, p[1] - p[0], p[0]) == bytes(model[p[0]:p[1]]):
                st["dirty_evictions"] += 1
                pending.remove(p)

    def compare_file(i, opname):
        st["file_compares"] += 1
        data = os.pread(fdr, len(model) + 1, 0)
        if data == model:
            return None
        if len(data) != len(model):
            return ("C17 backing file size changed after %s" % opname,
                    "file has %d bytes, model %d" % (len(data), len(model)), i)
        lo = next(j for j in range(0, len(model), 4096) if data[j:j + 4096] != model[j:j + 4096])
        j = next(k for k in range(lo, lo + 4096) if data[k] != model[k])
        cls, widx = last_writer(j, j + 1)
        nbad = sum(1 for k in range(0, len(model), 512) if data[k:k + 512] != model[k:k + 512])
        return ("C17 backing file != model after %s: bytes last written by %s" %
                (opname, WRITE_CLASSES[cls]),
                "after line %d (%s) byte %d of the backing file (channel byte %d = block %d of "
                "size %d) is 0x%02x, most recently written value 0x%02x by line %d (%s); %d "
                "512-byte sectors differ" %
                (i, lines[i], j, j - off, (j - off) // bs, bs, data[j], model[j], widx,
                 lines[widx][:40] if widx >= 0 else "initial content", nbad), i)

    try:
        for i, line in enumerate(lines):
            p = line.split()
            cmd = p[0]
            real = line.replace("@IMG", img).replace("@UNDO", undo)
            res = sess.call(real, timeout=call_timeout)
            events = sess.pop_events()
            if res is None:
                break
            st["executed"] = i + 1
            rp = res.split()
            if len(rp) < 3 or rp[0] != "r" or rp[1] != cmd:
                viol = ("C17 driver protocol error", "line %d %r answered %r" % (i, line, res), i)
                break
            err = rp[2]
            opc = op_class(line)
            if cmd != "chk":
                st["ops"][opc] = st["ops"].get(opc, 0) + 1

            def unexpected():
                return ("C17 unexpected error %s from %s" % (err, opc),
                        "line %d %r returned %s in a fault-free run" % (i, line, err), i)

            if cmd == "chk":
                st["hook_checks"] += 1
                if err != "0":
                    sess_err = ""
                    try:
                        with open(sess.errpath, "rb") as f:
                            sess_err = f.read()[-300:].decode("utf-8", "replace")
                    except OSError:
                        pass
                    stale = sorted(set(re.findall(r"VERIF-CACHE (\w+ \d+)", sess_err)))
                    viol = ("C17 verif_check_cache reports an incoherent cache after %s" % prev_op,
                            "line %d: hook returned %s after %r; %s (block size %d)" %
                            (i, err, lines[i - 1] if i else "", ", ".join(stale[-6:]), bs), i)
                    break
                continue
            prev_op = opc
            if cmd in ("rd", "rd32"):
                blk, n = int(p[1]), int(p[2])
                a = off + blk * bs
                if err != "0":
                    viol = unexpected()
                    break
                if n < 0:
                    exp = [(a, a - n)]
                else:
                    exp = [(a + k * bs, a + (k + 1) * bs) for k in range(n)]
                    st["blocks"].update(range(blk, blk + n))
                got = rp[3:]
                st["reads_checked"] += 1
                st["blocks_read"] += len(exp)
                for k, (xa, xb) in enumerate(exp):
                    want = "%08x" % zlib.crc32(bytes(model[xa:xb]))
                    if k >= len(got) or got[k] != want:
                        cls, widx = last_writer(xa, xb)
                        untouched = k < len(got) and got[k] == "%08x" % crc_poison(xb - xa)
                        viol = ("C17 %s returns bytes other than the most recently written: "
                                "last writer %s" % (opc, WRITE_CLASSES[cls]),
                                "line %d %r: %s %d (block size %d) has crc %s, model says %s; "
                                "those bytes were last written by line %d (%s)%s" %
                                (i, line, "block" if n > 0 else "byte read at block",
                                 blk + (k if n > 0 else 0), bs,
                                 got[k] if k < len(got) else "-", want, widx,
                                 lines[widx][:40] if widx >= 0 else "initial content",
                                 "; the caller's buffer was left untouched" if untouched else ""),
                                i)
                        break
                if viol:
                    break
                if infer:
                    if 0 < n <= 4:
                        touch(a, n)
                        look_for_evictions()
                    else:
                        del pending[:]          # a direct read flushes first
            elif cmd in ("wr", "wr32"):
                blk, n = int(p[1]), int(p[2])
                tok = bytes.fromhex(p[3])
                a = off + blk * bs
                size = -n if n < 0 else n * bs
                if err != "0":
                    viol = unexpected()
                    break
                model[a:a + size] = (tok * (size // len(tok) + 1))[:size]
                cls = 3 if n < 0 else (1 if n <= 4 else 2)
                writes.append((i, cls, a, a + size))
                if n > 0:
                    st["blocks"].update(range(blk, blk + n))
                if cls != 1:
                    st["direct_writes" if cls == 2 else "byte_writes"] += 1
                    if overlaps_recent(a, a + size):
                        st["overlap_writes"] += 1
                if infer:
                    if cls == 1:
                        drop_pending(a, a + size)
                        look_for_evictions()
                        for k in range(n):
                            pending.append((a + k * bs, a + (k + 1) * bs))
                        touch(a, n)
                    else:
                        del pending[:]
                        del recent[:]
            elif cmd == "wb":
                o, size = int(p[1]), int(p[2])
                tok = bytes.fromhex(p[3])
                a = off + o
                if err == "UNIMPL":
                    # honest refusal (O_DIRECT, or align set by the bounce path)
                    st["wb_unimplemented"] += 1
                    continue
                if err != "0":
                    viol = unexpected()
                    break
                model[a:a + size] = (tok * (size // len(tok) + 1))[:size]
                writes.append((i, 4, a, a + size))
                st["byte_writes"] += 1
                if overlaps_recent(a, a + size):
                    st["overlap_writes"] += 1
                del pending[:]
                del recent[:]
            elif cmd in ("zo", "di"):
                blk, n = int(p[1]), int(p[2])
                a = off + blk * bs
                if err == "UNIMPL":
                    continue
                if err != "0":
                    viol = unexpected()
                    break
                model[a:a + n * bs] = bytes(n * bs)
                writes.append((i, 5 if cmd == "zo" else 6, a, a + n * bs))
                if overlaps_recent(a, a + n * bs):
                    st["overlap_writes"] += 1
                drop_pending(a, a + n * bs)
            elif cmd == "ra":
                if err not in ("0", "NOTSUPP"):
                    viol = unexpected()
                    break
            elif cmd == "bs":
                if err != "0":
                    viol = unexpected()
                    break
                bs = int(p[1])
                del pending[:]
                del recent[:]
            elif cmd == "fl":
                if err != "0":
                    viol = unexpected()
                    break
                if shim:
                    if any(e.startswith("!S") for e in events):
                        st["fsync_seen"] += 1
                    else:
                        viol = ("C17 flush returned without an fsync of the backing file",
                                "line %d: io_channel_flush returned 0 but no fsync/fdatasync "
                                "reached the backing file" % i, i)
                        break
                del pending[:]
                viol = compare_file(i, "flush")
                if viol:
                    break
            elif cmd == "cl":
                if err != "0":
                    viol = unexpected()
                    break
                del pending[:]
                del recent[:]
                viol = compare_file(i, "close")
                if viol:
                    break
            elif cmd == "open":
                if err != "0":
                    viol = unexpected()
                    break
                bs, off = 1024, 0
                st["reopens"] += 1
            elif cmd == "opt":
                if err != "0":
                    viol = unexpected()
                    break
                if p[1].startswith("offset="):
                    off = int(p[1][7:])
                elif p[1].startswith("cache="):
                    del pending[:]
                    del recent[:]
            elif cmd in ("wt", "bufoff"):
                pass
            else:
                viol = ("C17 driver protocol error", "unknown script line %r" % line, i)
                break
    finally:
        etext = sess.close()
        os.close(fdr)
    crash = None
    if sess.timed_out:
        j = min(st["executed"], len(lines) - 1)
        crash = ("timeout", "line %d %r did not return within %d s" % (j, lines[j], call_timeout),
                 op_class(lines[j]))
    elif sess.rc not in (0,) or (sess.dead and viol is None and st["executed"] < len(lines)):
        i = etext.find("==ERROR")
        if i < 0:
            i = etext.find("runtime error")
        crash = ("crash rc=%s at %s" % (sess.rc, op_class(lines[min(st["executed"],
                                                                       len(lines) - 1)])),
                 etext[max(0, i - 100):][:2500] if i >= 0 else etext[-1500:])
    st["blocks"] = len(st["blocks"])
    return {"viol": viol, "crash": crash, "stats": st}


def crash_key(kind, text):
    if "AddressSanitizer" in text:
        m = re.search(r"AddressSanitizer: (\S+).*?\n(?:.*\n)*?\s+#\d+ \S+ in (\w+)", text)
        return "C17 asan %s in %s" % (m.group(1), m.group(2)) if m else "C17 asan"
    if "runtime error" in text:
        m = re.search(r"(\S+:\d+):\d+: runtime error: ([a-z ]+)", text)
        return "C17 ubsan %s at %s" % (m.group(2).strip(), os.path.basename(m.group(1))) \
            if m else "C17 ubsan"
    return "C17 driver " + re.sub(r"rc=-?\d+", lambda m: m.group(0), kind)


def outcome_key(res):
    """The violation key of an execute() result, or None."""
    if res["viol"]:
        return res["viol"][0]
    if res["crash"] and res["crash"][0] == "timeout":
        return "C17 call never returns: %s" % res["crash"][2]
    if res["crash"]:
        return crash_key(*res["crash"][:2])
    return None


def minimise(cfg, lines, key, drv, env, wdir, shim, budget=300):
    """Greedy removal of script lines (chunks, then single lines, last to first) while the
    same violation key is reproduced."""
    tmo = 3 if key.startswith("C17 call never returns") else 30

    def fails(cand):
        r = execute(cfg, cand, drv, env, wdir, tag="min", shim=shim, call_timeout=tmo)
        return outcome_key(r) == key, r

    ok, r = fails(lines)
    if not ok:
        return lines
    cur = list(lines)
    if r["viol"]:
        cur = cur[:r["viol"][2] + 1]
    elif r["crash"]:
        cur = cur[:r["stats"]["executed"] + 1]
    runs = 0
    chunk = max(1, len(cur) // 4)
    while True:
        changed = False
        i = len(cur) - chunk
        while i >= 0:
            if runs >= budget:
                return cur
            cand = cur[:i] + cur[i + chunk:]
            runs += 1
            if cand and fails(cand)[0]:
                cur = cand
                changed = True
                i -= chunk
            else:
                i -= 1 if chunk <= 3 else chunk
        if chunk > 3:
            chunk = max(3, chunk // 2)
        elif chunk > 1:
            chunk -= 1
        elif changed:
            chunk = 3           # single lines went away: pairs (cl+open, op+chk) may now
        else:
            return cur


def _run_history(arg):
    variant, drv, env, shim, seed, idx, given = arg
    if given:
        cfg, lines = given
    else:
        cfg, lines = gen_history(run.rng_for(seed, "C17", "A", idx))
    with run.Work("C17a") as w:
        res = execute(cfg, lines, drv, env, w.dir, shim=shim)
        res["retried"] = False
        if res["crash"] and res["crash"][0] == "timeout":
            # a watchdog expiry is inconclusive until it repeats
            res = execute(cfg, lines, drv, env, w.dir, shim=shim)
            res["retried"] = True
        key = outcome_key(res)
    res.update({"idx": idx, "cfg": cfg, "variant": variant, "key": key, "given": bool(given),
                "lines": lines if (key or idx < 3 or res["crash"]) else None,
                "nlines": len(lines)})
    return res


# ---------------------------------------------------------------------------------------
# (A-fault) injected write failures
# ---------------------------------------------------------------------------------------

BENIGN = {"zo": ("UNIMPL",), "di": ("UNIMPL",), "ra": ("NOTSUPP",), "wb": ("UNIMPL",)}


def fault_script(cfg, lines, wdir, tag):
    img = os.path.join(wdir, tag + ".img")
    undo = os.path.join(wdir, tag + ".undo")
    for f in os.listdir(wdir):
        if f.startswith(tag + ".undo"):
            os.unlink(os.path.join(wdir, f))
    with open(img, "wb") as f:
        f.write(initial_content(cfg))
    body = [l.replace("@IMG", img).replace("@UNDO", undo) for l in lines if l != "chk"]
    return img, body


def run_fault(cfg, lines, drv, env, wdir, shim, k, mode, tag="f"):
    """Run the script with the k-th write to the backing file failing.  Returns
    (verdict, detail): verdict in 'count' (k == 0: detail = number of writes),
    'reported', 'unreported' (detail = (op in flight, line)), 'nofault', 'timeout', 'crash'."""
    img, body = fault_script(cfg, lines, wdir, tag)
    env = dict(env)
    if cfg["bounce_env"]:
        env["UNIX_IO_FORCE_BOUNCE"] = "1"
    env.update({"LD_PRELOAD": shim, "FAILWRITE_PATH": img, "FAILWRITE_K": str(k),
                "FAILWRITE_MODE": mode})
    if k == 0:
        env["FAILWRITE_TRACE"] = "1"
    r = run.run([drv], env=env, stdin=("\n".join(body) + "\nquit\n").encode(), timeout=30,
                cap=16 << 20)
    out = r.text.split("\n")
    if r.timed_out:
        nres = sum(1 for l in out if l.startswith("r "))
        injected = any(l.startswith("!FAULT") for l in out)
        return "timeout", (injected, op_class(body[min(nres, len(body) - 1)]),
                           body[min(nres, len(body) - 1)][:60])
    if k == 0:
        return "count", sum(1 for l in out if l.startswith("!W "))
    results = []
    fault_at = None
    for l in out:
        if l.startswith("!FAULT"):
            if fault_at is None:
                fault_at = len(results)
        elif l.startswith("r "):
            results.append(l.split())
    died = "rc=%s sig=%s %s" % (r.rc, r.sig, r.etext[-600:]) if (r.rc != 0 or r.sig) else None
    if fault_at is None:
        return ("crash", died) if died else ("nofault", None)
    for j in range(fault_at, len(results)):
        rp = results[j]
        if len(rp) >= 3 and rp[2] != "0" and rp[2] not in BENIGN.get(rp[1], ()):
            # what a caller does with the channel after the error is not judged here
            return "reported", (op_class(body[fault_at]), op_class(body[j]), j - fault_at)
    if died:
        return "crash", "died before reporting the failure injected during %r: %s" % (
            body[min(fault_at, len(body) - 1)][:50], died)
    return "unreported", (op_class(body[fault_at]), body[fault_at][:60], fault_at)


def _run_fault_history(arg):
    drv, env, shim, seed, idx, given = arg
    out = {"idx": idx, "runs": 0, "reported": 0, "viol": [], "inconclusive": [], "where": {},
           "inflight": {}, "nwrites": 0, "crash": [], "hang": []}
    if given:
        cfg, lines, ks = given["cfg"], given["lines"], [(given["k"], given["mode"])]
    else:
        cfg, lines = gen_history(run.rng_for(seed, "C17", "fault", idx), nops=45)
        ks = None
    out["cfg"] = cfg
    with run.Work("C17f") as w:
        v, n = run_fault(cfg, lines, drv, env, w.dir, shim, 0, "eio")
        if v != "count":
            out["inconclusive"].append("fault-free counting run: %s" % v)
            return out
        out["nwrites"] = n
        if ks is None:
            ks = []
            for k in range(1, n + 1):
                ks.append((k, "eio"))
                ks.append((k, ("enospc", "short")[k % 2]))
        for k, mode in ks:
            v, d = run_fault(cfg, lines, drv, env, w.dir, shim, k, mode)
            if v == "timeout":          # inconclusive until it repeats
                v, d = run_fault(cfg, lines, drv, env, w.dir, shim, k, mode)
                if v == "timeout" and d[0]:
                    out["hang"].append({"k": k, "mode": mode, "op": d[1], "line": d[2],
                                        "lines": lines})
                    out["runs"] += 1
                    continue
            out["runs"] += 1
            if v == "reported":
                out["reported"] += 1
                out["inflight"][d[0]] = out["inflight"].get(d[0], 0) + 1
                wk = "same call" if d[2] == 0 else "later " + d[1]
                out["where"][wk] = out["where"].get(wk, 0) + 1
            elif v == "unreported":
                out["viol"].append({"k": k, "mode": mode, "op": d[0], "line": d[1],
                                    "lines": lines})
            elif v == "crash":
                out["crash"].append({"k": k, "mode": mode, "what": d, "lines": lines})
            else:
                out["inconclusive"].append("k=%d %s: %s" % (k, mode, v))
    return out


# ---------------------------------------------------------------------------------------
# (B) threaded bitmap loading
# ---------------------------------------------------------------------------------------

def gen_geometry(rng):
    bs = rng.choice([1024, 1024, 1024, 2048, 4096])
    bigalloc = rng.random() < 0.15
    groups = rng.choice([4, 5, 7, 8, 9, 15, 16, 17, 31, 32, 33, 63, 64, 65, 100, 127, 128,
                         129, 130, rng.randint(4, 130), rng.randint(4, 130)])
    gsize = rng.choice([256, 256, 512, 1024, 264])          # -g: blocks (clusters) per group
    cratio = rng.choice([2, 4, 16]) if bigalloc else 1
    blocks = groups * gsize * cratio
    if rng.random() < 0.4:
        blocks -= rng.randrange(0, gsize * cratio // 2)     # a shorter last group
    flex = rng.choice([None, 1, 2, 4, 16, 16, 4])
    csum = rng.choice(["metadata_csum", "metadata_csum", "uninit_bg", "none"])
    if bigalloc and csum == "none":
        csum = "metadata_csum"
    ipg = rng.choice([16, 32, 64, 128])
    return {"bs": bs, "bigalloc": bigalloc, "cratio": cratio, "groups": groups, "gsize": gsize,
            "blocks": blocks, "flex": flex, "csum": csum, "ipg": ipg,
            "journal": blocks * bs >= (8 << 20) and rng.random() < 0.3,
            "nfiles": rng.randint(2, 9), "fill_seed": rng.getrandbits(32)}


def geometry_class(g):
    return "bs=%d groups=%d g=%d flex=%s csum=%s%s" % (
        g["bs"], g["groups"], g["gsize"], g["flex"], g["csum"],
        " bigalloc/%d" % g["cratio"] if g["bigalloc"] else "")


def make_image(plain, env, geo, img, wdir):
    feats = []
    if geo["flex"] is None:
        feats.append("^flex_bg")
    if geo["csum"] == "metadata_csum":
        feats.append("metadata_csum")
    elif geo["csum"] == "uninit_bg":
        feats += ["^metadata_csum", "uninit_bg"]
    else:
        feats += ["^metadata_csum", "^uninit_bg"]
    if geo["bigalloc"]:
        feats.append("bigalloc")
    if not geo["journal"]:
        feats.append("^has_journal")
    feats.append("^resize_inode")
    argv = [plain.tool("mke2fs"), "-q", "-F", "-t", "ext4", "-b", str(geo["bs"]),
            "-g", str(geo["gsize"]), "-N", str(geo["groups"] * geo["ipg"]),
            "-O", ",".join(feats), "-E", "hash_seed=01234567-89ab-cdef-0123-456789abcdef",
            "-U", "11111111-2222-3333-4444-555555555555"]
    if geo["flex"] is not None:
        argv += ["-G", str(geo["flex"])]
    if geo["bigalloc"]:
        argv += ["-C", str(geo["bs"] * geo["cratio"])]
    argv += [img, str(geo["blocks"])]
    if os.path.exists(img):
        os.unlink(img)
    r = run.run(argv, env=env, timeout=120)
    if r.rc != 0 or not os.path.exists(img):
        return "mke2fs rc=%s: %s" % (r.rc, r.etext[-200:])
    # a few files and directories so that the bitmaps of several groups are non-trivial
    rng = random.Random(geo["fill_seed"])
    cmds = []
    total = geo["blocks"] * geo["bs"]
    for j in range(geo["nfiles"]):
        host = os.path.join(wdir, "fill%d" % j)
        with open(host, "wb") as f:
            f.write(rng.randbytes(rng.randint(1, max(2, min(300000, total // 12)))))
        cmds.append("mkdir d%d" % j)
        cmds.append("write %s d%d/f%d" % (host, j, j))
        if j % 3 == 2:
            cmds.append("rm d%d/f%d" % (j - 1, j - 1))
    cf = os.path.join(wdir, "fill.cmd")
    with open(cf, "w") as f:
        f.write("\n".join(cmds) + "\n")
    r = run.run([plain.tool("debugfs"), "-w", "-f", cf, img], env=env, timeout=120)
    if r.rc != 0:
        return "debugfs rc=%s: %s" % (r.rc, r.etext[-200:])
    return None


def read_layout(img):
    """Superblock and group descriptors, parsed here (no libext2fs)."""
    with open(img, "rb") as f:
        f.seek(1024)
        sb = f.read(1024)
        u32 = lambda o: struct.unpack_from("<I", sb, o)[0]
        u16 = lambda o: struct.unpack_from("<H", sb, o)[0]
        if u16(56) != 0xEF53:
            return None
        incompat, rocompat = u32(96), u32(100)
        is64 = bool(incompat & 0x80)
        blocks = u32(4) | ((u32(0x150) << 32) if is64 else 0)
        first = u32(20)
        bs = 1024 << u32(24)
        bpg, cpg, ipg = u32(32), u32(36), u32(40)
        dsize = u16(254) if is64 else 32
        if dsize < 32:
            dsize = 32
        groups = (blocks - first + bpg - 1) // bpg
        f.seek((first + 1) * bs)
        gdt = f.read(groups * dsize)
    out = []
    for g in range(groups):
        d = gdt[g * dsize:(g + 1) * dsize]
        bb, ib = struct.unpack_from("<II", d, 0)
        flags = struct.unpack_from("<H", d, 0x12)[0]
        if dsize >= 64:
            hb, hi = struct.unpack_from("<II", d, 0x20)
            bb |= hb << 32
            ib |= hi << 32
        out.append({"bb": bb, "ib": ib, "flags": flags})
    return {"bs": bs, "groups": groups, "cpg": cpg, "ipg": ipg, "blocks": blocks,
            "gd_csum": bool(rocompat & 0x410), "metadata_csum": bool(rocompat & 0x400),
            "gd": out}


def damage(img, layout, kind, rng):
    """kind 'csum': flip a byte inside the checksummed part of one block bitmap;
    'tail': clear a padding byte behind the checksummed part of a block or inode bitmap.
    Returns a description or None if the geometry has no place for it."""
    bs = layout["bs"]
    cand = [g for g, d in enumerate(layout["gd"])
            if not (layout["gd_csum"] and d["flags"] & 0x2) and 0 < d["bb"] < layout["blocks"]]
    if kind == "tail" and rng.random() < 0.4:
        cand = [g for g, d in enumerate(layout["gd"])
                if not (layout["gd_csum"] and d["flags"] & 0x1) and 0 < d["ib"] < layout["blocks"]]
        which, nbytes = "ib", layout["ipg"] // 8
    else:
        which, nbytes = "bb", layout["cpg"] // 8
    if not cand:
        return None
    g = rng.choice(cand)
    blk = layout["gd"][g][which]
    if kind == "csum":
        pos = blk * bs + rng.randrange(nbytes)
    else:
        if nbytes >= bs:
            return None
        pos = blk * bs + rng.randrange(nbytes, bs)
    with open(img, "r+b") as f:
        f.seek(pos)
        b = f.read(1)[0]
        f.seek(pos)
        f.write(bytes([b ^ 0x10]) if kind == "csum" else b"\x00")
    return {"kind": kind, "group": g, "bitmap": which, "byte": pos - blk * bs}


def tsan_keys(text):
    keys = []
    for m in re.finditer(r"WARNING: ThreadSanitizer: ([^\n(]+)", text):
        seg = text[m.end():m.end() + 6000]
        seg = seg.split("WARNING: ThreadSanitizer")[0]
        funcs = [f for f in re.findall(r"#\d+ (\w+) ", seg)
                 if not f.startswith("__") and f not in ("memcpy", "memset", "memcmp", "memmove",
                                                         "malloc", "calloc", "free", "main")]
        uniq = []
        for f in funcs:
            if f not in uniq:
                uniq.append(f)
        keys.append(("C17 tsan %s in %s" % (m.group(1).strip(), "/".join(sorted(uniq[:3]))),
                     text[m.start():m.start() + 1800]))
    return keys[:2]         # one broken lock produces dozens of reports; two are enough


def parse_round(line):
    d = {}
    for tok in line.split()[1:]:
        if "=" in tok:
            k, v = tok.split("=", 1)
            d[k] = v
    return d


def judge_rwbmap(text, layout_groups):
    """-> (violations [(key, what)], facts)."""
    viol = []
    facts = {"threads_started": 0, "ilv": set(), "switches": 0, "rounds": 0, "counts": [],
             "active_max": 0}
    lines = text.split("\n")
    if not lines or not lines[0].startswith("open 0"):
        return [("C17 rwbmap: image does not open", lines[0][:200] if lines else "")], facts
    hdr = parse_round(lines[0])
    groups = int(hdr["groups"])
    facts["groups"] = groups
    facts["flex"] = int(hdr["flex"])
    if layout_groups is not None and layout_groups != groups:
        facts["group_mismatch"] = (layout_groups, groups)
    rounds = [parse_round(l) for l in lines if l.startswith("round ")]
    if "done" not in lines:
        viol.append(("C17 rwbmap driver died", "output ends with %r" % lines[-2:]))
    if not rounds:
        return viol, facts
    ref = rounds[0]
    for r in rounds:
        n = int(r["n"])
        nth = int(r["threads"])
        facts["rounds"] += 1
        facts["counts"].append(n)
        facts["threads_started"] = max(facts["threads_started"], nth)
        facts["active_max"] = max(facts["active_max"], int(r["active"]))
        if nth >= 2:
            facts["ilv"].add(r["ilv"])
            facts["switches"] += int(r["switches"])
        if r["ret"] != ref["ret"]:
            viol.append(("C17 rw_bitmaps result with threads differs from single-threaded: "
                         "return value", "n=%d returned %s, n=%s returned %s" %
                         (n, r["ret"], ref["n"], ref["ret"])))
            continue
        if r["ret"] == "0":
            for name, lst, dig in (("block", "bg", "bdig"), ("inode", "ig", "idig")):
                if r.get(dig) != ref.get(dig):
                    a, b = r.get(lst, "").split(","), ref.get(lst, "").split(",")
                    bad = [g for g in range(min(len(a), len(b))) if a[g] != b[g]]
                    viol.append(("C17 rw_bitmaps result with threads differs from "
                                 "single-threaded: %s bitmap" % name,
                                 "n=%d (threads %s, ranges %s): groups %s differ" %
                                 (n, r["threads"], r.get("ranges"), bad[:12])))
            if r["tail"] != ref["tail"]:
                viol.append(("C17 rw_bitmaps result with threads differs from single-threaded: "
                             "tail-problem flags", "n=%d gives %s, single-threaded %s" %
                             (n, r["tail"], ref["tail"])))
        elif r.get("maps") != ref.get("maps"):
            viol.append(("C17 rw_bitmaps result with threads differs from single-threaded: "
                         "bitmaps left allocated after an error", "n=%d maps=%s vs %s" %
                         (n, r.get("maps"), ref.get("maps"))))
        if nth:
            rg = sorted(tuple(int(x) for x in t.split("-")) for t in r["ranges"].split(","))
            problem = None
            if rg[0][0] != 0:
                problem = "first range starts at %d" % rg[0][0]
            elif rg[-1][1] != groups - 1:
                problem = "last range ends at %d, last group is %d" % (rg[-1][1], groups - 1)
            else:
                for x, y in zip(rg, rg[1:]):
                    if y[0] > x[1] + 1:
                        problem = "gap: groups %d..%d loaded by no thread" % (x[1] + 1, y[0] - 1)
                    elif y[0] < x[1] + 1:
                        problem = "overlap: group %d loaded by two threads" % y[0]
                    if problem:
                        break
            if problem:
                kind = problem.split(":")[0] if ":" in problem else "ends"
                viol.append(("C17 rw_bitmaps thread ranges do not partition the groups: %s" % kind,
                             "n=%d groups=%d ranges=%s: %s" % (n, groups, r["ranges"], problem)))
            if int(r["events"]) != 2 * groups and r["ret"] == "0":
                viol.append(("C17 rw_bitmaps: number of bitmap loads != 2 per group",
                             "n=%d: %s critical sections for %d groups" % (n, r["events"], groups)))
    return viol, facts


TSAN_TOOLS = [("dumpe2fs", ["dumpe2fs"]), ("e2fsck", ["e2fsck", "-fn"]),
              ("e2freefrag", ["e2freefrag"]), ("debugfs-ffb", ["debugfs", "-R", "ffb 1"]),
              ("debugfs-stats", ["debugfs", "-R", "stats"]), ("e2image", ["e2image"])]


def _run_huge(arg):
    """More than 2^32 clusters (sparse file): positions inside the shared bitmaps no longer fit
    32 bits.  Plain build, digests only; 1 thread vs several."""
    plain_root, seed, idx = arg
    plain = build.Build(plain_root, "plain")
    env = run.base_env(plain)
    drv = plain.driver("drv_rwbmap")
    rng = run.rng_for(seed, "C17", "huge", idx)
    bs, gsize = rng.choice([(2048, 16384), (1024, 8192), (4096, 32768)])
    hi0 = (1 << 32) // gsize
    # enough groups behind cluster 2^32 that, with 2..16 threads, some thread starts there
    groups = hi0 + hi0 // rng.choice([1, 2, 4])
    geo = {"bs": bs, "gsize": gsize, "groups": groups, "huge": True}
    out = {"idx": idx, "geo": geo, "cases": [], "skip": None, "huge": True}
    with run.Work("C17h") as w:
        img = w.path("huge.img")
        argv = [plain.tool("mke2fs"), "-q", "-F", "-t", "ext4", "-b", str(bs), "-g", str(gsize),
                "-N", str(groups * 16), "-O", "^has_journal,^resize_inode,metadata_csum,64bit",
                "-E", "lazy_itable_init=1,hash_seed=01234567-89ab-cdef-0123-456789abcdef",
                "-U", "11111111-2222-3333-4444-555555555555", img, str(groups * gsize)]
        r = run.run(argv, env=env, timeout=900)
        if r.rc != 0:
            out["skip"] = "mke2fs (huge) rc=%s: %s" % (r.rc, r.etext[-200:])
            return out
        # allocate runs of blocks in a few groups beyond cluster 2^32 and one below
        hi0 = (1 << 32) // gsize
        cmds = []
        for g in sorted(set([7, hi0 + 1, hi0 + (groups - hi0) // 2, groups - 3])):
            cmds.append("setb %d %d" % (g * gsize + gsize // 2 + rng.randrange(100), rng.choice([1, 64, 500])))
        r = run.run([plain.tool("debugfs"), "-w", "-f", "-", img], env=env, timeout=900,
                    stdin=("\n".join(cmds) + "\n").encode())
        if r.rc != 0:
            out["skip"] = "debugfs setb (huge) rc=%s: %s" % (r.rc, r.etext[-200:])
            return out
        e2 = dict(env, RWBMAP_TERSE="1")
        counts = [1, 2, 3, 5, 16]
        r = run.run([drv, img, "0", "0"] + [str(c) for c in counts], env=e2, timeout=1200, cap=4 << 20)
        case = {"what": "drv_rwbmap", "variant": "huge", "damage": None, "delay": 0, "viol": [],
                "timeout": r.timed_out, "facts": None}
        if not r.timed_out:
            v, facts = judge_rwbmap(r.text, None)
            facts["ilv"] = sorted(facts["ilv"])
            case["facts"] = facts
            case["viol"] = v
            if r.rc != 0 or r.sig:
                case["viol"].append(("C17 rwbmap driver died", "rc=%s sig=%s %s" % (r.rc, r.sig, r.etext[-600:])))
        out["cases"].append(case)
        out["layout"] = {"groups": groups, "bs": bs, "cpg": gsize, "ipg": 16, "uninit_groups": -1}
    return out


def _run_geometry(arg):
    plain_root, tsan_root, seed, idx, given, delays = arg
    plain = build.Build(plain_root, "plain")
    tsan = build.Build(tsan_root, "tsan")
    env_p = run.base_env(plain)
    env_t = run.base_env(tsan)
    drv = tsan.driver("drv_rwbmap")
    rng = run.rng_for(seed, "C17", "B", idx)
    geo = given["geo"] if given else gen_geometry(rng)
    out = {"idx": idx, "geo": geo, "cases": [], "skip": None}
    with run.Work("C17b") as w:
        img = w.path("fs.img")
        err = make_image(plain, env_p, geo, img, w.dir)
        if err:
            out["skip"] = err
            return out
        lay = read_layout(img)
        if lay is None:
            out["skip"] = "no superblock"
            return out
        variants = [("clean", None)]
        if given:
            variants = [(given["variant"], given.get("damage"))]
        else:
            if rng.random() < 0.5:
                variants.append(("tail", None))
            if lay["metadata_csum"] and rng.random() < 0.6:
                variants.append(("csum", None))
        groups = lay["groups"]
        counts = [1, 2, 3, 4, 7, 16, groups, groups + 5, -1]
        for vname, _ in variants:
            vimg = img
            dmg = None
            if vname != "clean":
                vimg = w.path("fs-%s.img" % vname)
                run.copy_sparse(img, vimg)
                dmg = damage(vimg, lay, vname, run.rng_for(seed, "C17", "B", idx, vname))
                if dmg is None:
                    continue
            dl = delays if vname == "clean" else delays[:1]
            if given:
                dl = [given["delay"]]
            for dseed in dl:
                argv = [drv, vimg, str(dseed), "200"] + [str(c) for c in counts]
                r = run.run(argv, env=env_t, timeout=300, cap=4 << 20)
                if r.timed_out:
                    r = run.run(argv, env=env_t, timeout=300, cap=4 << 20)
                case = {"what": "drv_rwbmap", "variant": vname, "damage": dmg, "delay": dseed,
                        "viol": [], "timeout": r.timed_out, "facts": None}
                if not r.timed_out:
                    v, facts = judge_rwbmap(r.text, groups)
                    facts["ilv"] = sorted(facts["ilv"])
                    case["facts"] = facts
                    case["viol"] = v
                    ts = tsan_keys(r.etext)
                    if r.rc == 66 and not ts:
                        ts = [("C17 tsan exit status 66", r.etext[-800:])]
                    case["viol"] += ts
                    if r.rc not in (0, 66) or r.sig:
                        case["viol"].append(("C17 rwbmap driver died",
                                             "rc=%s sig=%s %s" % (r.rc, r.sig, r.etext[-600:])))
                    ref = [l for l in r.text.split("\n") if l.startswith("round ")][:1]
                    case["ref"] = parse_round(ref[0]).get("ret") if ref else None
                out["cases"].append(case)
            for tname, targv in TSAN_TOOLS:
                argv = [tsan.tool(targv[0])] + targv[1:] + [vimg]
                if tname == "e2image":
                    argv.append(w.path("out.e2i"))
                r = run.run(argv, env=env_t, timeout=300, cap=2 << 20)
                if r.timed_out:
                    r = run.run(argv, env=env_t, timeout=300, cap=2 << 20)
                case = {"what": tname, "variant": vname, "damage": dmg, "delay": None,
                        "viol": [], "timeout": r.timed_out, "facts": None, "rc": r.rc}
                if not r.timed_out:
                    ts = tsan_keys(r.etext + r.text)
                    if r.rc == 66 and not ts:
                        ts = [("C17 tsan exit status 66 (%s)" % tname, r.etext[-800:])]
                    case["viol"] = [(k + " [%s]" % targv[0], t) for k, t in ts]
                    if r.sig:
                        case["viol"].append(("C17 %s killed by signal %d under tsan" %
                                             (tname, r.sig), r.etext[-600:]))
                out["cases"].append(case)
        out["layout"] = {"groups": groups, "bs": lay["bs"], "cpg": lay["cpg"], "ipg": lay["ipg"],
                         "uninit_groups": sum(1 for d in lay["gd"] if d["flags"] & 0x2)}
    return out


# ---------------------------------------------------------------------------------------

def build_shim(wdir):
    out = os.path.join(wdir, "failwrite.so")
    src = os.path.join(VERIF, "shim", "failwrite.c")
    r = subprocess.run(["gcc", "-O1", "-g", "-shared", "-fPIC", "-o", out, src, "-ldl"],
                       stdout=subprocess.PIPE, stderr=subprocess.STDOUT)
    if r.returncode != 0:
        raise build.BuildError("shim/failwrite.c does not compile: %s" %
                               r.stdout.decode("utf-8", "replace")[-500:])
    return out


# ----------------------------------------------------------------------------------------------
# (C) one cached channel shared by several threads: offline register check of the history

def check_register_history(path, nblocks):
    """Offline checker over the drv_iomt log.  Per block a multi-writer register with unique
    written values.  Reports only what no linearization can explain (timestamps are taken
    outside the calls, so every real-time precedence used here is a real one):
      phantom   a read returns a value nobody wrote to that block
      future    a read returns a write that was invoked after the read had returned
      stale     a read (or the final state) returns write w although another write w2 to the
                same block was invoked after w had returned and had itself returned before
                the read was invoked (for the final state: before all threads were joined)
      split     after quiescence the channel and the flushed device disagree
      torn      a block whose words come from different writes, in the final state or in a read
                that overlaps no write to that block
    Returns (violations, facts)."""
    import bisect
    W = [dict() for _ in range(nblocks)]      # id -> (t0, t1)
    R = [[] for _ in range(nblocks)]
    F = {}
    facts = {"reads": 0, "writes": 0, "errors": 0, "torn": 0, "overlapping_rw_pairs": 0,
             "reads_that_observed_a_concurrent_write": 0, "reads_that_missed_cache_window": 0}
    for ln in open(path):
        p = ln.split()
        if not p:
            continue
        if p[0] == "F":
            F[int(p[1])] = (int(p[2], 16), int(p[3], 16))
        elif p[0] == "T":
            facts["torn"] = int(p[1])
        elif p[0] == "E":
            facts["errors"] += 1
        else:
            op, blk, vid, t0, t1, err = p[1], int(p[2]), int(p[3], 16), int(p[4]), int(p[5]), int(p[6])
            if err:
                facts["errors"] += 1
                continue
            if op == "W":
                W[blk][vid] = (t0, t1)
                facts["writes"] += 1
            else:
                R[blk].append((vid, t0, t1, op == "r"))
                facts["reads"] += 1
    viol = []
    for blk in range(nblocks):
        ws = W[blk]
        ws[0] = (-2, -1)                          # the initial zeros
        order = sorted(ws.items(), key=lambda kv: kv[1][0])
        t0s = [kv[1][0] for kv in order]
        sufmin = [0] * (len(order) + 1)
        sufmin[-1] = float("inf")
        for i in range(len(order) - 1, -1, -1):
            sufmin[i] = min(sufmin[i + 1], order[i][1][1])

        def overwritten_by(w_t1):
            """earliest response time of a write invoked after w_t1"""
            return sufmin[bisect.bisect_right(t0s, w_t1)]
        for vid, t0, t1, mixed in R[blk]:
            if mixed:
                # the device read of a miss is not atomic against the write-out of a block that was
                # written while the read was in flight; only a mixed block with no write to that
                # block overlapping the read has no excuse
                if any(a < t1 and b > t0 for a, b in ws.values()):
                    facts["mixed_reads_overlapping_a_write"] = facts.get("mixed_reads_overlapping_a_write", 0) + 1
                else:
                    viol.append(("C17 shared channel: torn block", "block %d: a read that overlaps no write "
                                 "returned a block whose words differ" % blk))
                continue
            if vid not in ws:
                viol.append(("C17 shared channel: phantom read", "block %d: a read returned id %x that was never "
                             "written to this block" % (blk, vid)))
                continue
            w0, w1 = ws[vid]
            if w0 > t1:
                viol.append(("C17 shared channel: read from the future", "block %d id %x" % (blk, vid)))
            if w1 > t0:
                facts["reads_that_observed_a_concurrent_write"] += 1
            ob = overwritten_by(w1)
            if ob < t0:
                viol.append(("C17 shared channel: stale read (completed write lost)",
                             "block %d: a read invoked at %d returned write %x (returned at %d) although a later "
                             "write to the block had been invoked after that and returned at %d, before the read"
                             % (blk, t0, vid, w1, ob)))
        if blk in F:
            via, dev = F[blk]
            if via != dev:
                viol.append(("C17 shared channel: cache and device disagree after flush",
                             "block %d: channel returns %x, backing file holds %x" % (blk, via, dev)))
            if via not in ws:
                viol.append(("C17 shared channel: phantom final value", "block %d: %x" % (blk, via)))
            elif overwritten_by(ws[via][1]) != float("inf"):
                viol.append(("C17 shared channel: stale final state (completed write lost)",
                             "block %d: after all threads were joined the channel holds write %x although a write "
                             "invoked after it had returned completed too" % (blk, via)))
    if facts["torn"]:
        viol.append(("C17 shared channel: torn block", "%d blocks whose 8-byte words differ" % facts["torn"]))
    if facts["errors"]:
        viol.append(("C17 shared channel: I/O error", "%d calls failed" % facts["errors"]))
    return viol, facts


def _run_shared(arg):
    root, variant, seed, idx = arg
    b = build.Build(root, variant)
    env = run.base_env(b)
    if variant == "tsan":
        env["TSAN_OPTIONS"] = "halt_on_error=0:exitcode=66:second_deadlock_stack=1"
    drv = b.driver("drv_iomt")
    rng = run.rng_for(seed, "C17-shared", idx)
    bs = rng.choice([1024, 1024, 4096])
    nblocks = rng.choice([6, 12, 24, 40])         # around the 8-entry cache: hits, evictions, misses
    threads = rng.choice([2, 3, 4, 8])
    nops = rng.choice([3000, 8000]) if variant != "tsan" else 1500
    delay = rng.choice([0, 5, 30, 200])
    out = {"idx": idx, "variant": variant, "cfg": dict(bs=bs, nblocks=nblocks, threads=threads, nops=nops, delay=delay),
           "viol": [], "facts": None, "timeout": False}
    with run.Work("C17mt") as w:
        dev = os.path.join(w.dir, "dev.img")
        with open(dev, "wb") as f:
            f.truncate(nblocks * bs + (128 << 10))
        log = os.path.join(w.dir, "hist.log")
        r = run.run([drv, dev, str(bs), str(nblocks), str(threads), str(nops), str(rng.randrange(1 << 30)),
                     str(delay), log], env=env, timeout=600)
        if r.timed_out:
            out["timeout"] = True
            return out
        if variant == "tsan" and "WARNING: ThreadSanitizer" in r.etext:
            m = re.search(r"WARNING: ThreadSanitizer: ([^\n(]*)", r.etext)
            fn = re.findall(r"#\d+ (\w+) ", r.etext)
            out["viol"].append(("C17 shared channel: TSan %s in %s" % (m.group(1).strip() if m else "report",
                                                                         next((x for x in fn if x.startswith(("unix_", "raw_", "reuse_", "find_", "flush_"))), "?")),
                                r.etext[:1500]))
        if r.rc not in (0, 66) or r.sig or not os.path.exists(log):
            out["viol"].append(("C17 shared channel: driver died", "rc=%s sig=%s %s" % (r.rc, r.sig, r.etext[-500:])))
            return out
        v, facts = check_register_history(log, nblocks)
        out["facts"] = facts
        seen = set()
        for k, wh in v:
            if k not in seen:
                seen.add(k)
                out["viol"].append((k, wh + " | %d such reports in this history" % sum(1 for a, _ in v if a == k)))
    return out


def main(tier, seed, replay=None, scale=1.0):
    rep = report.Report(
        "C17", tier, seed, "exploration",
        rule="(A) seeded random histories of ~%d io_channel calls per channel configuration, "
             "judged against a byte-array model of the backing file; non-trivial = history in "
             "which >=1 dirty cache entry was seen written back by an eviction (block found in "
             "the file before any flush) and >=1 direct/byte/zeroout/discard write overlapped one "
             "of the 8 most recently cache-accessed blocks, or a history on a cache-less / "
             "write-through / undo channel that completed >=40 calls with >=1 such overlap; "
             "distinct by (configuration, op histogram).  (A-fault, level fault_enumeration) "
             "every device write of a history failed in turn.  (B) one case per drv_rwbmap run "
             "or TSan tool run; non-trivial = run in which >=2 loader threads started; distinct "
             "by (geometry, variant, delay seed)" % OPS_PER_HISTORY)
    plain = build.get_build("plain")
    asan = build.get_build("asan")
    tsan = build.get_build("tsan")
    drv_p = plain.driver("drv_io")
    drv_a = asan.driver("drv_io")
    tsan.driver("drv_rwbmap")
    tsan.driver("drv_iomt")
    plain.driver("drv_iomt")
    env_p = run.base_env(plain)
    env_a = run.base_env(asan)
    with run.Work("C17shim") as sw:
        shim = build_shim(sw.dir)
        return _main(rep, tier, seed, replay, scale, plain, tsan, drv_p, drv_a, env_p, env_a,
                     shim)


def _main(rep, tier, seed, replay, scale, plain, tsan, drv_p, drv_a, env_p, env_a, shim):
    items_a, items_f, items_b = [], [], []
    delays = [seed * 1000 + 1, seed * 1000 + 2, seed * 1000 + 3]
    if replay:
        case = json.load(open(os.path.join(replay, "case.json")))["case"]
        if case["part"] == "A":
            asan_v = case["variant"] == "asan"
            items_a = [(case["variant"], drv_a if asan_v else drv_p, env_a if asan_v else env_p,
                        None if asan_v else shim, seed, case["idx"],
                        (case["cfg"], case["lines"]))]
        elif case["part"] == "fault":
            items_f = [(drv_p, env_p, shim, seed, case["idx"], case)]
        elif case["part"] in ("Bh", "C"):
            pass            # handled in their own sections below
        else:
            items_b = [(plain.root, tsan.root, case["seed"], case["idx"], case, delays)]
    else:
        na = max(8, int(BUDGET_A[tier] * scale))
        nf = max(2, int(BUDGET_FAULT[tier] * scale))
        nb = max(4, int(BUDGET_B[tier] * scale))
        for i in range(na):
            if i % 2:
                items_a.append(("asan", drv_a, env_a, None, seed, i, None))
            else:
                items_a.append(("plain", drv_p, env_p, shim, seed, i, None))
        items_f = [(drv_p, env_p, shim, seed, i, None) for i in range(nf)]
        items_b = [(plain.root, tsan.root, seed, i, None, delays) for i in range(nb)]

    # ---- (A) ----
    seen_keys = set()
    for it, r in zip(items_a, run.pmap(_run_history, items_a, chunksize=2)):
        st = r["stats"]
        cfgc = config_class(r["cfg"])
        overlap = st["overlap_writes"] >= 1
        nontriv = None
        cached = r["cfg"]["cache"] == "on" and not r["cfg"]["wt"] and r["cfg"]["kind"] != "undo"
        if (cached and st["dirty_evictions"] >= 1 and overlap) or \
           (not cached and overlap and st["executed"] >= 40):
            nontriv = json.dumps(["A", cfgc, sorted(st["ops"].items())])
        rep.case(nontriv)
        rep.count("A_histories_" + r["variant"])
        rep.count("A_calls", sum(st["ops"].values()))
        for k, v in st["ops"].items():
            rep.count("A_op_" + k.replace(" ", "_"), v)
        for k in ("dirty_evictions", "overlap_writes", "direct_writes", "byte_writes",
                  "file_compares", "hook_checks", "reads_checked", "blocks_read", "fsync_seen",
                  "reopens", "wb_unimplemented"):
            rep.count("A_" + k, st[k])
        rep.add("A_channel_configs", cfgc)
        rep.add("A_distinct_blocks_per_history", st["blocks"])
        if r["idx"] < 2 and r["lines"]:
            rep.sample({"part": "A", "config": cfgc, "first_commands":
                        [l[:60] for l in r["lines"][:16]],
                        "dirty_evictions": st["dirty_evictions"]})
        if r["retried"] and not (r["crash"] and r["crash"][0] == "timeout"):
            rep.note_inconclusive("drv_io watchdog expired once on history idx=%d, not on the "
                                  "re-run" % r["idx"])
        if r["key"]:
            if r["key"] in seen_keys:
                rep.count("A_repeat_violations")
                continue
            seen_keys.add(r["key"])
            small, res2 = r["lines"], r
            if not r["given"]:
                with run.Work("C17min") as mw:
                    small = minimise(r["cfg"], r["lines"], r["key"], it[1], it[2], mw.dir, it[3])
                    res2 = execute(r["cfg"], small, it[1], it[2], mw.dir, tag="min", shim=it[3],
                                   call_timeout=10)
                    if outcome_key(res2) != r["key"]:
                        small, res2 = r["lines"], r
            what = res2["viol"][1] if res2["viol"] else res2["crash"][1]
            case = {"part": "A", "idx": r["idx"], "variant": r["variant"], "cfg": r["cfg"],
                    "lines": small}
            if True:
                rep.violation(r["key"], "%s | config: %s | minimised script: %s" %
                              (what, cfgc, " ; ".join(l[:44] for l in small)),
                              replay=case,
                              files={"script.txt": ("\n".join(small) + "\n").encode(),
                                     "script-full.txt": ("\n".join(r["lines"]) + "\n").encode()})

    # ---- (A-fault) ----
    for it, r in zip(items_f, run.pmap(_run_fault_history, items_f)):
        cfgc = config_class(r["cfg"])
        rep.count("F_histories")
        rep.count("F_device_writes_enumerated", r["nwrites"])
        rep.count("F_fault_runs", r["runs"])
        rep.count("F_reported", r["reported"])
        rep.add("F_channel_configs", cfgc)
        for k, v in r["where"].items():
            rep.count("F_reported_by_" + k.replace(" ", "_"), v)
        for k, v in r["inflight"].items():
            rep.count("F_fault_during_" + k.replace(" ", "_"), v)
        rep.case(json.dumps(["F", cfgc, r["nwrites"]]) if r["reported"] >= 2 else None,
                 n=max(1, r["runs"]))
        for msg in r["inconclusive"]:
            rep.note_inconclusive("fault run idx=%d: %s" % (r["idx"], msg))
        for v in r["viol"]:
            key = "C17 injected write failure during %s is never reported" % v["op"]
            case = {"part": "fault", "idx": r["idx"], "cfg": r["cfg"], "lines": v["lines"],
                    "k": v["k"], "mode": v["mode"]}
            if key in seen_keys:
                rep.count("F_repeat_violations")
                continue
            seen_keys.add(key)
            rep.violation(key, "write #%d to the backing file failed (%s, and every later "
                          "write overlapping it) during line %r; no call up to and including "
                          "close returned an error | config: %s" %
                          (v["k"], v["mode"], v["line"], cfgc), replay=case,
                          files={"script.txt": ("\n".join(v["lines"]) + "\n").encode()})
        for v in r["hang"]:
            key = "C17 call never returns after an injected write failure: %s" % v["op"]
            if key in seen_keys:
                continue
            seen_keys.add(key)
            rep.violation(key, "write #%d failed (%s) and line %r never returned (twice)" %
                          (v["k"], v["mode"], v["line"]),
                          replay={"part": "fault", "idx": r["idx"], "cfg": r["cfg"],
                                  "lines": v["lines"], "k": v["k"], "mode": v["mode"]},
                          files={"script.txt": ("\n".join(v["lines"]) + "\n").encode()})
        for v in r["crash"]:
            key = "C17 driver dies after an injected write failure without reporting it"
            if key in seen_keys:
                continue
            seen_keys.add(key)
            rep.violation(key, "k=%d %s: %s" % (v["k"], v["mode"], v["what"]),
                          replay={"part": "fault", "idx": r["idx"], "cfg": r["cfg"],
                                  "lines": v["lines"], "k": v["k"], "mode": v["mode"]})

    # ---- (B) ----
    for it, r in zip(items_b, run.pmap(_run_geometry, items_b)):
        gc = geometry_class(r["geo"])
        if r["skip"]:
            rep.note_inconclusive("geometry idx=%d (%s) not built: %s" % (r["idx"], gc, r["skip"]))
            continue
        rep.add("B_geometries", gc)
        rep.add("B_group_counts", r["layout"]["groups"])
        rep.count("B_images")
        rep.count("B_block_uninit_groups", r["layout"]["uninit_groups"])
        for c in r["cases"]:
            if c["timeout"]:
                rep.note_inconclusive("%s timeout on geometry idx=%d" % (c["what"], r["idx"]))
                continue
            nontriv = None
            f = c["facts"]
            if c["what"] == "drv_rwbmap":
                rep.count("B_rwbmap_runs_" + c["variant"])
                rep.count("B_rounds", f["rounds"])
                rep.count("B_thread_switches_in_critical_section", f["switches"])
                for h in f["ilv"]:
                    rep.add("B_interleavings", h)
                for n in f["counts"]:
                    rep.add("B_thread_counts", n)
                rep.add("B_threads_started_max", f["threads_started"])
                if c["ref"] and c["ref"] != "0":
                    rep.count("B_error_path_runs")
                    rep.add("B_error_classes", c["ref"])
                if f["threads_started"] >= 2:
                    nontriv = json.dumps(["B", gc, c["variant"], c["delay"]])
                if r["idx"] < 2 and c["variant"] == "clean" and c["delay"] == it[5][0]:
                    rep.sample({"part": "B", "geometry": gc, "groups": f.get("groups"),
                                "threads_started_max": f["threads_started"],
                                "interleavings": f["ilv"][:4]})
            else:
                rep.count("B_tsan_tool_runs_" + c["what"])
                nontriv = json.dumps(["Bt", gc, c["variant"], c["what"]])
            rep.case(nontriv)
            for key, what in c["viol"]:
                case = {"part": "B", "idx": r["idx"], "seed": it[2], "geo": r["geo"],
                        "variant": c["variant"], "damage": c["damage"],
                        "delay": c["delay"] if c["delay"] is not None else it[5][0],
                        "tool": c["what"]}
                if key in seen_keys:
                    rep.count("B_repeat_violations")
                    continue
                seen_keys.add(key)
                rep.violation(key, "%s | geometry: %s variant=%s damage=%s" %
                              (what, gc, c["variant"], c["damage"]), replay=case)
    # ---- (B') filesystems with more than 2^32 clusters (sparse), 1 thread vs several ----
    if not replay or case.get("part") == "Bh":
        nh = {"quick": 1, "thorough": 6}[tier] if scale >= 0.5 else 0
        items_h = [(plain.root, seed, i) for i in range(nh)]
        if replay:
            items_h = [(plain.root, case["seed"], case["idx"])]
        for it, r in zip(items_h, run.pmap(_run_huge, items_h)):
            gc = "huge bs=%d groups=%d g=%d" % (r["geo"]["bs"], r["geo"]["groups"], r["geo"]["gsize"])
            if r["skip"]:
                rep.note_inconclusive("huge geometry idx=%d not built: %s" % (r["idx"], r["skip"]))
                continue
            rep.add("B_geometries", gc)
            rep.count("B_huge_images")
            for c in r["cases"]:
                if c["timeout"]:
                    rep.note_inconclusive("huge geometry idx=%d: driver timeout" % r["idx"])
                    continue
                f = c["facts"]
                rep.count("B_rwbmap_runs_huge")
                rep.count("B_rounds", f["rounds"])
                rep.add("B_threads_started_max", f["threads_started"])
                rep.case(json.dumps(["Bh", gc]) if f["threads_started"] >= 2 else None)
                for key, what in c["viol"]:
                    key = key + " [> 2^32 clusters]"
                    if key in seen_keys:
                        continue
                    seen_keys.add(key)
                    rep.violation(key, "%s | geometry: %s" % (what, gc),
                                  replay={"part": "Bh", "idx": r["idx"], "seed": it[1], "geo": r["geo"]})
    # ---- (C) one cached channel shared by threads: register histories ----
    if not replay or (replay and case.get("part") == "C"):
        if replay:
            items_c = [(plain.root if case["variant"] == "plain" else tsan.root, case["variant"], case["seed"], case["idx"])]
        else:
            nc = max(4, int(BUDGET_C[tier] * scale))
            items_c = [((tsan.root, "tsan") if i % 4 == 3 else (plain.root, "plain")) + (seed, i) for i in range(nc)]
        for it, r in zip(items_c, run.pmap(_run_shared, items_c)):
            if r["timeout"]:
                rep.note_inconclusive("shared-channel history idx=%d timed out" % r["idx"])
                rep.case(None)
                continue
            f = r["facts"] or {}
            rep.count("C_histories_" + r["variant"])
            rep.count("C_reads", f.get("reads", 0))
            rep.count("C_writes", f.get("writes", 0))
            rep.count("C_reads_that_observed_a_concurrent_write", f.get("reads_that_observed_a_concurrent_write", 0))
            rep.add("C_configs", json.dumps(r["cfg"], sort_keys=True))
            rep.case(json.dumps(["C", r["cfg"]], sort_keys=True)
                     if f.get("reads_that_observed_a_concurrent_write", 0) >= 1 else None)
            for key, what in r["viol"]:
                if key in seen_keys:
                    rep.count("C_repeat_violations")
                    continue
                seen_keys.add(key)
                rep.violation(key, "%s | %s" % (what, r["cfg"]),
                              replay={"part": "C", "idx": r["idx"], "seed": it[2], "variant": r["variant"]})
    rep.assumptions = [
        "the offset option is set right after open, before any I/O (as ext2fs_open2 does); "
        "cache=off and write-through are channel configurations, not toggled inside a history",
        "zeroout/discard on a regular file leave zeros (CHANNEL_FLAGS_DISCARD_ZEROES); "
        "UNIMPLEMENTED is accepted and leaves the bytes unchanged; write_byte may return "
        "UNIMPLEMENTED under O_DIRECT",
        "all accesses stay inside the pre-sized backing file (128 KiB slack behind the last "
        "block); undo-wrapped channels get a fresh undo file on every open and set_blksize "
        "before the first write",
        "a failed device write = the k-th write()/pwrite() to the backing file and every later "
        "write overlapping the same bytes fail (EIO, ENOSPC or short write)",
        "thread schedules are sampled (seeded 0-200us delays before the critical section x3), "
        "not enumerated; TSan judges the executions seen",
        "fsync-on-flush is observed only on the plain build (LD_PRELOAD shim)"]
    return rep.finish()
