"""C20 - backup superblocks and group descriptors are always usable.

Every case is one filesystem geometry created by the build's mke2fs (block size x blocks per
group x group count x sparse_super / sparse_super2 / none x meta_bg x flex_bg x 64bit) with a
small populated tree, followed by a chain of geometry- or feature-changing tools (resize2fs
grow / shrink across backup-group boundaries, tune2fs, repairing e2fsck after a corruption of
the PRIMARY superblock / descriptors only).  After mke2fs and after every tool:

 (a) static: the independent reader's own placement formula says which groups carry a backup;
     each such location must hold a superblock that agrees with the primary in the geometry /
     feature / UUID fields, with its own group number and a valid checksum, and descriptor
     copies that agree with the primary in the bitmap / inode-table locations; the first block
     of a sample of the other groups must not hold an (allocated) superblock copy.
 (b) restore: for the first, the last and one more backup location: zero the primary
     superblock and every primary descriptor block that the format backs up, run
     `e2fsck -fy -b <loc> -B <bs>`, then `e2fsck -fn` must exit 0, the independent checker must
     be silent and the tree digest must be what it was before the destruction.  With the
     default blocks-per-group also plain `e2fsck -fy`.
"""
import json
import os
import re
import shutil
import struct

from vf import build, run, report, fsckpair
from vf.gen import trees
from vf.pyext4 import image as I, tree as T, crc

BUDGET = {"quick": 40, "thorough": 1500}       # images; each followed by TOOLS_PER_IMAGE tools
TOOLS_PER_IMAGE = 3
MAX_IMAGE_BYTES = 96 << 20
UUID0 = "6b33f586-a183-4383-921d-30ab132db9bf"
UUID1 = "0f1e2d3c-4b5a-4697-8879-6a5b4c3d2e1f"
HASH_SEED = "e1deb3c3-d7b8-4c3a-9c2f-8b1b8f3d2a11"

# group counts around the places where the backup-group set changes (1, 3^k, 5^k, 7^k)
BOUNDARY = [1, 2, 3, 4, 5, 6, 7, 8, 9, 10, 11, 12, 15, 16, 17, 18, 24, 25, 26, 27, 28, 29, 30,
            33, 34, 48, 49, 50, 51, 64, 65, 66, 80, 81, 82, 96, 97, 124, 125, 126, 127, 128, 129, 130]

# superblock fields that describe geometry, features and identity (byte-compared, except
# for the feature words where the bits the library clears/sets on the fly are masked)
CMP_FIELDS = ["s_inodes_count", "s_blocks_count_lo", "s_first_data_block", "s_log_block_size",
              "s_log_cluster_size", "s_blocks_per_group", "s_clusters_per_group",
              "s_inodes_per_group", "s_rev_level", "s_first_ino", "s_inode_size",
              "s_feature_compat", "s_feature_incompat", "s_feature_ro_compat", "s_uuid",
              "s_reserved_gdt_blocks", "s_desc_size", "s_first_meta_bg", "s_log_groups_per_flex",
              "s_backup_bgs", "s_checksum_type"]
MASK = {"s_feature_incompat": ~I.INCOMPAT["needs_recovery"] & 0xFFFFFFFF,
        "s_feature_ro_compat": ~I.RO_COMPAT["orphan_present"] & 0xFFFFFFFF}


# --------------------------------------------------------------------------------------
# workload generation

def small_tree(root, rng, budget_kb, n_inodes=0):
    """A small populated tree: nested directories, files of assorted sizes (one sparse), a
    hard link, short and long symlinks, a directory with a few dozen entries; then empty
    files until about n_inodes inodes are used, so that the inode table of (nearly) every
    group holds live inodes and a restore that misplaces a table loses files."""
    os.makedirs(root)
    dirs = [""]
    for i in range(3):
        d = os.path.join(rng.choice(dirs), "d%d_%s" % (i, trees._name(rng)[:10].replace("/", "_")))
        os.mkdir(os.path.join(root, d))
        dirs.append(d)
    pool = [0, 1, 60, 100, 1000, 1024, 1500, 4097, 9000, 13 * 1024, 30000, 70000]
    left = budget_kb * 1024
    made = []
    for i in range(14):
        sz = rng.choice(pool)
        if sz > left:
            sz = rng.choice([0, 1, 100])
        left -= sz
        p = os.path.join(rng.choice(dirs), "f%02d_%s" % (i, trees._name(rng)[:12]))
        full = os.path.join(root, p)
        if sz >= 9000 and rng.random() < 0.3:
            trees.write_sparse(full, sz, [(sz // 2, sz - sz // 2 - 10, i)])
        else:
            with open(full, "wb") as f:
                f.write(trees.pattern(i + 3, sz))
        os.chmod(full, rng.choice([0o644, 0o600, 0o755, 0o444]))
        made.append(p)
    os.link(os.path.join(root, made[0]), os.path.join(root, dirs[-1], "hardlink"))
    os.symlink("../short", os.path.join(root, dirs[1], "sl_short"))
    os.symlink("L" * 200, os.path.join(root, dirs[2], "sl_long"))
    os.mkdir(os.path.join(root, "many"))
    for i in range(30):
        with open(os.path.join(root, "many", "e%03d_%s" % (i, trees._name(rng, "mix")[:40])), "wb") as f:
            if i % 7 == 0:
                f.write(trees.pattern(i, 40))
    used = sum(len(dn) + len(fn) for _dp, dn, fn in os.walk(root)) - 1     # the hard link shares an inode
    extra = n_inodes - used
    k = 0
    while extra > 0:
        d = os.path.join(root, "fill%02d" % k)
        os.mkdir(d)
        extra -= 1
        for i in range(min(extra, 150)):
            open(os.path.join(d, "z%04d" % i), "wb").close()
        extra -= min(extra, 150)
        k += 1
    for dp, dn, fn in os.walk(root, topdown=False):
        for n in fn + dn:
            try:
                os.utime(os.path.join(dp, n), (trees.MTIME_BASE, trees.MTIME_BASE), follow_symlinks=False)
            except (OSError, NotImplementedError):
                pass
    os.utime(root, (trees.MTIME_BASE, trees.MTIME_BASE))


# corners that a uniform draw reaches too rarely (each is a plain member of the quantified space)
DIRECTED = [
    # second group of a meta group carries a superblock copy while the first does not (49 = 3*16+1 = 7^2)
    dict(bs=1024, bpg=256, groups=(50, 51, 52, 82), sparse="sparse_super", meta_bg=True, b64=True, base="ext4"),
    # the last group is a power-of-5 / power-of-3 / power-of-7 backup group
    dict(bs=1024, bpg=512, groups=(26, 28, 50, 126), sparse="sparse_super", meta_bg=False),
    # last meta group consists of a single group (its descriptor block has no copy)
    dict(bs=2048, bpg=256, groups=(33, 65, 97), sparse="sparse_super", meta_bg=True, b64=True, base="ext4"),
    dict(bs=1024, bpg=256, groups=(33, 34, 65), sparse="none", meta_bg=True, b64=False),
    dict(bs=4096, bpg=256, groups=(48, 81, 130), sparse="sparse_super2:2", meta_bg=False),
    # bigalloc: blocks per group != clusters per group; with 1 KiB blocks the first data block is 0
    dict(bs=1024, bpg=2048, groups=(3, 4, 6), sparse="sparse_super", meta_bg=False, base="ext4", cluster=4),
    dict(bs=4096, bpg=8192, groups=(2, 3), sparse="sparse_super", meta_bg=False, base="ext4", cluster=4),
    dict(bs=1024, bpg=4096, groups=(2, 3, 5), sparse="sparse_super", meta_bg=True, b64=True, base="ext4", cluster=16),
]


def gen_geometry(rng, directed=None):
    g = _gen_geometry(rng)
    if directed is not None:
        d = dict(DIRECTED[directed % len(DIRECTED)])
        d["groups"] = rng.choice(d["groups"])
        d["fill"] = 1.0
        g.update(d)
        if g["meta_bg"]:
            g["resize_inode"] = False
        if g["base"] != "ext4":
            g["csum"] = "none"
        first = 1 if g["bs"] == 1024 else 0
        g["blocks"] = first + g["groups"] * g["bpg"]
        g["journal"] = g["journal"] and g["base"] != "ext2" and g["blocks"] >= 4096
    # inodes per group: a multiple of 8 that fills whole inode-table blocks, so that mke2fs keeps -N as is
    unit = max(8, g["bs"] // g["isz"])
    ipg = unit * g["ipg_mult"]
    while g["groups"] * ipg < 96:
        ipg += unit
    g["inodes"] = g["groups"] * ipg
    return g


def _gen_geometry(rng):
    bs = rng.choice([1024, 1024, 2048, 4096])
    dflt = rng.random() < 0.2
    if dflt:
        bpg = 8 * bs
        groups = rng.choice({1024: [2, 3, 4, 5, 6, 8, 10], 2048: [2, 3, 4], 4096: [2, 3]}[bs])
    else:
        cands = [b for b in (256, 256, 264, 512, 512, 1000, 1024, 2048, 3000, 4096, 8192, 16384, 32768)
                 if b <= 8 * bs]
        bpg = rng.choice(cands)
        maxg = max(1, min(130, MAX_IMAGE_BYTES // (bpg * bs)))
        r = rng.random()
        if r < 0.75:
            groups = rng.choice([g for g in BOUNDARY if g <= maxg])
        else:
            groups = rng.randint(1, maxg)
    sp = rng.random()
    if sp < 0.42:
        sparse = "sparse_super"
    elif sp < 0.80:
        sparse = "sparse_super2:%d" % rng.choice([0, 1, 1, 2, 2, 2, 2])
    else:
        sparse = "none"
    meta_bg = rng.random() < 0.3
    flex = rng.choice([0, 0, 2, 4, 16])
    b64 = rng.random() < 0.5
    base = rng.choice(["ext4", "ext4", "ext4", "ext2", "ext3"])
    csum = rng.choice(["metadata_csum", "metadata_csum", "uninit_bg", "none"]) if base == "ext4" else "none"
    resize_inode = (not meta_bg) and rng.random() < 0.8
    isz = rng.choice([128, 256]) if base != "ext4" else rng.choice([256, 256, 128])
    first = 1 if bs == 1024 else 0
    full = rng.random() < 0.5
    tail = bpg if full else rng.randint(bpg * 3 // 4, bpg)
    blocks = first + (groups - 1) * bpg + tail
    journal = base != "ext2" and blocks >= 4096 and rng.random() < 0.6
    g = dict(bs=bs, bpg=bpg, groups=groups, blocks=blocks, sparse=sparse, meta_bg=meta_bg, flex=flex,
             b64=b64, base=base, csum=csum, resize_inode=resize_inode, isz=isz, journal=journal,
             inodes=0, ipg_mult=rng.choice([1, 1, 2]), fill=rng.choice([0.72, 0.97]),
             rsv_factor=rng.choice([2, 4, 8]), cluster=1)
    # bigalloc: blocks per group != clusters per group, the unit the backup search must not confuse
    if base == "ext4" and rng.random() < 0.18:
        ratio = rng.choice([4, 16])
        if bpg % (8 * ratio) == 0 and bpg // ratio >= 64 and tail % ratio == 0:
            g["cluster"] = ratio
    return g


def mke2fs_args(g):
    feats = []
    ext = ["hash_seed=" + HASH_SEED]
    if g["sparse"] == "none":
        feats.append("^sparse_super")
    elif g["sparse"].startswith("sparse_super2"):
        feats.append("sparse_super2")
        ext.append("num_backup_sb=" + g["sparse"].split(":")[1])
    if g["meta_bg"]:
        feats += ["meta_bg", "^resize_inode"]
    elif not g["resize_inode"]:
        feats.append("^resize_inode")
    else:
        ext.append("resize=%d" % (g["blocks"] * g["rsv_factor"]))
    if g.get("cluster", 1) > 1:
        feats.append("bigalloc")
    if g["base"] == "ext4":
        feats.append("64bit" if g["b64"] else "^64bit")
        if not g["flex"]:
            feats.append("^flex_bg")
        if g["csum"] == "uninit_bg":
            feats += ["^metadata_csum", "uninit_bg"]
        elif g["csum"] == "none":
            feats += ["^metadata_csum", "^uninit_bg"]
        if not g["journal"]:
            feats.append("^has_journal")
    else:
        if g["b64"]:
            feats += ["64bit", "extent"]
        if g["flex"]:
            feats.append("flex_bg")
        if g["base"] == "ext3" and not g["journal"]:
            feats.append("^has_journal")
    # (with bigalloc mke2fs takes -g in clusters)
    a = ["-q", "-F", "-U", UUID0, "-L", "c20", "-t", g["base"], "-b", str(g["bs"]),
         "-g", str(g["bpg"] // g.get("cluster", 1)),
         "-I", str(g["isz"]), "-N", str(g["inodes"]), "-E", ",".join(ext)]
    if feats:
        a += ["-O", ",".join(feats)]
    if g["flex"]:
        a += ["-G", str(g["flex"])]
    if g.get("cluster", 1) > 1:
        a += ["-C", str(g["bs"] * g["cluster"])]
    if g["journal"]:
        a += ["-J", "size=%d" % max(1, g["bs"] // 1024)]
    return a


# --------------------------------------------------------------------------------------
# oracle side

def group_class(img, g):
    sb = img.sb
    if sb.has_compat("sparse_super2"):
        return "sparse2-" + ("first" if g == sb.s_backup_bgs[0] else "second" if g == sb.s_backup_bgs[1]
                             else "other")
    if not sb.has_ro("sparse_super"):
        return "nosparse"
    if g == 1:
        return "one"
    for b in (3, 5, 7):
        if img._is_power(g, b):
            return "pow%d" % b
    return "other"


def backup_groups(img):
    return [g for g in range(1, img.groups) if img.bg_has_super(g)]


def parse_descs(img, raw, first_group):
    out = []
    for j in range(img.descs_per_block):
        g = first_group + j
        if g >= img.groups:
            break
        out.append((g, I.GroupDesc(raw[j * img.desc_size:(j + 1) * img.desc_size], img.desc_size, img.is64)))
    return out


def read_block(img, b):
    """block b of the file, beyond-range safe"""
    o = b * img.bs
    d = bytes(img.data[o:o + img.bs])
    return d + b"\0" * (img.bs - len(d))


def block_in_use(img, b):
    g = img.group_of_block(b)
    if g < 0 or g >= img.groups:
        return False
    bm = img.block_bitmap(g)
    if bm is None:
        return False
    idx = ((b - img.group_first_block(g)) // img.ratio)
    return bool(bm[idx >> 3] >> (idx & 7) & 1)


def static_check(path, rng, all_groups=False):
    """Returns (violations [(subkey, what)], info dict)."""
    viol = []
    with I.Image(path) as img:
        sb = img.sb
        prim = img.group_descs()
        meta_bg = sb.has_incompat("meta_bg")
        old_desc = img.gdt_blocks if not meta_bg else min(sb.s_first_meta_bg, img.gdt_blocks)
        bgs = backup_groups(img)
        info = {"groups": img.groups, "backup_groups": bgs, "sb_checked": 0, "gdt_blocks_checked": 0,
                "nonbackup_checked": 0, "stale_free_sb": 0, "metabg_copies_checked": 0,
                "first_meta_bg": sb.s_first_meta_bg if meta_bg else None, "dpb": img.descs_per_block}

        def cmp_descs(where, raw, first_group, g_at):
            for g, d in parse_descs(img, raw, first_group):
                p = prim[g]
                for f in ("block_bitmap", "inode_bitmap", "inode_table"):
                    if getattr(d, f) != getattr(p, f):
                        viol.append(("gdt-backup-differs %s %s" % (where, f),
                                     "descriptor of group %d in the copy at group %d: %s=%d, primary has %d" %
                                     (g, g_at, f, getattr(d, f), getattr(p, f))))
                        return

        for g in bgs:
            cls = group_class(img, g)
            raw = read_block(img, img.sb_block(g))[:1024]
            info["sb_checked"] += 1
            if struct.unpack_from("<H", raw, 56)[0] != 0xEF53:
                viol.append(("sb-backup-missing group-class %s" % cls,
                             "group %d of %d (block %d) must hold a backup superblock; magic is %#x" %
                             (g, img.groups, img.sb_block(g), struct.unpack_from("<H", raw, 56)[0])))
                continue
            b = I.Superblock(raw)
            bad = False
            for f in CMP_FIELDS + (["s_blocks_count_hi"] if img.is64 else []) + \
                    (["s_checksum_seed"] if sb.has_incompat("metadata_csum_seed") else []):
                va, vb = getattr(sb, f), getattr(b, f)
                if f in MASK:
                    va, vb = va & MASK[f], vb & MASK[f]
                if va != vb:
                    viol.append(("sb-backup-differs %s" % f,
                                 "backup superblock in group %d (%s): %s=%r, primary has %r" % (g, cls, f, vb, va)))
                    bad = True
                    break
            if bad:
                continue
            if b.s_block_group_nr != min(g, 65535):
                viol.append(("sb-backup-wrong-group-nr", "backup superblock in group %d says s_block_group_nr=%d" %
                             (g, b.s_block_group_nr)))
            if img.has_csum and not b.checksum_ok():
                viol.append(("sb-backup-bad-csum", "backup superblock in group %d fails its own checksum" % g))
            for i in range(old_desc):
                info["gdt_blocks_checked"] += 1
                cmp_descs("oldstyle", read_block(img, img.sb_block(g) + 1 + i), i * img.descs_per_block, g)
        if meta_bg:
            for i in range(sb.s_first_meta_bg, img.gdt_blocks):
                for which, nm in ((1, "metabg-second"), (2, "metabg-last")):
                    g = i * img.descs_per_block + (1 if which == 1 else img.descs_per_block - 1)
                    if g >= img.groups:
                        continue
                    info["metabg_copies_checked"] += 1
                    cmp_descs(nm, read_block(img, img.gdt_location(i, which)), i * img.descs_per_block, g)
        # groups that must not carry a backup
        others = [g for g in range(1, img.groups) if not img.bg_has_super(g)]
        if not all_groups and len(others) > 16:
            # always the groups that are backup groups under another sparse mode / another group count
            must = [g for g in others if g in (1, 3, 5, 7, 9, 25, 27, 49, 81, 125) or g >= img.groups - 2]
            rest = [g for g in others if g not in must]
            others = sorted(must + rng.sample(rest, min(len(rest), 8)))
        for g in others:
            info["nonbackup_checked"] += 1
            fb = img.group_first_block(g)
            raw = read_block(img, fb)[:1024]
            if struct.unpack_from("<H", raw, 56)[0] == 0xEF53 and raw[104:120] == sb.s_uuid:
                if block_in_use(img, fb):
                    viol.append(("sb-backup-unexpected group-class %s" % group_class(img, g),
                                 "group %d of %d is not a backup group but its first block %d is allocated and "
                                 "holds a superblock copy" % (g, img.groups, fb)))
                else:
                    info["stale_free_sb"] += 1
        info["features"] = sb.features()
    return viol, info


def primary_desc_blocks(img):
    """(blocks to destroy, blocks kept because the format has no copy of them)"""
    sb = img.sb
    kill, keep = [], []
    meta_bg = sb.has_incompat("meta_bg")
    old_desc = img.gdt_blocks if not meta_bg else min(sb.s_first_meta_bg, img.gdt_blocks)
    for i in range(old_desc):
        kill.append(img.gdt_location(i, 0))
    if meta_bg:
        for i in range(sb.s_first_meta_bg, img.gdt_blocks):
            if i * img.descs_per_block + 1 < img.groups:
                kill.append(img.gdt_location(i, 0))
            else:
                keep.append(img.gdt_location(i, 0))     # one-group meta group: single copy by format
    return kill, keep


def first_problem(text, path=""):
    for line in text.splitlines():
        s = line.strip()
        if not s or s.startswith("Pass ") or s.startswith("e2fsck 1."):
            continue
        if path:
            s = s.replace(path, "<img>")
        s = re.sub(r"/[^\s:]*\.img", "<img>", s)
        s = re.sub(r"\d+", "N", s)
        return s[:90]
    return "(no output)"


def last_line(text, path=""):
    lines = [l.strip() for l in text.splitlines() if l.strip()]
    if not lines:
        return "(no output)"
    return first_problem(lines[-1], path)


def digest(path):
    """(tree digest, geometry signature: compared superblock fields + table locations of every group)"""
    with I.Image(path) as img:
        sig = {f: getattr(img.sb, f) for f in CMP_FIELDS + ["s_blocks_count_hi"]}
        for f, m in MASK.items():
            sig[f] &= m
        locs = [(d.block_bitmap, d.inode_bitmap, d.inode_table) for d in img.group_descs()]
        return T.tree_digest(img), (sig, locs)


def restore(e2fsck, env, src, dst, bs, kill, sbblock, d0, keep_sb=False):
    """Destroy the primary in a copy and restore from the backup at sbblock (None = let
    e2fsck find one; keep_sb: only the descriptors are destroyed, the automatic search then
    works from the geometry in the surviving superblock).  Returns None or (subkey, what)."""
    run.copy_sparse(src, dst)
    with open(dst, "r+b") as f:
        if not keep_sb:
            f.seek(1024)
            f.write(b"\0" * 1024)
        for b in kill:
            f.seek(b * bs)
            f.write(b"\0" * bs)
    argv = [e2fsck, "-fy"] + (["-b", str(sbblock), "-B", str(bs)] if sbblock is not None else []) + [dst]
    r = run.run(argv, env=env, timeout=300)
    if r.timed_out:
        return ("timeout", "", "e2fsck -fy timed out")
    if r.sig or r.rc is None or (r.rc & ~3):
        return ("restore-fails", "fy: " + last_line(r.etext + "\n" + r.text if (r.rc or 0) >= 8 else r.text, dst),
                "%s exits %s (sig %s): %s | %s" % (" ".join(argv[1:-1]), r.rc, r.sig, r.text[-400:], r.etext[-300:]))
    r2 = run.run([e2fsck, "-fn", dst], env=env, timeout=300)
    if r2.timed_out:
        return ("timeout", "", "e2fsck -fn timed out")
    if r2.rc != 0:
        return ("restore-fails", "fn: " + first_problem(r2.text, dst),
                "after %s (exit %d), e2fsck -fn exits %s: %s" % (" ".join(argv[1:-1]), r.rc, r2.rc, r2.text[:600]))
    keys, det = fsckpair.pycheck(dst)
    if keys:
        return ("restore-inconsistent", ",".join(keys),
                "after %s the independent checker finds %s" % (" ".join(argv[1:-1]), det))
    try:
        d1, g1 = digest(dst)
    except I.FormatError as e:
        return ("restore-tree-unreadable", "", str(e))
    d0, g0 = d0
    for f in g0[0]:
        if g0[0][f] != g1[0][f]:
            return ("restore-geometry-differs", f, "after %s the primary superblock has %s=%r, before the "
                    "destruction %r" % (" ".join(argv[1:-1]), f, g1[0][f], g0[0][f]))
    if g0[1] != g1[1]:
        bad = [i for i in range(len(g0[1])) if i >= len(g1[1]) or g0[1][i] != g1[1][i]]
        return ("restore-geometry-differs", "table-locations",
                "after %s the bitmaps / inode table of group(s) %s are not where they were: %s, before %s; e2fsck "
                "said: %s" % (" ".join(argv[1:-1]), bad[:8], [g1[1][i] for i in bad[:3]], [g0[1][i] for i in bad[:3]],
                              first_problem(r.text, dst)))
    diffs = T.diff_digests(d0, d1)
    if diffs:
        kind = diffs[0].split(" ")[0] if diffs[0].startswith(("added", "missing")) else \
            diffs[0].split(": ", 1)[1].split(" ")[0]
        return ("restore-tree-differs", kind, "after %s: %s" % (" ".join(argv[1:-1]), diffs[:5]))
    return None


def plain_list(limit):
    out = {1}
    for b in (3, 5, 7):
        n = b
        while n <= limit:
            out.add(n)
            n *= b
    return sorted(g for g in out if g <= limit)


def check_stage(b, env, path, w, tag, rng, tier, tool):
    """static + restore checks of one image state.  Returns dict."""
    res = {"tool": tool, "viol": [], "restores": [], "inconsistent": None, "timeouts": 0}
    e2fsck = b.tool("e2fsck")
    try:
        viol, info = static_check(path, rng, all_groups=(tier != "quick"))
    except I.FormatError as e:
        res["inconsistent"] = "primary unusable after the tool: %s" % e
        return res
    res["info"] = info
    res["viol"] += [("static", k, wh) for k, wh in viol]
    with I.Image(path) as img:
        bs = img.bs
        kill, keep = primary_desc_blocks(img)
        bgs = info["backup_groups"]
        locs = {g: img.sb_block(g) for g in bgs}
        # (bigalloc is outside the statement's geometry list: without a superblock e2fsck cannot guess
        # the cluster ratio, so "default group size" has no meaning for its blind search; bigalloc
        # images are judged through -b <backup> and through the descriptors-only destruction)
        dflt_bpg = img.sb.s_blocks_per_group == 8 * bs and img.sb.s_clusters_per_group == img.sb.s_blocks_per_group
        fsize = os.path.getsize(path)
        res["geom"] = {"bs": bs, "bpg": img.sb.s_blocks_per_group, "groups": img.groups,
                       "sparse": "sparse_super2" if img.sb.has_compat("sparse_super2") else
                       "sparse_super" if img.sb.has_ro("sparse_super") else "none",
                       "meta_bg": img.sb.has_incompat("meta_bg"), "flex_bg": img.sb.has_incompat("flex_bg"),
                       "64bit": img.is64, "csum": img.has_csum, "desc_kept": len(keep)}
    if viol:
        return res          # a restore from a backup already known to be wrong proves nothing new
    r = run.run([e2fsck, "-fn", path], env=env, timeout=300)
    keys, det = fsckpair.pycheck(path)
    if r.rc != 0 or keys:
        res["inconsistent"] = "image not consistent before any destruction: e2fsck -fn exit %s (%s); " \
                              "pyext4 %s" % (r.rc, first_problem(r.text, path), det)
        return res
    d0 = digest(path)
    pick = []
    if bgs:
        pick = [bgs[0]]
        if bgs[-1] not in pick:
            pick.append(bgs[-1])
        mid = [g for g in bgs if g not in pick]
        nmax = 3 if tier == "quick" else 5
        while mid and len(pick) < nmax:
            g = rng.choice(mid)
            mid.remove(g)
            pick.append(g)
    dst = w.path(tag + ".restore.img")
    for g in pick:
        out = restore(e2fsck, env, path, dst, bs, kill, locs[g], d0)
        res["restores"].append(("b", g))
        if out and out[0] == "timeout":
            res["timeouts"] += 1
        elif out:
            res["viol"].append((out[0], out[1], "backup group %d (block %d): %s" % (g, locs[g], out[2])))
            break
    if dflt_bpg and not res["viol"]:
        cands = [g for g in plain_list(fsize // bs // (8 * bs)) if g in bgs]
        if cands:
            out = restore(e2fsck, env, path, dst, bs, kill, None, d0)
            res["restores"].append(("plain", cands[0]))
            if out and out[0] == "timeout":
                res["timeouts"] += 1
            elif out:
                res["viol"].append((out[0] + "-plain", out[1], "no -b given: %s" % out[2]))
    if kill and not res["viol"] and [g for g in plain_list(max(bgs or [0])) if g in bgs]:
        # only the primary descriptors destroyed: e2fsck's own search for a backup (it probes groups
        # 1, 3, 5, 7, 9, ... with the group size from the surviving superblock), any group size
        out = restore(e2fsck, env, path, dst, bs, kill, None, d0, keep_sb=True)
        res["restores"].append(("plain-desc-only", bgs[0]))
        if out and out[0] == "timeout":
            res["timeouts"] += 1
        elif out:
            res["viol"].append((out[0] + "-plain-desc-only", out[1], "descriptors destroyed, superblock intact, "
                                "no -b given: %s" % out[2]))
    try:
        os.unlink(dst)
    except OSError:
        pass
    return res


# --------------------------------------------------------------------------------------
# tools

def set_primary_sb(path, mutate):
    with open(path, "r+b") as f:
        f.seek(1024)
        raw = bytearray(f.read(1024))
        has_csum = struct.unpack_from("<I", raw, 100)[0] & I.RO_COMPAT["metadata_csum"]
        mutate(raw)
        if has_csum:
            struct.pack_into("<I", raw, 1020, crc.crc32c(0xFFFFFFFF, bytes(raw[:1020])))
        f.seek(1024)
        f.write(raw)


def choose_tools(rng, n):
    pool = ["resize-grow"] * 4 + ["resize-shrink"] * 3 + ["tune-U"] * 2 + ["tune-journal"] * 2 + \
           ["tune-csumseed", "tune-L", "tune-extent", "tune-I", "tune-csum"] + \
           ["fsck-feature"] * 4 + ["fsck-gd"] * 2
    return [rng.choice(pool) for _ in range(n)]


def apply_tool(b, env, path, tool, rng):
    """Returns (status, description, detail).  status: 'ok' | 'n/a' | 'refused' | 'repair-fails'"""
    with I.Image(path) as img:
        sb = img.sb
        bs, bpg, groups, first = img.bs, sb.s_blocks_per_group, img.groups, sb.s_first_data_block
        feats = set(sb.features())
        isz = img.inode_size
        dpb = img.descs_per_block
        gdt0 = [img.gdt_location(i, 0) for i in range(img.gdt_blocks)]
        desc_size = img.desc_size
        has_backup1 = any(img.bg_has_super(g) for g in plain_list(groups - 1)) if groups > 1 else False
        free_frac = sum(d.free_inodes for d in img.group_descs()) / float(sb.s_inodes_count)
    if tool in ("resize-grow", "resize-shrink"):
        cand = set(BOUNDARY)
        if "meta_bg" in feats:
            for k in range(1, 131 // dpb + 1):
                cand.update([k * dpb - 1, k * dpb, k * dpb + 1, k * dpb + 2])
        maxg = max(1, min(130, MAX_IMAGE_BYTES // (bpg * bs)))
        if tool == "resize-grow":
            cs = sorted(c for c in cand if groups < c <= maxg)[:5]
        else:
            cs = sorted((c for c in cand if 1 <= c < groups), reverse=True)
            cs = [c for c in cs if c >= 0.78 * groups][:3]      # 72 % or 97 % of the inodes are in use
            if free_frac < 0.2:
                cs = []
        if not cs:
            return "n/a", tool, ""
        ng = rng.choice(cs)
        tail = bpg if rng.random() < 0.5 else rng.randint(bpg * 3 // 4, bpg)
        nb = first + (ng - 1) * bpg + tail
        if tool == "resize-grow":
            with open(path, "r+b") as f:
                f.truncate(max(os.path.getsize(path), nb * bs))
        r = run.run([b.tool("resize2fs"), path, str(nb)], env=env, timeout=600)
        descr = "resize2fs %d->%d groups (%d blocks)" % (groups, ng, nb)
        if r.timed_out:
            return "timeout", descr, ""
        if r.rc != 0:
            return "refused", descr, (r.etext + r.text)[-300:]
        return "ok", descr, ""
    if tool.startswith("tune-"):
        if tool == "tune-U":
            with I.Image(path) as img:
                cur = img.sb.s_uuid.hex()
            args = ["-U", UUID1 if cur == UUID0.replace("-", "") else UUID0]
        elif tool == "tune-journal":
            # (orphan_file goes with the journal: tune2fs itself leaves it behind, which e2fsck rejects)
            args = ["-O", "^has_journal" + (",^orphan_file" if "orphan_file" in feats else "")] \
                if "has_journal" in feats else ["-O", "has_journal", "-J", "size=%d" % max(1, bs // 1024)]
        elif tool == "tune-csumseed":
            if "metadata_csum" not in feats:
                return "n/a", tool, ""
            args = ["-O", "^metadata_csum_seed" if "metadata_csum_seed" in feats else "metadata_csum_seed"]
        elif tool == "tune-L":
            args = ["-L", "c20-relabelled"]
        elif tool == "tune-extent":
            if "extent" in feats:
                return "n/a", tool, ""
            args = ["-O", "extent"]
        elif tool == "tune-I":
            if isz != 128 or "flex_bg" in feats:
                return "n/a", tool, ""
            args = ["-I", "256"]
        else:
            args = ["-O", "^metadata_csum" if "metadata_csum" in feats else "metadata_csum"]
        r = run.run([b.tool("tune2fs")] + args + [path], env=env, timeout=600)
        descr = "tune2fs " + " ".join(args)
        if r.timed_out:
            return "timeout", descr, ""
        if r.rc != 0:
            return "refused", descr, (r.etext + r.text)[-300:]
        return "ok", descr, ""
    if tool == "fsck-feature":
        word = rng.choice(["incompat", "incompat", "compat", "ro_compat"])
        off, bit, name = {"incompat": (96, I.INCOMPAT["large_dir"], "large_dir"),
                          "compat": (92, I.COMPAT["dir_prealloc"], "dir_prealloc"),
                          "ro_compat": (100, I.RO_COMPAT["huge_file"], "huge_file")}[word]
        if name in feats:
            if word != "incompat":
                return "n/a", tool, ""
            name = "-large_dir"

        def mut(raw):
            v = struct.unpack_from("<I", raw, off)[0]
            struct.pack_into("<I", raw, off, v ^ bit)
        set_primary_sb(path, mut)
        descr = "primary-only s_feature_%s ^= %s, then e2fsck -fy" % (word, name)
    elif tool == "fsck-gd":
        if not has_backup1:
            return "n/a", tool, ""
        gx = rng.randrange(groups)
        fld = rng.choice(["inode_table", "block_bitmap", "inode_bitmap"])
        o = {"block_bitmap": 0, "inode_bitmap": 4, "inode_table": 8}[fld]
        with open(path, "r+b") as f:
            pos = gdt0[gx // dpb] * bs + (gx % dpb) * desc_size
            f.seek(pos + o)
            f.write(b"\0\0\0\0")
            if desc_size >= 64:
                f.seek(pos + 32 + o)
                f.write(b"\0\0\0\0")
        descr = "primary-only descriptor %s of group %d zeroed, then e2fsck -fy" % (fld, gx)
    else:
        raise ValueError(tool)
    r = run.run([b.tool("e2fsck"), "-fy", path], env=env, timeout=600)
    if r.timed_out:
        return "timeout", descr, ""
    if r.sig or r.rc is None or (r.rc & ~3):
        return "repair-fails", descr, "e2fsck -fy exits %s: %s | %s" % (r.rc, r.text[-500:], r.etext[-300:])
    return "ok", descr, first_problem(r.text, path)


# --------------------------------------------------------------------------------------

def _one(arg):
    workdir, seed, idx, tier, ntools, broot = arg
    b = build.Build(broot, "plain")
    env = run.base_env(b)
    out = {"idx": idx, "stages": [], "rejected": 0, "geom": None, "keep": None, "error": None}
    sub = os.path.join(workdir, "i%d" % idx)
    os.makedirs(sub, exist_ok=True)

    class W:
        def path(self, n):
            return os.path.join(sub, n)
    w = W()
    path = w.path("fs.img")
    try:
        rng = None
        for attempt in range(8):
            rng = run.rng_for(seed, "C20", idx, attempt)
            g = gen_geometry(rng, directed=(idx // 5 + seed) if (idx % 5 == 3 and attempt < 4) else None)
            tdir = w.path("tree")
            shutil.rmtree(tdir, ignore_errors=True)
            small_tree(tdir, rng, min(160, max(8, g["blocks"] * g["bs"] // 1024 // 10)),
                       n_inodes=min(int(g["fill"] * (g["inodes"] - 11)), g["inodes"] - 11 - 3))
            with open(path, "wb") as f:
                f.truncate(g["blocks"] * g["bs"])
            args = mke2fs_args(g)
            r = run.run([b.tool("mke2fs")] + args + ["-d", tdir, path], env=env, timeout=300)
            if r.rc == 0:
                out["geom"] = g
                out["mke2fs"] = " ".join(args)
                break
            out["rejected"] += 1
            out.setdefault("reject_msgs", []).append((" ".join(args), r.etext.strip()[-160:]))
        shutil.rmtree(w.path("tree"), ignore_errors=True)
        if out["geom"] is None:
            return out
        tools = choose_tools(rng, ntools)
        st = check_stage(b, env, path, w, "s0", rng, tier, "mke2fs")
        st["descr"] = "mke2fs " + out["mke2fs"]
        out["stages"].append(st)
        k = 0
        for tool in tools:
            if st["inconsistent"] and not st["viol"] and st["tool"] != "fsck-settle":
                # the tool left an inconsistent filesystem (not C20's business; counted and listed in the
                # evidence): settle it with e2fsck -fy and judge the settled state as a state of its own
                r = run.run([b.tool("e2fsck"), "-fy", path], env=env, timeout=600)
                st = check_stage(b, env, path, w, "s%dx" % k, rng, tier, "fsck-settle")
                st["descr"] = "e2fsck -fy (settling, exit %s)" % r.rc
                st["status"] = "ok"
                out["stages"].append(st)
            if st["viol"] or st["inconsistent"]:
                break
            status, descr, detail = "n/a", tool, ""
            for _ in range(6):          # draw again when a tool does not apply to this state
                status, descr, detail = apply_tool(b, env, path, tool, rng)
                if status != "n/a":
                    break
                tool = choose_tools(rng, 1)[0]
            if status == "n/a":
                break
            k += 1
            cls = tool
            if status != "ok":
                st2 = {"tool": cls, "descr": descr, "viol": [], "restores": [], "inconsistent": None,
                       "timeouts": 1 if status == "timeout" else 0, "status": status, "detail": detail}
                if status == "repair-fails":
                    st2["viol"].append(("repair", "repair-fails " + last_line(detail.split("|")[0], path), detail))
                out["stages"].append(st2)
                if status == "refused":
                    continue        # a refusing tool leaves the state as it was; the next stage re-validates it
                st = st2
                break
            st = check_stage(b, env, path, w, "s%d" % k, rng, tier, cls)
            st["descr"] = descr
            st["status"] = "ok"
            out["stages"].append(st)
        if out["stages"] and (out["stages"][-1]["viol"] or out["stages"][-1]["inconsistent"]):
            keep = os.path.join(workdir, "keep-%d.img" % idx)
            os.rename(path, keep)
            out["keep"] = keep
    except Exception as e:      # harness problem, reported as such
        import traceback
        out["error"] = "%r\n%s" % (e, traceback.format_exc()[-1500:])
    finally:
        shutil.rmtree(sub, ignore_errors=True)
    return out


def main(tier, seed, replay=None, scale=1.0):
    rep = report.Report("C20", tier, seed, "exploration",
                        rule="case = one image state (after mke2fs or after one tool of a chain of %d tools per "
                             "image) that passed through the static backup check and the restore-from-backup "
                             "check; non-trivial = state with >= 3 backup groups or sparse_super2 or meta_bg; "
                             "distinct by (block size, blocks per group, group count, sparse mode, meta_bg, "
                             "flex_bg, 64bit, tool)" % TOOLS_PER_IMAGE)
    b = build.get_build("plain")
    with run.Work("C20") as w:
        if replay:
            case = json.load(open(os.path.join(replay, "case.json")))["case"]
            items = [(w.dir, case["seed"], case["idx"], case.get("tier", tier), TOOLS_PER_IMAGE, b.root)]
        else:
            n = max(4, int(BUDGET[tier] * scale))
            items = [(w.dir, seed, i, tier, TOOLS_PER_IMAGE, b.root) for i in range(n)]
        results = run.pmap(_one, items)
        for it, r in zip(items, results):
            case = {"seed": it[1], "idx": it[2], "tier": it[3]}
            if r["error"]:
                rep.harness_error("image %d: %s" % (r["idx"], r["error"]))
                continue
            rep.count("mke2fs_rejected_geometries", r["rejected"])
            if r["geom"] is None:
                rep.note_inconclusive("no acceptable geometry for idx %d: %s" % (r["idx"], r.get("reject_msgs")))
                continue
            rep.count("images")
            chain = []
            for st in r["stages"]:
                chain.append(st.get("descr", st["tool"]))
                tool = st["tool"]
                if st.get("status") in ("refused", "timeout"):
                    rep.count("tool_refused_" + tool)
                    rep.add("refusals", "%s: %s" % (tool, first_problem(st.get("detail", ""))))
                    if st["status"] == "timeout":
                        rep.note_inconclusive("timeout in %s idx %d" % (tool, r["idx"]))
                    continue
                if st["inconsistent"]:
                    rep.count("stage_inconsistent_after_" + tool)
                    rep.note_inconclusive("idx %d after %s: %s" % (r["idx"], st.get("descr"), st["inconsistent"][:300]))
                    continue
                if st["timeouts"]:
                    rep.note_inconclusive("e2fsck timeout idx %d" % r["idx"])
                gm = st.get("geom")
                if gm:
                    info = st["info"]
                    nb = len(info["backup_groups"])
                    nontriv = nb >= 3 or gm["sparse"] == "sparse_super2" or gm["meta_bg"]
                    rep.case(json.dumps([gm["bs"], gm["bpg"], gm["groups"], gm["sparse"], gm["meta_bg"],
                                         gm["flex_bg"], gm["64bit"], tool]) if nontriv else None)
                    rep.count("stages_after_" + tool)
                    rep.count("backup_superblocks_compared", info["sb_checked"])
                    rep.count("oldstyle_descriptor_block_copies_compared", info["gdt_blocks_checked"])
                    rep.count("metabg_descriptor_copies_compared", info["metabg_copies_checked"])
                    rep.count("nonbackup_groups_probed", info["nonbackup_checked"])
                    rep.count("stale_superblock_in_free_block", info["stale_free_sb"])
                    rep.count("desc_blocks_without_copy_kept", gm["desc_kept"])
                    rep.add("geometries", [gm["bs"], gm["bpg"], gm["groups"], gm["sparse"], gm["meta_bg"],
                                           gm["flex_bg"], gm["64bit"], gm["csum"]])
                    rep.add("group_counts", gm["groups"])
                    rep.add("block_sizes_x_bpg", "%d/%d" % (gm["bs"], gm["bpg"]))
                    rep.add("backup_group_sets", ",".join(map(str, info["backup_groups"])) or "-")
                    for kind, g in st["restores"]:
                        rep.count("restores_" + ("with_b" if kind == "b" else "plain_no_b"))
                        rep.add("backup_locations_restored_from", "%s:g%d" % (kind, g))
                    rep.add("tools", tool)
                    if tool != "mke2fs" and len(rep.samples) < 5:
                        rep.sample({"idx": r["idx"], "mke2fs": r["mke2fs"], "chain": list(chain), "state": gm,
                                    "backup_groups": info["backup_groups"], "restores": st["restores"]})
                seen = set()
                for kind, sub, what in st["viol"]:
                    if kind == "static":
                        key = "C20 static %s %s" % (tool, sub)
                    elif kind == "repair":
                        key = "C20 %s %s" % (sub, tool)
                    else:
                        key = ("C20 %s %s %s" % (kind, tool, sub)).strip()
                    if key in seen:
                        continue
                    seen.add(key)
                    c = dict(case)
                    c.update(mke2fs=r["mke2fs"], chain=list(chain), state=gm)
                    rep.violation(key, "idx %d, chain %s: %s" % (r["idx"], " ; ".join(chain), what), replay=c,
                                  files={"state.img": r["keep"]} if r["keep"] else None)
    rep.assumptions = [
        "'current' is judged field-wise on geometry / feature / UUID fields only: " + ", ".join(CMP_FIELDS) +
        " (+ s_blocks_count_hi with 64bit, s_checksum_seed with metadata_csum_seed); needs_recovery and "
        "orphan_present bits masked; s_block_group_nr must equal the group; times, mount counts, s_state, free "
        "counts, label, s_kbytes_written are not compared",
        "descriptor copies are compared in block_bitmap / inode_bitmap / inode_table only",
        "a superblock-looking first block of a non-backup group counts only if the block bitmap has the block "
        "allocated (stale copies left in freed blocks by resize2fs are counted, not flagged)",
        "restore destroys primary superblock bytes 1024..2047 and every primary descriptor block for which the "
        "format keeps a copy; the descriptor block of a meta group that has a single group has no copy and is kept",
        "with -b e2fsck reads the meta_bg descriptor copies of the second group of each meta group; the copies "
        "in the last group are covered by the static comparison only",
        "tool chains stop at the first refusal; an image that is inconsistent before any destruction is "
        "reported as inconclusive (another property's business), not as a C20 violation",
    ]
    return rep.finish()
