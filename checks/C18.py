"""C18 - populating a filesystem from a host directory tree is exact; extraction returns
the same data.

For every generated host tree (vf/gen/trees18.py) and feature set:
  route A   mke2fs -d <tree>                       (twice: byte-identical images)
  route B   debugfs -w -f <script> on an empty fs   (mkdir/write/symlink/mknod/ln/sif/ea_set)
  route T   mke2fs -d <tree>.tar                    (a few cases, only if libarchive loads)
Oracle 1: the image read with vf.pyext4 == the host tree read with os.lstat/readlink/listxattr/
          SEEK_DATA+SEEK_HOLE.  Oracle 2: e2fsck -fn exit 0 and pyext4's checker silent.
Oracle 3: two route-A builds are byte-identical.  Oracle 4: debugfs rdump / dump -p / cat
          return the same names, bytes, lengths, targets, rwx bits and owners.
"""
import errno
import hashlib
import json
import os
import re
import shutil
import stat
import struct
import sys
import tarfile

from vf import build, run, report, fsckpair
from vf.gen import trees18 as G
from vf.pyext4 import image as I

BUDGET = {"quick": 40, "thorough": 1200}          # trees; every tree meets 2 feature sets
UUID = "6b33f586-a183-4383-921d-30ab132db9bf"
HASH_SEED = "e1deb3c3-d7b8-4c3a-9c2f-8b1b8f3d2a11"

FEATURE_SETS = [
    dict(name="ext2_1k_i128", bs=1024, isz=128, cl=1024, jmb=0, args="-t ext2 -b 1024 -I 128"),
    dict(name="ext4_4k_i256", bs=4096, isz=256, cl=4096, jmb=4, args="-t ext4 -b 4096 -I 256 -J size=4"),
    dict(name="ext4_1k_inline", bs=1024, isz=256, cl=1024, jmb=1,
         args="-t ext4 -b 1024 -I 256 -O inline_data -J size=1"),
    dict(name="ext4_4k_bigalloc16k", bs=4096, isz=256, cl=16384, jmb=4,
         args="-t ext4 -b 4096 -I 256 -O bigalloc -C 16384 -J size=4"),
    dict(name="ext4_1k_i256", bs=1024, isz=256, cl=1024, jmb=1, args="-t ext4 -b 1024 -I 256 -J size=1"),
    dict(name="ext2_4k_i256", bs=4096, isz=256, cl=4096, jmb=0, args="-t ext2 -b 4096 -I 256"),
    dict(name="ext4_1k_bigalloc4k", bs=1024, isz=256, cl=4096, jmb=1,
         args="-t ext4 -b 1024 -I 256 -O bigalloc -C 4096 -J size=1"),
    dict(name="ext4_1k_i128_nojnl", bs=1024, isz=128, cl=1024, jmb=0,
         args="-t ext4 -b 1024 -I 128 -O ^has_journal"),
    dict(name="ext4_4k_inline_i512", bs=4096, isz=512, cl=4096, jmb=0,
         args="-t ext4 -b 4096 -I 512 -O inline_data,^has_journal"),
    dict(name="ext4_1k_nodirindex", bs=1024, isz=256, cl=1024, jmb=1,
         args="-t ext4 -b 1024 -I 256 -O ^dir_index -J size=1"),
    dict(name="ext4_4k_noextent", bs=4096, isz=256, cl=4096, jmb=4,
         args="-t ext4 -b 4096 -I 256 -O ^extent,^64bit -J size=4"),
    dict(name="ext4_1k_noextent", bs=1024, isz=256, cl=1024, jmb=1,
         args="-t ext4 -b 1024 -I 256 -O ^extent,^64bit -J size=1"),
    dict(name="ext3_1k_i128", bs=1024, isz=128, cl=1024, jmb=1, args="-t ext3 -b 1024 -I 128 -J size=1"),
    dict(name="ext4_4k_nocsum", bs=4096, isz=256, cl=4096, jmb=4,
         args="-t ext4 -b 4096 -I 256 -O ^metadata_csum,^dir_index -J size=4"),
]
FS_BY_NAME = {f["name"]: f for f in FEATURE_SETS}

KIND = {stat.S_IFREG: "reg", stat.S_IFDIR: "dir", stat.S_IFLNK: "lnk", stat.S_IFCHR: "chr",
        stat.S_IFBLK: "blk", stat.S_IFIFO: "fifo", stat.S_IFSOCK: "sock"}
IKIND = {I.S_IFREG: "reg", I.S_IFDIR: "dir", I.S_IFLNK: "lnk", I.S_IFCHR: "chr", I.S_IFBLK: "blk",
         I.S_IFIFO: "fifo", I.S_IFSOCK: "sock"}
FT_OF = {"reg": 1, "dir": 2, "chr": 3, "blk": 4, "fifo": 5, "sock": 6, "lnk": 7}
SPECIAL_KINDS = ("sparse", "hardlink", "longsymlink", "device", "fifo", "xattr", "bigdir")


# ---------------------------------------------------------------------------------------
# the host side (Python os only)

def host_holes(fd, size):
    """[(start, end)] byte ranges of [0, size) that the host reports as holes"""
    data = []
    pos = 0
    while pos < size:
        try:
            d = os.lseek(fd, pos, os.SEEK_DATA)
        except OSError as e:
            if e.errno == errno.ENXIO:
                break
            raise
        h = os.lseek(fd, d, os.SEEK_HOLE)
        data.append((d, h))
        pos = h
    holes = []
    pos = 0
    for d, h in data:
        if d > pos:
            holes.append((pos, d))
        pos = h
    if pos < size:
        holes.append((pos, size))
    return holes


def scan_host(root):
    """{path: record} of the tree at root (bytes).  Paths look like b'/a/b'; the root is b'/'."""
    out = {}

    def one(full, rel):
        st = os.lstat(full)
        k = KIND.get(stat.S_IFMT(st.st_mode), "?")
        r = {"kind": k, "mode": st.st_mode & 0o7777, "uid": st.st_uid, "gid": st.st_gid,
             "mtime": st.st_mtime_ns // 10 ** 9, "link": (st.st_dev, st.st_ino), "nlink": st.st_nlink}
        if k == "reg":
            r["size"] = st.st_size
            h = hashlib.sha256()
            fd = os.open(full, os.O_RDONLY)
            try:
                r["holes"] = host_holes(fd, st.st_size)
                os.lseek(fd, 0, os.SEEK_SET)
                n = 0
                while True:
                    b = os.read(fd, 1 << 20)
                    if not b:
                        break
                    n += len(b)
                    h.update(b)
            finally:
                os.close(fd)
            r["sha"] = h.hexdigest()
            r["nread"] = n
        elif k == "lnk":
            r["target"] = os.readlink(full)
            r["size"] = len(r["target"])
        elif k in ("chr", "blk"):
            r["rdev"] = (os.major(st.st_rdev), os.minor(st.st_rdev))
        xs = {}
        try:
            for name in os.listxattr(full, follow_symlinks=False):
                nb = os.fsencode(name)
                if nb.startswith(b"user."):
                    xs[nb] = os.getxattr(full, nb, follow_symlinks=False)
        except OSError:
            pass
        r["xattrs"] = xs
        out[rel or b"/"] = r
        if k == "dir":
            names = sorted(os.listdir(full))
            r["entries"] = len(names)
            r["namebytes"] = sum(((8 + len(n) + 3) & ~3) for n in names)
            for n in names:
                one(os.path.join(full, n), rel + b"/" + n)

    one(root, b"")
    return out


# ---------------------------------------------------------------------------------------
# the image side (vf.pyext4 only)

def describe_inode(img, ino):
    i = img.inode(ino)
    r = {"ino": ino, "kind": IKIND.get(i.fmt, "?%o" % i.fmt), "mode": i.mode & 0o7777, "uid": i.uid,
         "gid": i.gid, "mtime": i.mtime, "nlink": i.links, "size": i.size,
         "epoch": (i.mtime_extra & 3) if i.extra_isize >= 12 else 0,
         "inline": bool(i.flags & I.FL_INLINE_DATA)}
    if r["kind"] == "reg":
        h = hashlib.sha256()
        if r["inline"]:
            # bytes beyond the stored inline area and below i_size read as zeros
            data = img.inline_data(i)
            r["inline_len"] = len(data)
            r["holes"] = None
            h.update(data)
            left = i.size - len(data)
            if left > (256 << 20):
                raise I.FormatError("inline file of absurd size %d" % i.size)
            z = bytes(1 << 20)
            while left > 0:
                h.update(z[:min(left, len(z))])
                left -= min(left, len(z))
        else:
            data, holes = img.read_file(i)
            r["holes"] = [(a, a + n) for a, n in holes]
            h.update(data)
        r["sha"] = h.hexdigest()
    elif r["kind"] == "lnk":
        r["target"] = img.symlink_target(i)
    elif r["kind"] in ("chr", "blk"):
        b0, b1 = struct.unpack_from("<2I", i.i_block, 0)
        if b0:
            r["rdev"] = ((b0 >> 8) & 0xFF, b0 & 0xFF)
        else:
            r["rdev"] = ((b1 >> 8) & 0xFFF, (b1 & 0xFF) | ((b1 >> 12) & 0xFFF00))
    xs = {}
    for (pre, name), v in img.xattrs(i).items():
        xs[pre.encode() + b"." + name] = v
    r["xattrs"] = xs
    return r, i


def scan_image(path):
    """({path: record}, info) read with the independent reader; /lost+found is ignored."""
    with I.Image(path) as img:
        info = {"bs": img.bs, "ratio": img.ratio, "features": img.sb.features(),
                "filetype": img.sb.has("filetype"), "inode_size": img.inode_size}
        out = {}
        cache = {}
        seen_dirs = set()
        stack = [(b"", I.ROOT_INO, 2)]
        while stack:
            p, ino, ft = stack.pop()
            if ino not in cache:
                cache[ino] = describe_inode(img, ino)
            r, iobj = cache[ino]
            r = dict(r)
            r["ft"] = ft
            out[p or b"/"] = r
            if len(out) > 100000:
                raise I.FormatError("tree too large")
            if r["kind"] == "dir":
                if ino in seen_dirs:
                    raise I.FormatError("directory reachable twice: inode %d" % ino)
                seen_dirs.add(ino)
                n = 0
                for name, cino, cft in img.list_dir(iobj):
                    if name in (b".", b".."):
                        continue
                    if p == b"" and name == b"lost+found":
                        continue
                    n += 1
                    stack.append((p + b"/" + name, cino, cft))
                r["entries"] = n
        return out, info


# ---------------------------------------------------------------------------------------
# oracle 1: host manifest vs image manifest

def _inside(rngs, a, b):
    """is [a, b) covered by the sorted disjoint ranges?"""
    for s, e in rngs:
        if s <= a and b <= e:
            return True
    return a >= b


def compare(H, M, info, expect, xattrs=True, holes=True, stats=None, linkkinds=None):
    """expect: set of host paths the route is able to express.  Returns [(attr, kind, path,
    detail)]; stats (dict) is updated with what was compared."""
    d = []
    st = stats if stats is not None else {}

    def cnt(k, n=1):
        st[k] = st.get(k, 0) + n

    bs = info["bs"]
    for p in sorted(expect):
        h = H[p]
        k = h["kind"]
        if p == b"/":
            m = M.get(p)
            if xattrs and m is not None:
                hx = h["xattrs"]
                mx = {n: v for n, v in m["xattrs"].items() if n.startswith(b"user.")}
                cnt("cmp_root_xattrs", len(hx))
                if hx != mx:
                    d.append(("xattr", "rootdir", p, "host %r image %r" % (sorted(hx), sorted(mx))))
            continue
        m = M.get(p)
        if m is None:
            d.append(("missing", k, p, "host object absent from the image"))
            continue
        cnt("cmp_" + k)
        if m["kind"] != k:
            d.append(("type", k, p, "host %s image %s" % (k, m["kind"])))
            continue
        if info["filetype"] and m["ft"] != FT_OF[k]:
            d.append(("dirent-type", k, p, "directory entry file_type %d for a %s" % (m["ft"], k)))
        for a in ("mode", "uid", "gid"):
            if m[a] != h[a]:
                d.append((a, k, p, "host %s=%o/%d image %o/%d" % (a, h[a], h[a], m[a], m[a])))
        if 0 <= h["mtime"] <= 2 ** 31 - 1:
            cnt("cmp_mtime")
            if m["mtime"] != h["mtime"] or m["epoch"] != 0:
                d.append(("mtime", k, p, "host %d image %d (epoch bits %d)" % (h["mtime"], m["mtime"], m["epoch"])))
        if k == "reg":
            cnt("cmp_bytes", h["size"])
            if m["size"] != h["size"]:
                # a size cut back to (the block end of) the last data byte is its own class
                hh = h["holes"]
                # (the host hole starts on a 4 KiB page boundary, the stored data may end earlier)
                eofhole = bool(hh) and hh[-1][1] >= h["size"] and hh[-1][0] - 4096 <= m["size"] < h["size"]
                d.append(("size-eofhole" if eofhole else "size", k, p,
                          "host %d image %d (host holes %r)" % (h["size"], m["size"], hh[-2:])))
            elif m["sha"] != h["sha"]:
                d.append(("content", k, p, "sha256 differs (size %d, host holes %r, image holes %r)" %
                          (h["size"], h["holes"][:4], (m["holes"] or [])[:4])))
            elif holes and m["holes"] is not None:
                size = h["size"]
                nblk = (size + bs - 1) // bs
                for a, b in h["holes"]:
                    first = (a + bs - 1) // bs
                    last = nblk if b >= size else b // bs           # exclusive
                    if last <= first:
                        continue
                    cnt("cmp_hole_blocks", last - first)
                    cnt("cmp_hole_ranges")
                    if b >= size:
                        cnt("cmp_hole_at_eof")
                    if a == 0:
                        cnt("cmp_hole_at_start")
                    if not _inside(m["holes"], first * bs, min(last * bs, size)):
                        where = "eof" if b >= size else "start" if a == 0 else "middle"
                        d.append(("hole-" + where, k, p, "host hole [%d,%d) of %d is mapped in the image; "
                                  "image holes %r" % (a, b, size, m["holes"][:6])))
                        break
        elif k == "lnk":
            if m["target"] != h["target"] or m["size"] != len(h["target"]):
                d.append(("target", k, p, "len host %d image %d/%d: %r vs %r" %
                          (len(h["target"]), len(m["target"]), m["size"], h["target"][:40], m["target"][:40])))
        elif k in ("chr", "blk"):
            if m["rdev"] != h["rdev"]:
                d.append(("rdev", k, p, "host %r image %r" % (h["rdev"], m["rdev"])))
        if xattrs:
            hx = h["xattrs"]
            mx = {n: v for n, v in m["xattrs"].items() if n.startswith(b"user.")}
            if hx:
                cnt("cmp_xattrs_" + k, len(hx))
            if hx != mx:
                only_h = sorted(set(hx) - set(mx))
                only_m = sorted(set(mx) - set(hx))
                diff = sorted(n for n in set(hx) & set(mx) if hx[n] != mx[n])
                d.append(("xattr", k, p, "only host %r only image %r value differs %r" %
                          (only_h[:3], only_m[:3], diff[:3])))
    for p in sorted(set(M) - set(expect)):
        if p == b"/":
            continue
        d.append(("extra", M[p]["kind"], p, "image object without a host counterpart"))
    # hard-link groups: same inode <=> same (st_dev, st_ino)
    hg = {}
    mg = {}
    for p in expect:
        if p in M and H[p]["kind"] != "dir" and p != b"/" and (linkkinds is None or H[p]["kind"] in linkkinds):
            hg.setdefault(H[p]["link"], set()).add(p)
            mg.setdefault(M[p]["ino"], set()).add(p)
    reported = set()
    for p in sorted(expect):
        if p not in M or H[p]["kind"] == "dir" or p == b"/" or H[p]["link"] not in hg:
            continue
        a = hg[H[p]["link"]]
        b = mg[M[p]["ino"]]
        if len(a) > 1:
            cnt("cmp_linkgroup_members")
        if a != b and M[p]["ino"] not in reported and H[p]["link"] not in reported:
            reported.add(M[p]["ino"])
            reported.add(H[p]["link"])
            d.append(("linkgroup", H[p]["kind"], p, "host group %r image group %r" %
                      (sorted(a)[:4], sorted(b)[:4])))
    cnt("cmp_linkgroups", sum(1 for g in hg.values() if len(g) > 1))
    return d


def compare_rdump(H, R, stats, M=None):
    """the extracted tree R against the host tree H for regular files, directories, symlinks;
    M (image manifest) only labels regular files stored as inline data"""
    d = []

    def cnt(k, n=1):
        stats[k] = stats.get(k, 0) + n

    for p in sorted(H):
        h = H[p]
        k = h["kind"]
        if p == b"/" or k not in ("reg", "dir", "lnk"):
            continue
        r = R.get(p)
        lab = "reg-inline" if (k == "reg" and M and p in M and M[p].get("inline")) else k
        if r is None:
            d.append(("missing", lab, p, "not extracted"))
            continue
        cnt("rdump_" + k)
        if r["kind"] != k:
            d.append(("type", lab, p, "extracted as %s" % r["kind"]))
            continue
        if k == "reg":
            cnt("rdump_bytes", h["size"])
            if r["size"] != h["size"]:
                d.append(("size", lab, p, "source %d extracted %d" % (h["size"], r["size"])))
            elif r["sha"] != h["sha"]:
                d.append(("content", lab, p, "sha256 differs (size %d)" % h["size"]))
        if k == "lnk" and r["target"] != h["target"]:
            d.append(("target", lab, p, "%r vs %r" % (h["target"][:40], r["target"][:40])))
        if k != "lnk" and (r["mode"] & 0o777) != (h["mode"] & 0o777):
            d.append(("perm", lab, p, "source %o extracted %o" % (h["mode"] & 0o777, r["mode"] & 0o777)))
        for a in ("uid", "gid"):
            if r[a] != h[a]:
                d.append((a, lab, p, "source %d extracted %d" % (h[a], r[a])))
    for p in sorted(R):
        if p == b"/" or p == b"/lost+found" or p.startswith(b"/lost+found/"):
            continue
        if p not in H:
            d.append(("extra", R[p]["kind"], p, "extracted object without a source"))
        elif H[p]["kind"] not in ("reg", "dir", "lnk"):
            d.append(("extra", R[p]["kind"], p, "source is a %s" % H[p]["kind"]))
    return d


# ---------------------------------------------------------------------------------------
# running the tools

def q(b):
    """a debugfs (libss) argument: quoted, embedded quotes doubled"""
    return b'"' + b.replace(b'"', b'""') + b'"'


def mkfs_args(b, fs, img, kb, ninodes, src=None):
    a = [b.tool("mke2fs"), "-q", "-F", "-U", UUID, "-E", "hash_seed=" + HASH_SEED, "-N", str(ninodes)]
    a += fs["args"].split()
    if src is not None:
        a += ["-d", src]
    a += [img, str(kb)]
    return a


def fresh(path, kb):
    if os.path.exists(path):
        os.unlink(path)
    with open(path, "wb") as f:
        f.truncate(kb * 1024)


def image_kb(H, fs):
    cl = fs["cl"]
    need = 0
    n = 0
    for p, h in H.items():
        n += 1
        need += cl if h["xattrs"] else 0
        if h["kind"] == "reg":
            need += ((h["size"] + cl - 1) // cl) * cl + (fs["bs"] * 2 if h["size"] > 12 * fs["bs"] else 0)
        elif h["kind"] == "dir":
            need += ((h.get("namebytes", 0) * 2 + 64 + cl - 1) // cl + 2) * cl
        elif h["kind"] == "lnk":
            need += cl
    ninodes = n + 40
    total = int(need * 1.3) + fs["jmb"] * (1 << 20) + ninodes * fs["isz"] * 2 + (6 << 20)
    kb = (total + (1 << 20) - 1) // (1 << 20) * 1024
    return max(kb, 16 * 1024), ninodes


ENOSPC_RE = re.compile(r"No space|no free (blocks|inodes)|Could not allocate|ENOSPC|Insufficient space|filesystem too small|"
                       r"too small|not enough space", re.I)


def norm_msg(s, n=90):
    s = s.strip().split("\n")[0] if s.strip() else ""
    s = re.sub(r"/dev/shm/\S+", "<path>", s)
    s = re.sub(r'"[^"]*"', '""', s)
    s = re.sub(r"\d+", "#", s)
    return s[:n]


def fsck_first_problem(text):
    for line in text.split("\n"):
        l = line.strip()
        if not l or l.startswith("Pass ") or l.startswith("e2fsck ") or "WARNING: Filesystem still has" in l:
            continue
        l = re.sub(r"\([^)]*\)", "()", l)
        l = re.sub(r"'[^']*'", "''", l)
        l = re.sub(r"\d+", "#", l)
        l = re.sub(r"\s*(Fix|Clear|Salvage|Relocate|Recreate|Connect to /lost\+found|Delete file|"
                   r"Truncate|Abort|Ignore error|Optimize)\? no.*$", "", l)
        return l[:90]
    return "(no message)"


def consistent(b, env, img, wdir, tag):
    """oracle 2.  Returns [(keypart, what)]"""
    out = []
    log = os.path.join(wdir, tag + ".xml")
    r = run.run([b.tool("e2fsck"), "-fn", "-E", "problem_log=" + log, img], env=env, timeout=300)
    if r.timed_out:
        return [("timeout", "e2fsck -fn timed out")]
    if r.rc != 0:
        codes = fsckpair.problem_codes(log)
        out.append(("e2fsck-fn " + fsck_first_problem(r.text),
                    "e2fsck -fn exit %s codes %s: %s" % (r.rc, codes[:6], r.text[-700:])))
    try:
        os.unlink(log)
    except OSError:
        pass
    keys, det = fsckpair.pycheck(img)
    if keys:
        if "ORACLE-CRASH" in keys:
            out.append(("harness", "pyext4 checker crashed: %s" % det))
        else:
            out.append(("pycheck " + ",".join(keys)[:80], "independent checker: %s" % det))
    return out


def first_diff(p1, p2):
    off = 0
    with open(p1, "rb") as a, open(p2, "rb") as b:
        while True:
            x = a.read(1 << 20)
            y = b.read(1 << 20)
            if x != y:
                for i in range(min(len(x), len(y))):
                    if x[i] != y[i]:
                        return off + i
                return off + min(len(x), len(y))
            if not x:
                return -1
            off += len(x)


def where_in_image(img, off):
    try:
        from vf.pyext4 import meta as M
        with I.Image(img) as im:
            for o in M.metadata_map(im):
                if o.off <= off < o.off + o.length:
                    return "%s(ino=%s group=%s)+%d" % (o.kind, o.ino, o.group, off - o.off)
    except Exception as e:        # diagnostics only
        return "?(%s)" % type(e).__name__
    return "data/unclassified"


# ---------------------------------------------------------------------------------------
# route B: a debugfs script that rebuilds the host tree

def inexpressible_B(H):
    """{path: reason} of host objects that a debugfs command file cannot create"""
    bad = {}
    for p in sorted(H):
        h = H[p]
        if p == b"/":
            continue
        parent = p.rsplit(b"/", 1)[0] or b"/"
        if parent in bad:
            bad[p] = "parent"
        elif b"\n" in p or b"\r" in p:
            bad[p] = "newline in name"
        elif h["kind"] == "sock":
            bad[p] = "socket"
        elif h["kind"] in ("chr", "blk") and (h["rdev"][0] > 65535 or h["rdev"][1] > 65535):
            bad[p] = "device number > 65535"
        elif h["kind"] == "lnk" and (b"\n" in h["target"] or b"\r" in h["target"]):
            bad[p] = "newline in target"
        elif h["kind"] == "lnk" and len(b"symlink " + q(p) + b" " + q(h["target"])) > 8000:
            bad[p] = "line too long"          # debugfs reads command lines into a BUFSIZ buffer
    return bad


def script_B(H, root, expect, valdir, expand=False):
    lines = []
    post = []
    groups = {}
    for p in sorted(expect):
        if p != b"/" and H[p]["kind"] != "dir":
            groups.setdefault(H[p]["link"], []).append(p)
    nval = 0
    ops = {}

    def op(k, n=1):
        ops[k] = ops.get(k, 0) + n

    for p in sorted(expect):
        h = H[p]
        k = h["kind"]
        first = None
        if p != b"/":
            if k != "dir":
                g = groups[h["link"]]
                if g[0] != p:
                    if expand:
                        # debugfs ln does not grow a full directory by itself
                        lines.append(b"expand_dir " + q(p.rsplit(b"/", 1)[0] or b"/"))
                        op("expand_dir")
                    lines.append(b"ln " + q(g[0]) + b" " + q(p))
                    op("ln")
                    continue
                first = g
            parent, name = p.rsplit(b"/", 1)
            if k == "dir":
                lines.append(b"mkdir " + q(p))
                op("mkdir")
            elif k == "reg":
                lines.append(b"write " + q(root + p) + b" " + q(p))
                op("write")
            elif k == "lnk":
                lines.append(b"symlink " + q(p) + b" " + q(h["target"]))
                op("symlink")
            else:
                lines.append(b"cd " + q(parent or b"/"))
                if k == "fifo":
                    lines.append(b"mknod " + q(name) + b" p")
                else:
                    lines.append(b"mknod " + q(name) + (b" c " if k == "chr" else b" b ") +
                                 b"%d %d" % h["rdev"])
                lines.append(b'cd "/"')
                op("mknod_" + k)
            tbits = {"dir": 0o040000, "reg": 0o100000, "lnk": 0o120000, "chr": 0o020000, "blk": 0o060000,
                     "fifo": 0o010000}[k]
            post.append(b"sif " + q(p) + b" mode 0%o" % (tbits | h["mode"]))
            post.append(b"sif " + q(p) + b" uid %d" % h["uid"])
            post.append(b"sif " + q(p) + b" gid %d" % h["gid"])
            post.append(b"sif " + q(p) + b" mtime @%d" % h["mtime"])
            op("sif", 4)
            if first and len(first) > 1:
                post.append(b"sif " + q(p) + b" links_count %d" % len(first))
                op("sif")
        for name in sorted(h["xattrs"]):
            vf = os.path.join(valdir, b"v%d" % nval)
            nval += 1
            with open(vf, "wb") as f:
                f.write(h["xattrs"][name])
            post.append(b"ea_set -f " + q(vf) + b" " + q(p) + b" " + q(name))
            op("ea_set")
    return b"\n".join(lines + post) + b"\n", ops


def tool_stderr(r):
    """stderr of debugfs without its version banner"""
    return "\n".join(l for l in r.etext.split("\n") if l.strip() and not l.startswith("debugfs 1."))


# ---------------------------------------------------------------------------------------
# route T: tar input

def make_tar(root, H, tarpath):
    """Returns the set of host paths that the archive carries."""
    have = set([b"/"])
    with tarfile.open(tarpath, "w", format=tarfile.GNU_FORMAT, encoding="utf-8",
                      errors="surrogateescape") as tar:
        for p in sorted(H):
            if p == b"/" or H[p]["kind"] == "sock":
                continue
            parent = p.rsplit(b"/", 1)[0] or b"/"
            if parent not in have:
                continue
            full = root + p
            ti = tar.gettarinfo(name=os.fsdecode(full), arcname=os.fsdecode(p[1:]))
            if ti is None:
                continue
            ti.uname = ti.gname = ""
            if ti.isreg():
                with open(full, "rb") as f:
                    tar.addfile(ti, f)
            else:
                tar.addfile(ti)
            have.add(p)
    return have


def libarchive_status(b):
    cfg = os.path.join(b.root, "lib", "config.h")
    try:
        txt = open(cfg).read()
    except OSError:
        return False, "config.h unreadable"
    if not re.search(r"^#define HAVE_ARCHIVE_H 1", txt, re.M) or \
            re.search(r"^#define CONFIG_DISABLE_LIBARCHIVE", txt, re.M):
        return False, "built without libarchive support"
    if re.search(r"^#define CONFIG_DLOPEN_LIBARCHIVE 1", txt, re.M):
        import ctypes
        try:
            ctypes.CDLL("libarchive.so.13")
        except OSError:
            return False, "built with dlopen support but libarchive.so.13 does not load"
        return True, "dlopen(libarchive.so.13)"
    return True, "linked"


# ---------------------------------------------------------------------------------------
# one case = one tree x one feature set

def tree_params(seed, t):
    """(fs names, generator parameters) of tree number t"""
    n = len(FEATURE_SETS)
    rng = run.rng_for(seed, "C18-fs", t)
    off = run.rng_for(seed, "C18-rot").randrange(n)
    a = FEATURE_SETS[(2 * t + off) % n]
    b2 = FEATURE_SETS[(2 * t + 1 + off + (rng.randrange(n - 1) // 2) * 2) % n]
    if b2 is a:
        b2 = FEATURE_SETS[(2 * t + 1 + off) % n]
    fss = [a["name"], b2["name"]]
    par = {"min_bs": min(FS_BY_NAME[x]["bs"] for x in fss),
           "small_inode": any(FS_BY_NAME[x]["isz"] == 128 for x in fss),
           "xdev": t % 4 == 1, "big": t % 4 == 2}
    return fss, par


def classify(H, bs):
    """which special kinds does the host tree contain"""
    sp = set()
    groups = {}
    for p, h in H.items():
        k = h["kind"]
        if p == b"/":
            continue
        if k == "reg":
            if any((b >= h["size"] and (h["size"] + bs - 1) // bs > (a + bs - 1) // bs) or
                   b // bs > (a + bs - 1) // bs for a, b in h["holes"]):
                sp.add("sparse")
        if k != "dir":
            groups.setdefault(h["link"], []).append(p)
        if k == "lnk" and len(h["target"]) >= 60:
            sp.add("longsymlink")
        if k in ("chr", "blk"):
            sp.add("device")
        if k == "fifo":
            sp.add("fifo")
        if k == "sock":
            sp.add("socket")
        if h["xattrs"]:
            sp.add("xattr")
        if k == "dir" and h.get("namebytes", 0) + 24 > bs:
            sp.add("bigdir")
    if any(len(g) > 1 for g in groups.values()):
        sp.add("hardlink")
    devs = set(h["link"][0] for h in H.values())
    if len(devs) > 1:
        inos = {}
        for p, h in H.items():
            if h["kind"] != "dir" and h["nlink"] > 1:
                inos.setdefault(h["link"][1], set()).add(h["link"][0])
        if any(len(v) > 1 for v in inos.values()):
            sp.add("xdev-ino-collision")
    return sp


def _case(arg):
    (seed, t, fsname, par, spec_override, tools_root, do_tar, wbase) = arg
    res = {"t": t, "fs": fsname, "viol": [], "counts": {}, "sets": {}, "inconclusive": [], "harness": [],
           "nontriv": None, "sample": None}
    mounts = []
    wdir = os.path.join(wbase, "c%d-%s" % (t, fsname))
    try:
        os.makedirs(wdir)
        _run_case(seed, t, fsname, par, spec_override, tools_root, do_tar, wdir, mounts, res)
    except Exception as e:
        import traceback
        res["harness"].append("case t=%d fs=%s crashed: %s" % (t, fsname, traceback.format_exc()[-900:]))
    finally:
        G.umount_all(mounts)
        shutil.rmtree(wdir, ignore_errors=True)
    if not res["viol"]:
        res.pop("spec", None)       # only failing cases carry their tree description home
    return res


def _run_case(seed, t, fsname, par, spec_override, tools_root, do_tar, wdir, mounts, res):
    b = build.Build(tools_root, "plain")
    env = run.base_env(b)
    fs = FS_BY_NAME[fsname]
    C = res["counts"]

    def cnt(k, n=1):
        C[k] = C.get(k, 0) + n

    def viol(key, what, **files):
        if not any(v[0] == key for v in res["viol"]):
            res["viol"].append((key, what, files))

    def mism(route, diffs, prefix="mismatch"):
        seen = {}
        for attr, kind, p, detail in diffs:
            if route == "A":
                badA.add(p)
            data_attr = attr in ("size", "size-eofhole", "content") or attr.startswith("hole-")
            key = "C18 %s %s %s %s%s" % (route, prefix, attr, kind, sfx if (route in "ABT" and data_attr) else "")
            seen.setdefault(key, []).append("%r: %s" % (p[-120:], detail))
        for key, l in seen.items():
            viol(key, "%d object(s), e.g. %s" % (len(l), " | ".join(l[:2])))

    sfx = " [inline_data]" if "inline_data" in fs["args"] else ""
    badA = set()          # objects that route A stored wrongly: not used to judge extraction
    if spec_override is not None:
        spec = spec_override
    else:
        spec = G.gen_spec(run.rng_for(seed, "C18-tree", t), min_bs=par["min_bs"],
                          small_inode=par["small_inode"], xdev=par["xdev"], big=par["big"],
                          scale=par.get("scale", 1.0))
    res["spec"] = spec
    root = os.fsencode(os.path.join(wdir, "tree"))
    G.materialise(spec, root, mounts)
    H = scan_host(root)
    sp = classify(H, fs["bs"])
    kinds = {}
    for p, h in H.items():
        kinds[h["kind"]] = kinds.get(h["kind"], 0) + 1
    for k, v in kinds.items():
        cnt("host_" + k, v)
    cnt("host_bytes", sum(h.get("size", 0) for h in H.values() if h["kind"] == "reg"))
    for s in sp:
        cnt("trees_with_" + s)
    nonutf = dash = 0
    for p in H:
        nm = p.rsplit(b"/", 1)[1]
        try:
            nm.decode("utf-8")
        except UnicodeDecodeError:
            nonutf += 1
        if nm[:1] in (b"-", b" "):
            dash += 1
    cnt("host_names_non_utf8", nonutf)
    cnt("host_names_leading_dash_or_space", dash)
    res["max_fanout"] = max([h.get("entries", 0) for h in H.values()] + [0])
    res["max_depth"] = max([p.count(b"/") for p in H if H[p]["kind"] == "dir" and p != b"/"] + [0])
    kb, ninodes = image_kb(H, fs)
    everything = set(H)

    # ---------------- route A (twice) ----------------
    imgA = os.path.join(wdir, "a1.img")
    imgA2 = os.path.join(wdir, "a2.img")
    okA = True
    for img in (imgA, imgA2):
        fresh(img, kb)
        r = run.run(mkfs_args(b, fs, img, kb, ninodes, os.fsdecode(root)), env=env, timeout=600)
        if r.timed_out:
            res["inconclusive"].append("mke2fs -d timeout t=%d %s" % (t, fsname))
            okA = False
            break
        if r.rc != 0 or r.sig:
            if ENOSPC_RE.search(r.etext) and not r.sig:
                res["harness"].append("image too small for tree t=%d %s (%d KiB): %s" %
                                      (t, fsname, kb, r.etext[-200:]))
            else:
                viol("C18 A populate failed " + norm_msg(r.etext), "mke2fs -d rc=%s sig=%s: %s" %
                     (r.rc, r.sig, r.etext[-600:]))
            okA = False
            break
        if r.etext.strip():
            # mke2fs -q succeeded but said something: populate warnings are failures to copy
            viol("C18 A populate warning " + norm_msg(r.etext), "mke2fs -d said: %s" % r.etext[-600:])
    MA = None
    if okA:
        cnt("route_A")
        try:
            MA, info = scan_image(imgA)
        except I.FormatError as e:
            viol("C18 A image unreadable", "independent reader: %s" % e)
        if MA is not None:
            st = {}
            mism("A", compare(H, MA, info, everything, stats=st))
            for k, v in st.items():
                cnt("A_" + k, v)
            if any(m["kind"] == "dir" and m["size"] > info["bs"] for m in MA.values()):
                cnt("A_images_with_multiblock_dir")
            if any(m.get("inline") for m in MA.values()):
                cnt("A_images_with_inline_data")
            res["sets"]["features"] = ",".join(info["features"])
        for keypart, what in consistent(b, env, imgA, wdir, "a1"):
            if keypart == "timeout":
                res["inconclusive"].append(what)
            elif keypart == "harness":
                res["harness"].append(what)
            else:
                viol("C18 A " + keypart, what)
        # oracle 3
        h1 = run.sha256_file(imgA)
        h2 = run.sha256_file(imgA2)
        cnt("repro_pairs")
        if h1 != h2:
            off = first_diff(imgA, imgA2)
            viol("C18 not reproducible", "two identical mke2fs -d runs differ first at byte %d: %s" %
                 (off, where_in_image(imgA, off)))
        os.unlink(imgA2)

        # ---------------- oracle 4: extraction ----------------
        outdir = os.path.join(wdir, "out")
        os.makedirs(outdir)
        r = run.run([b.tool("debugfs"), "-R", "rdump / " + outdir, imgA], env=env, timeout=600)
        if r.timed_out:
            res["inconclusive"].append("rdump timeout t=%d %s" % (t, fsname))
        else:
            cnt("rdump_runs")
            e = tool_stderr(r)
            if e or r.rc != 0:
                viol("C18 rdump error " + norm_msg(e), "rdump rc=%s: %s" % (r.rc, e[-600:]))
            R = scan_host(os.fsencode(outdir))
            st = {}
            mism("rdump", [x for x in compare_rdump(H, R, st, MA) if x[2] not in badA], prefix="mismatch")
            for k, v in st.items():
                cnt(k, v)
        shutil.rmtree(outdir, ignore_errors=True)
        # dump -p / cat on a sample of single files
        rng = run.rng_for(seed, "C18-sample", t, fsname)
        regs = [p for p in sorted(H) if H[p]["kind"] == "reg" and b"\n" not in p and b"\r" not in p
                and p not in badA]
        pick = []
        sparse = [p for p in regs if H[p]["holes"]]
        odd = [p for p in regs if p.rsplit(b"/", 1)[1][:1] in (b"-", b" ") or b'"' in p]
        for pool in (sparse, odd, regs, regs):
            if pool:
                c = rng.choice(pool)
                if c not in pick:
                    pick.append(c)
        for j, p in enumerate(pick):
            h = H[p]
            lab = "reg-inline" if (MA and p in MA and MA[p].get("inline")) else "reg"
            with open(root + p, "rb") as f:
                want = f.read()
            if h["size"] <= (1 << 20) - 4096:
                r, capped = run.run_capped_pipe([b.tool("debugfs"), "-R", b"cat " + q(p), imgA], env=env,
                                                timeout=120, cap=4 << 20)
                cnt("cat_files")
                cnt("cat_bytes", len(want))
                e = tool_stderr(r)
                if r.timed_out:
                    res["inconclusive"].append("cat timeout")
                elif r.out != want or e:
                    viol("C18 cat mismatch %s %s" % ("content" if len(r.out) == len(want) else "size", lab),
                         "cat %r returned %d bytes, source has %d; stderr %s" % (p[-80:], len(r.out), len(want), e[-200:]))
            of = os.path.join(wdir, "dump%d" % j)
            r = run.run([b.tool("debugfs"), "-R", b"dump -p " + q(p) + b" " + q(os.fsencode(of)), imgA],
                        env=env, timeout=120)
            cnt("dump_files")
            e = tool_stderr(r)
            if r.timed_out:
                res["inconclusive"].append("dump timeout")
                continue
            try:
                st_ = os.lstat(of)
                with open(of, "rb") as f:
                    got = f.read()
            except OSError:
                viol("C18 dump mismatch missing " + lab, "dump -p %r produced no file: %s" % (p[-80:], e[-200:]))
                continue
            os.unlink(of)
            if e:
                viol("C18 dump error " + norm_msg(e), "dump -p %r: %s" % (p[-80:], e[-300:]))
            if len(got) != len(want):
                viol("C18 dump mismatch size " + lab, "dump -p %r: %d bytes, source %d" % (p[-80:], len(got), len(want)))
            elif got != want:
                viol("C18 dump mismatch content " + lab, "dump -p %r: bytes differ" % p[-80:])
            if (st_.st_mode & 0o777) != (h["mode"] & 0o777):
                viol("C18 dump mismatch perm " + lab, "dump -p %r: source %o dumped %o" %
                     (p[-80:], h["mode"] & 0o777, st_.st_mode & 0o777))
            if st_.st_uid != h["uid"] or st_.st_gid != h["gid"]:
                viol("C18 dump mismatch owner " + lab, "dump -p %r: source %d:%d dumped %d:%d" %
                     (p[-80:], h["uid"], h["gid"], st_.st_uid, st_.st_gid))
        os.unlink(imgA)

    # ---------------- route B ----------------
    bad = inexpressible_B(H)
    expectB = everything - set(bad)
    for reason in bad.values():
        cnt("B_inexpressible_" + reason.replace(" ", "_"))
    imgB = os.path.join(wdir, "b.img")
    fresh(imgB, kb)
    r = run.run(mkfs_args(b, fs, imgB, kb, ninodes), env=env, timeout=300)
    if r.rc != 0:
        res["harness"].append("mke2fs (empty) failed t=%d %s: %s" % (t, fsname, r.etext[-300:]))
    else:
        valdir = os.fsencode(os.path.join(wdir, "vals"))
        os.makedirs(valdir)
        script, ops = script_B(H, root, expectB, valdir)
        sfile = os.path.join(wdir, "script.dbg")
        with open(sfile, "wb") as f:
            f.write(script)
        r = run.run([b.tool("debugfs"), "-w", "-f", sfile, imgB], env=env, timeout=600, cap=8 << 20)
        if "make_link: No free space in the directory" in r.etext:
            # `ln` (unlike mkdir/write/symlink/mknod) never expands the directory: start again
            # with an explicit expand_dir in front of every ln
            cnt("B_restart_with_expand_dir")
            script, ops = script_B(H, root, expectB, valdir, expand=True)
            with open(sfile, "wb") as f:
                f.write(script)
            fresh(imgB, kb)
            run.run(mkfs_args(b, fs, imgB, kb, ninodes), env=env, timeout=300)
            r = run.run([b.tool("debugfs"), "-w", "-f", sfile, imgB], env=env, timeout=600, cap=8 << 20)
        for k, v in ops.items():
            cnt("B_op_" + k, v)
        if r.timed_out:
            res["inconclusive"].append("debugfs script timeout t=%d %s" % (t, fsname))
        else:
            cnt("route_B")
            e = tool_stderr(r)
            okB = True
            if r.rc != 0 or r.sig or e:
                if ENOSPC_RE.search(e):
                    res["harness"].append("image too small for route B t=%d %s: %s" % (t, fsname, e[-200:]))
                    okB = False
                else:
                    viol("C18 B command error " + norm_msg(e), "debugfs -f rc=%s sig=%s: %s" % (r.rc, r.sig, e[-600:]),
                         **{"script.dbg": script})
            if okB:
                MB = None
                try:
                    MB, info = scan_image(imgB)
                except I.FormatError as e2:
                    viol("C18 B image unreadable", "independent reader: %s" % e2)
                if MB is not None:
                    st = {}
                    d = compare(H, MB, info, expectB, stats=st)
                    if d:
                        res.setdefault("files", {})["script.dbg"] = script
                    mism("B", d)
                    for k, v in st.items():
                        cnt("B_" + k, v)
                for keypart, what in consistent(b, env, imgB, wdir, "b"):
                    if keypart == "timeout":
                        res["inconclusive"].append(what)
                    elif keypart == "harness":
                        res["harness"].append(what)
                    else:
                        viol("C18 B " + keypart, what, **{"script.dbg": script})
                # oracle 3 for route B: the same script on the same empty filesystem
                imgB2 = os.path.join(wdir, "b2.img")
                fresh(imgB2, kb)
                r1 = run.run(mkfs_args(b, fs, imgB2, kb, ninodes), env=env, timeout=300)
                r2 = run.run([b.tool("debugfs"), "-w", "-f", sfile, imgB2], env=env, timeout=600, cap=8 << 20)
                if r1.timed_out or r2.timed_out:
                    res["inconclusive"].append("route B second build timeout")
                else:
                    cnt("repro_pairs_B")
                    if run.sha256_file(imgB) != run.sha256_file(imgB2):
                        off = first_diff(imgB, imgB2)
                        viol("C18 B not reproducible", "two identical debugfs script runs differ first at byte "
                             "%d: %s" % (off, where_in_image(imgB, off)), **{"script.dbg": script})
                os.unlink(imgB2)
    if os.path.exists(imgB):
        os.unlink(imgB)

    # ---------------- route T (tar) ----------------
    if do_tar:
        tarpath = os.path.join(wdir, "tree.tar")
        have = make_tar(root, H, tarpath)
        imgT = os.path.join(wdir, "t.img")
        fresh(imgT, kb)
        r = run.run(mkfs_args(b, fs, imgT, kb, ninodes, tarpath), env=env, timeout=600)
        if r.timed_out:
            res["inconclusive"].append("mke2fs -d tar timeout")
        elif r.rc != 0 or r.sig or r.etext.strip():
            viol("C18 T populate failed " + norm_msg(r.etext), "mke2fs -d tree.tar rc=%s sig=%s: %s" %
                 (r.rc, r.sig, r.etext[-600:]))
        else:
            cnt("route_T")
            try:
                MT, info = scan_image(imgT)
                st = {}
                mism("T", compare(H, MT, info, have, xattrs=False, holes=False, stats=st,
                                      linkkinds=("reg",)))
                for k, v in st.items():
                    cnt("T_" + k, v)
            except I.FormatError as e2:
                viol("C18 T image unreadable", "independent reader: %s" % e2)
            for keypart, what in consistent(b, env, imgT, wdir, "t"):
                if keypart == "timeout":
                    res["inconclusive"].append(what)
                elif keypart == "harness":
                    res["harness"].append(what)
                else:
                    viol("C18 T " + keypart, what)
        for f in (imgT, tarpath):
            if os.path.exists(f):
                os.unlink(f)

    need = set(SPECIAL_KINDS)
    if need <= sp:
        res["nontriv"] = "%s|%s|fan%d|depth%d|%s" % (
            fsname, ",".join("%s%d" % kv for kv in sorted(kinds.items())), res["max_fanout"],
            res["max_depth"], ",".join(sorted(sp - need)))
    res["sample"] = {"tree": t, "fs": fsname, "objects": kinds, "special": sorted(sp),
                     "max_fanout": res["max_fanout"], "max_depth": res["max_depth"], "image_kib": kb,
                     "B_inexpressible": len(bad), "counts": {k: v for k, v in C.items() if k.startswith("A_cmp")}}


# ---------------------------------------------------------------------------------------
# which copy path does create_inode take here (evidence only)

def copy_path_probe(b, env, w):
    strace = shutil.which("strace")
    if not strace:
        return "strace not installed"
    d = w.path("probe-tree")
    os.makedirs(d)
    G.write_file(os.path.join(d, "sparse"), 200000, 3, [(8192, 100, 1), (150000, 5000, 2)])
    img = w.path("probe.img")
    fresh(img, 8192)
    log = w.path("probe.strace")
    r = run.run([strace, "-f", "-e", "trace=lseek,ioctl", "-o", log] +
                mkfs_args(b, FS_BY_NAME["ext4_4k_i256"], img, 8192, 64, d), env=env, timeout=120)
    try:
        txt = open(log, errors="replace").read()
    except OSError:
        txt = ""
    for f in (img, log):
        if os.path.exists(f):
            os.unlink(f)
    shutil.rmtree(d, ignore_errors=True)
    if r.rc != 0 or not txt:
        return "strace unusable here (rc=%s)" % r.rc
    nd = txt.count("SEEK_DATA")
    nh = txt.count("SEEK_HOLE")
    nf = txt.count("FS_IOC_FIEMAP")
    return "try_lseek_copy: %d lseek(SEEK_DATA), %d lseek(SEEK_HOLE), %d FS_IOC_FIEMAP ioctls on a tmpfs source%s" % (
        nd, nh, nf, "" if nd else " (SEEK_DATA not used!)")


# ---------------------------------------------------------------------------------------

def main(tier, seed, replay=None, scale=1.0):
    rep = report.Report(
        "C18", tier, seed, "exploration",
        rule="seeded host trees x feature sets; every case builds the image by mke2fs -d (twice) and by a "
             "debugfs script, judges it with the independent reader against os.lstat/readlink/listxattr/"
             "SEEK_HOLE of the host tree, e2fsck -fn + pyext4 checker, sha256 of the two builds, and rdump/"
             "dump/cat against the source.  non-trivial = the host tree holds a sparse file, a hard-link "
             "group, a symlink >= 60 bytes, a device node, a fifo, a user xattr and a directory larger than "
             "one block; distinct by (feature set, object-kind histogram, fan-out, depth)")
    b = build.get_build("plain")
    env = run.base_env(b)
    avail, how = libarchive_status(b)
    rep.extra["libarchive"] = ("available: " + how) if avail else ("not available: " + how)
    base = os.path.join(build.scratch_base(), "work")
    for m in G.stale_mounts(os.fsencode(base) + b"/C18-"):
        G.umount_all([m])
    with run.Work("C18") as w:
        if replay:
            case = json.load(open(os.path.join(replay, "case.json")))["case"]
            sp_path = os.path.join(replay, "spec.json")
            spec = json.load(open(sp_path)) if os.path.exists(sp_path) and case.get("use_spec", True) else None
            items = [(case["seed"], case["tree"], case["fs"], case["par"], spec, b.root,
                      bool(case.get("tar")), w.dir)]
        else:
            n = max(2, int(BUDGET[tier] * scale))
            items = []
            for t in range(n):
                fss, par = tree_params(seed, t)
                if scale < 0.5:
                    par["scale"] = 0.6
                for j, fsname in enumerate(fss):
                    items.append((seed, t, fsname, par, None, b.root, avail and t % 4 == 3 and j == t % 2, w.dir))
            rep.extra["copy_path"] = copy_path_probe(b, env, w)
        results = run.pmap(_case, items)
        for it, r in zip(items, results):
            rep.case(r["nontriv"])
            rep.add("feature_sets", r["fs"])
            rep.count("cases")
            for k, v in r["counts"].items():
                rep.count(k, v)
            if "features" in r["sets"]:
                rep.add("feature_strings", r["sets"]["features"])
            rep.counters["host_max_fanout"] = max(rep.counters.get("host_max_fanout", 0), r.get("max_fanout", 0))
            rep.counters["host_max_depth"] = max(rep.counters.get("host_max_depth", 0), r.get("max_depth", 0))
            if r["sample"] and r["nontriv"]:
                rep.sample(r["sample"])
            for what in r["inconclusive"]:
                rep.note_inconclusive(what)
            for what in r["harness"]:
                rep.harness_error(what)
            case = {"seed": it[0], "tree": it[1], "fs": it[2], "par": it[3], "tar": it[6]}
            for key, what, files in r["viol"]:
                fl = {"spec.json": json.dumps(r.get("spec"), indent=0).encode()}
                fl.update(files or {})
                rep.violation(key, "tree %d on %s: %s" % (it[1], it[2], what), replay=case, files=fl)
    rep.assumptions = [
        "the root directory of the source tree is the container: only its user xattrs are compared",
        "holes: every filesystem block that lies wholly inside a host SEEK_HOLE range must be unmapped in "
        "the image (host granularity is the 4 KiB tmpfs page); nothing is demanded of host data blocks "
        "beyond their bytes (create_inode stores all-zero blocks as holes); inline-data files have no map",
        "route B cannot express: sockets, names/targets containing a newline or CR (line-oriented command "
        "file), device numbers > 65535 (do_mknod limit); those objects are left out of route B's expectation "
        "and counted as B_inexpressible_*",
        "route T (tar, GNU format written by Python tarfile): xattrs and holes not compared (the archive "
        "carries neither), sockets not carried",
        "atime is set into the future on the host tree so that relatime never changes the inputs between "
        "the two builds; ctime/atime/nanoseconds/directory sizes/lost+found are not compared",
        "an inline-data file whose i_size exceeds the stored inline area reads as zeros beyond it (what the "
        "kernel does); such files carry no block map, so no hole demand is made of them",
        "objects that route A stored wrongly are not used to judge rdump/dump/cat (no double reporting)",
        "keys: 'C18 <A|B|T> mismatch <attr> <kind>' (+ ' [inline_data]' for size/content/hole attributes on "
        "inline_data filesystems), 'C18 rdump|dump|cat mismatch <attr> <kind>' with kind reg-inline for "
        "files stored inline, 'C18 <route> e2fsck-fn <first problem>', 'C18 <route> pycheck <codes>', "
        "'C18 not reproducible' / 'C18 B not reproducible'",
        "quota and ea_inode are left out of the feature sets (known defects judged by C07 / C15)",
    ]
    return rep.finish()


# ---------------------------------------------------------------------------------------
# development aid:  python3 -m checks.C18 minimise <replay dir> ["key substring"]

def minimise(replaydir, keysub=None):
    cj = json.load(open(os.path.join(replaydir, "case.json")))
    case = cj["case"]
    key = keysub or cj["key"]
    spec = json.load(open(os.path.join(replaydir, "spec.json")))
    b = build.get_build("plain")

    def fails(s):
        with run.Work("C18-min") as w:
            r = _case((case["seed"], case["tree"], case["fs"], case["par"], s, b.root, bool(case.get("tar")), w.dir))
        return any(key in v[0] for v in r["viol"])

    if not fails(spec):
        print("does not reproduce")
        return 1
    s = dict(spec)
    s.pop("root_xattrs", None)
    if fails(s):
        spec = s
    n = 2
    idx = list(range(len(spec["objs"])))
    while len(idx) >= 1:
        chunk = max(1, len(idx) // n)
        progress = False
        for start in range(0, len(idx), chunk):
            trial = idx[:start] + idx[start + chunk:]
            cand = G.prune(spec, set(trial))
            if len(cand["objs"]) < len(G.prune(spec, set(idx))["objs"]) and fails(cand):
                idx = trial
                n = max(n - 1, 2)
                progress = True
                break
        if not progress:
            if chunk == 1:
                break
            n = min(len(idx), n * 2)
        print("objects left: %d" % len(G.prune(spec, set(idx))["objs"]))
        sys.stdout.flush()
    final = G.prune(spec, set(idx))
    out = os.path.join(replaydir, "spec.min.json")
    with open(out, "w") as f:
        json.dump(final, f, indent=1)
    print("minimal spec (%d objects) written to %s" % (len(final["objs"]), out))
    for o in final["objs"]:
        print("  ", json.dumps(o))
    return 0


if __name__ == "__main__":
    if len(sys.argv) >= 3 and sys.argv[1] == "minimise":
        sys.exit(minimise(sys.argv[2], sys.argv[3] if len(sys.argv) > 3 else None))
