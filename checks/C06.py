"""C06 - no memory-safety violation, crash or hang on arbitrary input.

ASan+UBSan(bounds) builds of every tool are driven over a finite universe of corrupted
inputs: structured/unstructured corruptions of the committed corpus (vf/corrupt.py),
corpus images with pending journal transactions whose journal blocks are corrupted,
filesystem + external journal pairs, undo files and qcow2 images (vf/c06gen.py).
One process per (case, tool); the verdict of a process is the sanitizer report, the
terminating signal, the exit status and the watchdog (vf/sanjudge.py)."""
import json
import os
import re
import shutil
import struct
import subprocess
import tempfile

from vf import build, run, report, zoo, corrupt, c06gen, c06run, sanjudge
from vf.pyext4 import image as I

TAG = "C06-v2"
# id ranges of the finite universe
N_FS, N_JI, N_XJ, N_UN, N_QC = 60000, 8000, 5000, 6000, 5000      # sized so that all of it can be soaked
RANGES = {"fs": (0, N_FS), "jrnl": (N_FS, N_FS + N_JI), "xjrnl": (N_FS + N_JI, N_FS + N_JI + N_XJ),
          "undo": (N_FS + N_JI + N_XJ, N_FS + N_JI + N_XJ + N_UN),
          "qcow": (N_FS + N_JI + N_XJ + N_UN, N_FS + N_JI + N_XJ + N_UN + N_QC)}
UNIVERSE = N_FS + N_JI + N_XJ + N_UN + N_QC
SHARE = {"fs": 0.70, "jrnl": 0.10, "xjrnl": 0.06, "undo": 0.08, "qcow": 0.06}
BUDGET = {"quick": 1500, "thorough": 84000}        # thorough = the whole universe
WATCHDOG = int(os.environ.get("VERIF_C06_WATCHDOG", "120"))      # soaks use a shorter one
WATCHDOG_RERUN = WATCHDOG * 5 // 2
PIPE_CAP = 8 << 20
RDUMP_FSIZE = 8 << 20
QCOW_RAW_FSIZE = 512 << 20

JRNL_BASES = ["ext3_1k", "ext4_1k", "ext4_4k", "ext4_nocsum", "ext4_32bit", "ext4_inline", "ext4_csumseed"]
UNDO_RECIPES = [("u_nojournal", "ext4_1k", "tune2fs", ["-O", "^has_journal"]),
                ("u_nocsum", "ext4_64groups", "tune2fs", ["-O", "^metadata_csum"]),
                ("u_debugfs4k", "ext2_4k", "debugfs", None),
                ("u_fsck", "ext4_flex4_g", "e2fsck", None),
                ("u_resize", "ext4_noflex", "resize2fs", ["6000"])]
QCOW_BASES = ["ext4_1k", "ext2_4k", "ext4_64groups", "ext4_2k_i512"]
EA_NAMES = ["user.small", "user.mid", "trusted.t1", "user.a", "security.sel", "user.dirattr",
            "user.big", "user.huge", "system.data"]

_BANNER = re.compile(rb"^\S+ \d+\.\d+(\.\d+)?(-\S+)? \(\d+-\w+-\d+\)\s*$")
_CACHE = {}


def class_of(cid):
    for k, (lo, hi) in RANGES.items():
        if lo <= cid < hi:
            return k
    raise ValueError(cid)


def san_env(b):
    env = run.base_env(b)
    env["ASAN_OPTIONS"] = env.get("ASAN_OPTIONS", "") + ":" + sanjudge.ASAN_EXTRA
    return env


# ---------------------------------------------------------------------------------------
# bases (built once per run by the tools under test; every step is judged)

class BaseFail(Exception):
    pass


def _step(ctx, problems, binary, argv, stdin=None, ok=(0,), what=""):
    r = run.run([ctx["tools"][binary]] + argv, env=ctx["env"], timeout=300, stdin=stdin)
    v = sanjudge.judge(binary, r, root=ctx["root"])
    if v["verdict"] == "violation":
        problems.append({"binary": binary, "v": v, "argv": argv, "what": what})
        raise BaseFail(what)
    if r.timed_out or r.rc not in ok:
        raise BaseFail("%s: %s %s rc=%s %s" % (what, binary, argv, r.rc, (r.text + r.etext)[-300:]))
    return r


def _free_run(path, want):
    """first block of a run of `want` free blocks (non-bigalloc images)"""
    with I.Image(path) as img:
        for g in range(img.groups - 1, -1, -1):
            bm = img.block_bitmap(g)
            if bm is None:
                continue
            n = img.group_blocks(g)
            run_len = 0
            for k in range(n):
                if bm[k >> 3] >> (k & 7) & 1:
                    run_len = 0
                else:
                    run_len += 1
                    if run_len >= want:
                        return img.group_first_block(g) + k - want + 1
    return None


def _journal_script(first, jopen):
    a = first
    return "\n".join([jopen, "jw -b %d-%d /dev/zero" % (a, a + 40), "jc",
                      jopen, "jw -b %d-%d /dev/zero" % (a + 50, a + 53),
                      "jw -r %d-%d" % (a + 10, a + 20), "jc",
                      jopen, "jw -r %d-%d" % (a + 100, a + 420), "jw -b %d /dev/zero" % (a + 60), "jc",
                      ""]).encode()


def _no_journal(img):
    """tune2fs refuses to drop the journal of a filesystem that keeps an orphan file"""
    with I.Image(img) as im:
        return "^has_journal,^orphan_file" if im.sb.has_compat("orphan_file") else "^has_journal"


def build_bases(ctx, bdir, corpus):
    """returns (bases, problems).  bases[cls][name] = {role: path, ...}"""
    os.makedirs(bdir, exist_ok=True)
    bases = {"jrnl": {}, "xjrnl": {}, "undo": {}, "qcow": {}}
    problems = []
    harness = []

    def attempt(f, *a):
        try:
            f(*a)
        except BaseFail as e:
            harness.append(str(e))

    # corpus images with three pending transactions (data, data+revoke, long revoke list)
    def jr(name, variant):
        dst = os.path.join(bdir, "%s.j%d.img" % (name, variant))
        shutil.copyfile(corpus[name], dst)
        first = _free_run(dst, 480)
        if first is None:
            raise BaseFail("no free run in " + name)
        _step(ctx, problems, "debugfs", ["-w", "-f", "-", dst],
              stdin=_journal_script(first, "jo -c" if variant else "jo"), what="journal writer " + name)
        bases["jrnl"]["%s.j%d" % (name, variant)] = {"img": dst}
    for i, name in enumerate(JRNL_BASES):
        if name in corpus:
            attempt(jr, name, i % 2)

    # filesystem + external journal device
    def xj(name, src, jblocks, csum, users):
        img = os.path.join(bdir, "x_%s.img" % name)
        jnl = os.path.join(bdir, "x_%s.jnl" % name)
        shutil.copyfile(corpus[src], img)
        with I.Image(img) as im:
            bs = im.bs
            fsuuid = im.sb.s_uuid
        with open(jnl, "wb") as f:
            f.truncate(jblocks * bs)
        juuid = "11111111-2222-3333-4444-5555555555%02d" % len(bases["xjrnl"])
        _step(ctx, problems, "mke2fs", ["-q", "-F", "-O", "journal_dev", "-b", str(bs), "-U", juuid, jnl],
              what="mke2fs journal_dev")
        _step(ctx, problems, "tune2fs", ["-O", _no_journal(img), img], what="drop internal journal")
        _step(ctx, problems, "debugfs", ["-w", "-f", "-", img],
              stdin=("ssv journal_inum 0\nfeature has_journal\nssv journal_dev 0x9999\n"
                     "ssv journal_uuid %s\n" % juuid).encode(), what="attach external journal")
        if users:
            jo = (2 if bs == 1024 else 1) * bs
            with open(jnl, "r+b") as f:
                f.seek(jo + 64)
                f.write(struct.pack(">I", 1))
                f.seek(jo + 0x100)
                f.write(fsuuid)
        _step(ctx, problems, "e2fsck", ["-fy", "-j", jnl, img], ok=(0, 1), what="settle pair")
        first = _free_run(img, 480)
        if first is None:
            raise BaseFail("no free run in pair " + name)
        _step(ctx, problems, "debugfs", ["-w", "-f", "-", img],
              stdin=_journal_script(first, "jo %s-f %s" % ("-c " if csum else "", jnl)),
              what="external journal writer")
        bases["xjrnl"][name] = {"img": img, "jnl": jnl}
    attempt(xj, "1k", "ext4_1k", 2048, False, False)
    attempt(xj, "4k_csum", "ext4_stride", 1024, True, True)
    attempt(xj, "nocsum_users", "ext4_nocsum", 1024, False, True)
    # the repository's committed pair
    tdir = os.path.join(build.REPO, "tests", "f_ext_journal")
    if os.path.exists(os.path.join(tdir, "image.gz")) and os.path.exists(os.path.join(tdir, "journal.gz")):
        pair = {}
        for role, fn in (("img", "image.gz"), ("jnl", "journal.gz")):
            dst = os.path.join(bdir, "x_repo." + role)
            with open(dst, "wb") as out:
                subprocess.run(["gzip", "-dc", os.path.join(tdir, fn)], stdout=out, check=True)
            pair[role] = dst
        bases["xjrnl"]["repo_f_ext_journal"] = pair

    # undo files: (image after the operation, undo file of the operation)
    def un(name, src, tool, args):
        img = os.path.join(bdir, "%s.img" % name)
        undo = os.path.join(bdir, "%s.undo" % name)
        shutil.copyfile(corpus[src], img)
        if tool == "tune2fs":
            if args == ["-O", "^has_journal"]:
                args = ["-O", _no_journal(img)]
            _step(ctx, problems, "tune2fs", ["-z", undo] + args + [img], what="undo by tune2fs")
        elif tool == "debugfs":
            _step(ctx, problems, "debugfs", ["-w", "-z", undo, "-f", "-", img],
                  stdin=b"mkdir /c06dir\nwrite /dev/null /c06dir/empty\nsymlink /c06dir/l /x/y\n"
                        b"rm /lost+found\n", what="undo by debugfs")
        elif tool == "e2fsck":
            with I.Image(img) as im:
                gd = im.group_descs()
                offs = [gd[1].block_bitmap * im.bs, gd[2].inode_bitmap * im.bs, gd[0].inode_table * im.bs + im.bs]
                bs = im.bs
            with open(img, "r+b") as f:
                for o in offs:
                    f.seek(o)
                    f.write(b"\xa5" * bs)
            _step(ctx, problems, "e2fsck", ["-fy", "-z", undo, img], ok=(0, 1, 2, 3, 4, 5, 6, 7, 8, 12),
                  what="undo by e2fsck")
        elif tool == "resize2fs":
            _step(ctx, problems, "resize2fs", ["-z", undo, img] + args, what="undo by resize2fs")
        if not os.path.exists(undo) or os.path.getsize(undo) < 2048:
            raise BaseFail("no undo file from " + tool)
        bases["undo"][name] = {"img": img, "undo": undo}
    for name, src, tool, args in UNDO_RECIPES:
        if src in corpus:
            attempt(un, name, src, tool, args)

    def qc(name):
        dst = os.path.join(bdir, "%s.qcow2" % name)
        _step(ctx, problems, "e2image", ["-Q", corpus[name], dst], what="e2image -Q " + name)
        bases["qcow"][name] = {"qcow": dst}
    for name in QCOW_BASES:
        if name in corpus:
            attempt(qc, name)
    return bases, problems, harness


# ---------------------------------------------------------------------------------------
# per-worker caches

def _fs_universe(ctx):
    if "fsu" not in _CACHE:
        _CACHE["fsu"] = corrupt.Universe(TAG, ctx["corpus"], N_FS)
    return _CACHE["fsu"]


def _jr_universe(ctx):
    if "jru" not in _CACHE:
        _CACHE["jru"] = corrupt.Universe(TAG + "-jrnl", {n: d["img"] for n, d in ctx["bases"]["jrnl"].items()},
                                         N_JI)
    return _CACHE["jru"]


def _jview_internal(ctx, name):
    k = ("jv", name)
    if k not in _CACHE:
        inf = _jr_universe(ctx).info(name)
        objs = sorted(inf.by_kind.get("journal", []), key=lambda o: o.lblk)
        offs = [o.off for o in objs]
        jino = inf.journal_inum or 8
        _CACHE[k] = (c06gen.JournalView(inf.path, inf.bs, offs, 0), inf.inodes.get(jino, {}).get("off"))
    return _CACHE[k]


def _jview_external(ctx, name):
    k = ("xv", name)
    if k not in _CACHE:
        d = ctx["bases"]["xjrnl"][name]
        raw = c06gen.rd(d["jnl"], 1024, 1024)
        bs = 1024 << min(6, struct.unpack_from("<I", raw, 24)[0])
        n = os.path.getsize(d["jnl"]) // bs
        _CACHE[k] = c06gen.JournalView(d["jnl"], bs, [i * bs for i in range(n)], 2 if bs == 1024 else 1)
    return _CACHE[k]


def _profile(inf):
    """a few inodes of a base image that exercise different code: htree directories,
    deep extent trees, inline data, xattr blocks, EA inodes, indirect-mapped files"""
    k = ("prof", inf.path)
    if k in _CACHE:
        return _CACHE[k]
    pick = []

    def take(cands, n):
        for ino in cands[:n]:
            if ino not in pick:
                pick.append(ino)
    ins = inf.inodes
    inos = sorted(i for i in ins if i >= inf.first_ino)
    take([i for i in inos if ins[i]["flags"] & I.FL_INDEX], 2)
    take([o.ino for o in inf.by_kind.get("ext_node", [])], 1)
    take([o.ino for o in inf.by_kind.get("ind_block", []) if o.ino >= inf.first_ino], 1)
    take([i for i in inos if ins[i]["flags"] & I.FL_INLINE_DATA], 2)
    take([o.ino for o in inf.by_kind.get("xattr_block", [])], 2)
    take([i for i in inos if ins[i]["flags"] & I.FL_EA_INODE], 1)
    take([i for i in inos if ins[i]["fmt"] == 0o120000], 1)
    take(sorted(inos, key=lambda i: -ins[i]["size"]), 1)
    _CACHE[k] = pick
    return pick


# ---------------------------------------------------------------------------------------
# running and judging one process

class Runner:
    def __init__(self, ctx, only=None, timeout=WATCHDOG):
        self.ctx, self.only, self.timeout = ctx, only, timeout
        self.procs = []

    def p(self, label, binary, argv, capped=False, fsize=None, quiet_stderr=False):
        if self.only and label != self.only:
            return None
        full = [self.ctx["tools"][binary]] + argv
        res = c06run.execute(full, env=self.ctx["env"], timeout=self.timeout,
                             stdout_cap=PIPE_CAP if capped else None, fsize=fsize)
        was_capped = res.capped
        v = sanjudge.judge(binary, res, root=self.ctx["root"])
        err = [l for l in res.err.split(b"\n") if l.strip() and not _BANNER.match(l)]
        noticed = (res.rc not in (0, None)) or (bool(err) and not quiet_stderr)
        if v.get("capped"):
            was_capped = True
            noticed = bool(err) and not quiet_stderr
        rec = {"label": label, "bin": binary, "rc": res.rc, "sig": res.sig, "to": res.timed_out,
               "capped": was_capped, "noticed": noticed, "v": v if v["verdict"] else None,
               "wall": round(res.wall, 2)}
        self.procs.append(rec)
        return res


def _rm(*paths):
    for p in paths:
        try:
            if os.path.isdir(p) and not os.path.islink(p):
                # rdump of a directory cycle nests thousands of levels: too deep for shutil
                subprocess.run(["rm", "-rf", p], stderr=subprocess.DEVNULL)
            else:
                os.unlink(p)
        except OSError:
            pass


def debugfs_scripts(targets, blocks, outdir):
    """(main script, journal script, cat script, rdump script) - read-only commands.
    targets: [(ino, S_IFMT bits of the inode in the uncorrupted base)].  Directory commands
    are only applied to inodes that are directories in the base: what such a command does
    with a regular file's data is a usage question, not an input-robustness one."""
    t = [i for i, _, _ in targets]
    dirs = [i for i, f, _ in targets if f == 0o040000]
    files = [i for i, f, _ in targets if f in (0o100000, 0o120000)]
    ext = [i for i, _, fl in targets if fl & I.FL_EXTENTS]
    a = ["stats", "stats -h", "ls -l /", "ls -ld /", "ls -p /"]
    for ino in [2, 7, 8, 11, 12, 13] + t:
        a.append("stat <%d>" % ino)
    for ino in [2, 12] + t:
        a += ["ex <%d>" % ino, "ex -n <%d>" % ino, "bmap <%d> 0" % ino, "bmap <%d> 1000" % ino,
              "blocks <%d>" % ino, "ea_list <%d>" % ino, "inode_dump -b <%d>" % ino,
              "inode_dump -e <%d>" % ino, "inode_dump -x <%d>" % ino, "imap <%d>" % ino,
              "filefrag -v <%d>" % ino, "testi <%d>" % ino]
    for ino in ext[:2]:
        # (these sub-commands only exist while an extent handle is open: keep the number of
        # possibly unknown commands far below 64, debugfs exits with their count)
        a += ["extent_open <%d>" % ino, "info", "root", "next", "next", "next", "next_leaf", "last_leaf",
              "prev", "prev_leaf", "goto_block 5", "current_node", "print_all", "extent_close"]
    for ino in t[:6]:
        for nm in EA_NAMES[:5]:
            a.append("ea_get <%d> %s" % (ino, nm))
    for ino in dirs[:5]:
        a += ["ls -l <%d>" % ino, "htree_dump <%d>" % ino, "dirsearch <%d> x" % ino,
              "dirsearch <%d> f0001" % ino]
    a += ["htree_dump /", "htree_dump /many", "ls -l /many", "ls -l /xa", "ea_list /xa/f1", "ea_list /xa/f2",
          "ea_list /xa/big", "ea_list /xa"]
    for nm in EA_NAMES:
        a.append("ea_get /xa/f1 %s" % nm)
    a += ["ea_get /xa/big user.big", "ea_get /xa/big user.huge", "ea_get -x /xa/f2 user.a",
          "ea_get /xa user.dirattr"]
    a += ["icheck %s" % " ".join(str(b) for b in blocks), "ncheck 12 13 %s" % " ".join(str(i) for i in t[:6]),
          "ncheck -c 12 %s" % " ".join(str(i) for i in t[:3]),
          "dx_hash -h half_md4 hello", "dx_hash -h tea -s 1234 world", "dx_hash -h legacy x",
          "lsdel", "dirsearch / x", "dirsearch /many f0001", "ffb 4", "ffb 8 100", "ffi", "ffi / 0644",
          "testb 100 10", "testb %d" % blocks[0], "freefrag", "freefrag -c 64", "dump_mmp",
          "list_quota user", "list_quota group", "list_quota project", "get_quota user 0", "get_quota group 1000",
          "supported_features", "show_debugfs_params", "filefrag -dvr /", "orphan_inodes"]
    for b in blocks[:4]:
        a += ["block_dump %d" % b, "block_dump -x %d" % b]
    j = ["logdump -a", "logdump -S", "logdump -O -S", "logdump -c", "logdump -a -O -n 4", "logdump -b %d" % blocks[0],
         "logdump -i <12>"]
    c = []
    for ino in files[:6]:
        c.append("cat <%d>" % ino)
    if files:
        c.append("dump -p <%d> %s/dumped" % (files[0], outdir))
    c.append("dump_unused")
    r = ["rdump / %s" % outdir]
    return a, j, c, r


def _write_script(path, lines):
    with open(path, "w") as f:
        f.write("\n".join(lines) + "\n")


def _fs_tools(R, ctx, img, workdir, tag, targets, blocks, jnl=None):
    """the full tool set on one filesystem image (fs and jrnl classes)"""
    out = os.path.join(workdir, tag + ".out")
    R.p("e2fsck -fn", "e2fsck", ["-fn", img])
    R.p("dumpe2fs", "dumpe2fs", [img])
    R.p("dumpe2fs -x", "dumpe2fs", ["-x", img])
    R.p("tune2fs -l", "tune2fs", ["-l", img])
    R.p("resize2fs -P", "resize2fs", ["-P", img])
    R.p("e2image -r", "e2image", ["-r", img, out])
    _rm(out)
    R.p("e2image -Q", "e2image", ["-Q", img, out])
    _rm(out)
    R.p("e2freefrag", "e2freefrag", [img])
    odir = os.path.join(workdir, tag + ".rd")
    a, j, c, r = debugfs_scripts(targets, blocks, odir)
    sp = os.path.join(workdir, tag + ".cmd")
    for label, lines, fsize in (("debugfs script", a, None), ("debugfs logdump", j, None),
                                ("debugfs cat", c, RDUMP_FSIZE), ("debugfs rdump", r, RDUMP_FSIZE)):
        if R.only and R.only != label:
            continue
        _write_script(sp, lines)
        if fsize:
            os.makedirs(odir, exist_ok=True)
        R.p(label, "debugfs", ["-f", sp, img], capped=True, fsize=fsize, quiet_stderr=True)
        _rm(odir)
    _rm(sp)
    cp = os.path.join(workdir, tag + ".cp")
    for label, opt in (("e2fsck -fp", "-fp"), ("e2fsck -fy", "-fy")):
        if R.only and R.only != label:
            continue
        shutil.copyfile(img, cp)
        R.p(label, "e2fsck", [opt, cp])
    _rm(cp)


def _targets_from_descr(descr):
    inos, blocks = [], []
    for d in descr:
        s = str(d[3]) if len(d) > 3 else ""
        for m in re.finditer(r"\b(?:ino|dir)(\d+)", s):
            v = int(m.group(1))
            if 0 < v < (1 << 32) and v not in inos:
                inos.append(v)
        for m in re.finditer(r"\bblk(\d+)", s):
            v = int(m.group(1))
            if v not in blocks:
                blocks.append(v)
    return inos[:4], blocks[:3]


def make_case(ctx, cid):
    """-> (case dict in c06gen form, base role paths, fs-universe info or None)"""
    cls = class_of(cid)
    if cls == "fs":
        u = _fs_universe(ctx)
        c = u.case(cid, "bytes" if cid % 4 == 3 else "all")
        case = {"cid": cid, "cls": "fs", "base": c.image, "files": {"img": list(c.patches)}, "truncate": {},
                "descr": [tuple(d) for d in c.descr]}
        if cid % 6 == 1:
            # a geometry-bearing superblock field on top, with a valid superblock checksum
            pp, d = c06gen.sb_geom_op(run.rng_for(0, TAG, "sbgeom", cid), u.paths[c.image])
            case["files"]["img"] = pp + case["files"]["img"] if cid % 12 == 1 else pp
            case["descr"] = [d] + (case["descr"] if cid % 12 == 1 else [])
        if cid % 41 == 7:
            inf = u.info(c.image)
            rng = run.rng_for(0, TAG, "trunc", cid)
            t = rng.choice([0, 1024, 1536, 2048, 4096, inf.bs * rng.randrange(1, max(2, inf.size // inf.bs)),
                            rng.randrange(inf.size)])
            case["truncate"]["img"] = t
            case["descr"].append(("image_file", "file", "truncate", "to %d" % t))
        return case, {"img": u.paths[c.image]}, u.info(c.image)
    if cls == "jrnl":
        u = _jr_universe(ctx)
        names = u.names
        name = names[cid % len(names)]
        jv, jino_off = _jview_internal(ctx, name)

        def extra(rng):
            c = u.case(cid, "all")
            return list(c.patches), [tuple(d) for d in c.descr]
        case = c06gen.gen_journal_case(TAG, "jrnl", cid, name, jv, "img", u.paths[name], jino_off, extra)
        return case, {"img": u.paths[name]}, u.info(name)
    if cls == "xjrnl":
        names = sorted(ctx["bases"]["xjrnl"])
        name = names[cid % len(names)]
        d = ctx["bases"]["xjrnl"][name]
        jv = _jview_external(ctx, name)
        case = c06gen.gen_journal_case(TAG, "xjrnl", cid, name, jv, "jnl", d["img"])
        return case, d, None
    if cls == "undo":
        names = sorted(ctx["bases"]["undo"])
        name = names[cid % len(names)]
        d = ctx["bases"]["undo"][name]
        return c06gen.gen_undo_case(TAG, cid, name, d["undo"], d["img"]), d, None
    names = sorted(ctx["bases"]["qcow"])
    name = names[cid % len(names)]
    d = ctx["bases"]["qcow"][name]
    return c06gen.gen_qcow_case(TAG, cid, name, d["qcow"]), d, None


def run_case(ctx, case, paths, inf, only=None, timeout=WATCHDOG, tag=None):
    workdir = ctx["workdir"]
    tempfile.tempdir = workdir
    tag = tag or "c%d" % case["cid"]
    R = Runner(ctx, only, timeout)
    cls = case["cls"]
    f = {}
    for role, src in paths.items():
        f[role] = os.path.join(workdir, "%s.%s" % (tag, role))
        c06gen.apply_case(case, role, src, f[role])
    try:
        if cls in ("fs", "jrnl"):
            inos, blocks = _targets_from_descr(case["descr"])
            targets = []
            for i in inos + (_profile(inf) if inf else []):
                if i not in [x[0] for x in targets]:
                    d = inf.inodes.get(i, {}) if inf else {}
                    targets.append((i, d.get("fmt", 0), d.get("flags", 0)))
            blocks = (blocks + [1, 100, 7000])[:4]
            _fs_tools(R, ctx, f["img"], workdir, tag, targets[:10], blocks)
        elif cls == "xjrnl":
            img, jnl = f["img"], f["jnl"]
            R.p("e2fsck -fn -j", "e2fsck", ["-fn", "-j", jnl, img])
            R.p("dumpe2fs(jnl)", "dumpe2fs", [jnl])
            R.p("dumpe2fs", "dumpe2fs", [img])
            R.p("tune2fs -l", "tune2fs", ["-l", img])
            R.p("dumpe2fs -x(jnl)", "dumpe2fs", ["-x", jnl])
            sp = os.path.join(workdir, tag + ".cmd")
            _write_script(sp, ["logdump -a -f %s" % jnl, "logdump -S -f %s" % jnl, "logdump -O -f %s" % jnl,
                               "logdump -c -f %s" % jnl, "logdump -a", "stats"])
            R.p("debugfs logdump -f", "debugfs", ["-f", sp, img], capped=True, quiet_stderr=True)
            _rm(sp)
            ci, cj = os.path.join(workdir, tag + ".cpi"), os.path.join(workdir, tag + ".cpj")
            for label, opt in (("e2fsck -fp -j", "-fp"), ("e2fsck -fy -j", "-fy")):
                if only and only != label:
                    continue
                shutil.copyfile(img, ci)
                shutil.copyfile(jnl, cj)
                R.p(label, "e2fsck", [opt, "-j", cj, ci])
            _rm(ci, cj)
        elif cls == "undo":
            R.p("e2undo -n", "e2undo", ["-n", f["undo"], f["img"]])
            R.p("e2undo", "e2undo", [f["undo"], f["img"]])
        elif cls == "qcow":
            out = os.path.join(workdir, tag + ".raw")
            R.p("e2image -r(qcow2)", "e2image", ["-r", f["qcow"], out], fsize=QCOW_RAW_FSIZE)
            _rm(out)
    finally:
        _rm(*f.values())
    return R.procs


def _one(arg):
    ctx, kind, what, only, timeout = arg
    try:
        if kind == "baseline":
            cls, name, paths = what
            inf = None
            if cls == "fs":
                inf = _fs_universe(ctx).info(name)
            elif cls == "jrnl":
                inf = _jr_universe(ctx).info(name)
            case = {"cid": -1, "cls": cls, "base": name, "files": {}, "truncate": {}, "descr": []}
            procs = run_case(ctx, case, paths, inf, tag="b-%s-%s" % (cls, name))
            return {"baseline": (cls, name), "procs": procs}
        cid = what
        case, paths, inf = make_case(ctx, cid)
        procs = run_case(ctx, case, paths, inf, only=only, timeout=timeout)
        out = {"cid": cid, "cls": case["cls"], "base": case["base"], "descr": case["descr"],
               "key": c06gen.cls_key(case["descr"]), "procs": procs}
        if any(p["v"] for p in procs):
            out["case"] = c06gen.case_to_json(case)
        return out
    except Exception as e:       # harness problem, never a verdict
        import traceback
        return {"cid": what if kind == "case" else -1, "error": "%r\n%s" % (e, traceback.format_exc()[-1500:])}


# ---------------------------------------------------------------------------------------

def _image_class(r):
    kinds = sorted(set(str(d[0]) for d in r["descr"]))
    return "%s[%s]" % (r["cls"], "+".join(kinds))


def make_ctx(b, workdir, corpus, bases=None):
    tools = {t: b.tool(t) for t in ("e2fsck", "mke2fs", "debugfs", "tune2fs", "dumpe2fs", "resize2fs",
                                     "e2image", "e2undo", "e2freefrag")}
    return {"workdir": workdir, "tools": tools, "env": san_env(b), "root": b.root, "corpus": corpus,
            "bases": bases or {}}


def main(tier, seed, replay=None, scale=1.0):
    rep = report.Report("C06", tier, seed, "exploration",
                        rule="case id in [0,%d): corrupted corpus image (structured, every 4th id "
                             "unstructured bytes) / journal with pending transactions / external journal "
                             "pair / undo file / qcow2 image; every tool run as its own ASan+UBSan-bounds "
                             "process; non-trivial = at least one tool exited non-zero or printed an error "
                             "that it does not print on the uncorrupted base; distinct by (object kind "
                             "set, operator set)" % UNIVERSE)
    _CACHE.clear()
    b = build.get_build("asan")
    names = zoo.corpus_names("thorough")
    with run.Work("C06") as w:
        corpus = {n: zoo.corpus_image(n, w.dir) for n in names}
        ctx = make_ctx(b, w.dir, corpus)
        bases, problems, harness = build_bases(ctx, w.path("bases"), corpus)
        ctx["bases"] = bases
        for pr in problems:
            rep.violation("C06 %s %s" % (pr["binary"], pr["v"]["key_tail"]),
                          "while preparing a base (%s): %s" % (pr["what"], pr["v"]["what"]),
                          replay={"stage": "base", "what": pr["what"], "argv": pr["argv"]})
        for h in harness:
            rep.harness_error("base preparation failed: " + h)
        for cls in ("jrnl", "xjrnl", "undo", "qcow"):
            rep.count("bases_" + cls, len(bases[cls]))
        usable = [c for c in RANGES if c == "fs" or bases.get(c)]
        if replay:
            case = json.load(open(os.path.join(replay, "case.json")))["case"]
            ids = [case["cid"]] if "cid" in case else []
        elif os.environ.get("C06_IDS"):
            ids = [int(x) for x in os.environ["C06_IDS"].split(",")]      # development aid
        else:
            total = max(40, int(BUDGET[tier] * scale))
            ids = []
            for cls in usable:
                lo, hi = RANGES[cls]
                n = min(hi - lo, max(3, int(round(total * SHARE[cls]))))
                if tier == "thorough" and scale >= 1:
                    n = hi - lo                  # the whole universe
                rng = run.rng_for(seed, "C06-ids", cls)
                ids += sorted(rng.sample(range(lo, hi), n))
        # baselines: what every tool says about the uncorrupted bases
        bl_items = []
        snames = sorted(names)
        used_fs = sorted(set(snames[cid % len(snames)] for cid in ids if class_of(cid) == "fs"))
        for n in used_fs:
            bl_items.append((ctx, "baseline", ("fs", n, {"img": corpus[n]}), None, WATCHDOG))
        for cls in ("jrnl", "xjrnl", "undo", "qcow"):
            if any(class_of(c) == cls for c in ids):
                for n, d in sorted(bases[cls].items()):
                    bl_items.append((ctx, "baseline", (cls, n, d), None, WATCHDOG))
        items = bl_items + [(ctx, "case", cid, None, WATCHDOG) for cid in ids]
        results = run.pmap(_one, items, chunksize=2)
        baseline = {}
        for r in results[:len(bl_items)]:
            if "error" in r:
                rep.harness_error("baseline crashed: " + r["error"])
                continue
            baseline[tuple(r["baseline"])] = set(p["label"] for p in r["procs"] if p["noticed"])
            for p in r["procs"]:
                rep.count("baseline_processes")
                if p["v"]:
                    # a sanitizer report on an uncorrupted input is a finding all the same
                    kt = p["v"]["key_tail"] + (" in %s" % p["v"]["hang_func"] if p["v"].get("hang_func") else "")
                    rep.violation("C06 %s %s" % (p["bin"], kt),
                                  "on the UNCORRUPTED base %s/%s, %s: %s" %
                                  (r["baseline"][0], r["baseline"][1], p["label"], p["v"].get("what", "")),
                                  replay={"stage": "baseline", "base": list(r["baseline"]), "label": p["label"]})
        # watchdog expiries: one confirmation run (alone in its worker, longer limit) per new
        # hang signature, all of them in parallel
        def hang_key(binary, vv, r):
            if vv.get("hang_func"):
                return "C06 %s hang in %s" % (binary, vv["hang_func"])
            # no frame: the specific input (a class of corrupted objects would hide other hangs)
            return "C06 %s hang %s: %s" % (binary, r.get("base"), "; ".join(
                "%s.%s %s %s" % tuple(d) for d in (r.get("descr") or [])))
        todo = {}
        for r in results[len(bl_items):]:
            for p in r.get("procs", []):
                if p["v"] and p["v"]["verdict"] == "timeout":
                    hk = hang_key(p["bin"], p["v"], r)
                    if rep.match_known(hk) is None and hk not in todo:
                        todo[hk] = (r["cid"], p["label"])
        rerun = {}
        if todo:
            rr = run.pmap(_one, [(ctx, "case", cid, label, WATCHDOG_RERUN) for cid, label in todo.values()],
                          workers=min(8, len(todo)))
            rerun = {(cid, label): x for (cid, label), x in zip(todo.values(), rr)}
        exit_hist = {}
        seen_keys = {}
        cpu_by_label = {}
        confirmed_hangs = set()
        pending_hangs = []
        for r in results[len(bl_items):]:
            if "error" in r:
                rep.harness_error("case %s crashed the harness: %s" % (r["cid"], r["error"]))
                continue
            bl = baseline.get((r["cls"], r["base"]), set())
            noticed = [p["label"] for p in r["procs"] if p["noticed"] and p["label"] not in bl]
            rep.case(r["cls"] + ": " + r["key"] if noticed else None)
            rep.count("cases_" + r["cls"])
            if noticed:
                rep.count("cases_noticed_" + r["cls"])
            rep.add("base_inputs", "%s/%s" % (r["cls"], r["base"]))
            for d in r["descr"]:
                rep.add("object_kinds", str(d[0]))
                rep.add("corrupted_fields", "%s.%s" % (d[0], d[1]))
                rep.add("operators", str(d[2]).split("^")[0])
            if noticed and len(rep.samples) < 6 and (len(rep.samples) < 2 or r["cls"] not in
                                                     [s.get("class") for s in rep.samples]):
                rep.sample({"cid": r["cid"], "class": r["cls"], "base": r["base"],
                            "corruption": [list(d) for d in r["descr"]][:4],
                            "exits": {p["label"]: (p["rc"] if not p["sig"] else "sig%d" % p["sig"])
                                      for p in r["procs"]}})
            for p in r["procs"]:
                rep.count("processes")
                rep.count("proc[%s]" % p["label"])
                cpu_by_label[p["label"]] = cpu_by_label.get(p["label"], 0.0) + p["wall"]
                st = "timeout" if p["to"] else ("sig%d" % p["sig"] if p["sig"] else "exit%s" % p["rc"])
                exit_hist.setdefault(p["label"], {})
                exit_hist[p["label"]][st] = exit_hist[p["label"]].get(st, 0) + 1
                if p["capped"]:
                    rep.count("capped_outputs")
                v = p["v"]
                if not v:
                    continue
                if v["verdict"] == "inconclusive":
                    rep.note_inconclusive("%s cid=%d: %s" % (p["label"], r["cid"], v["key_tail"]))
                    rep.count("inconclusive_" + v["key_tail"].replace(" ", "_"))
                    continue
                if v["verdict"] == "timeout":
                    # first expiry: run that single process again, alone, with a longer limit;
                    # only a second expiry is a hang.  Signature: where the watchdog's SIGABRT
                    # interrupted it (innermost frame of the tool), else the image class.
                    hkey = hang_key(p["bin"], v, r)
                    if rep.match_known(hkey) is not None:
                        # a listed hang signature is not confirmed again (300 s each)
                        rep.violation(hkey, "watchdog expiry with a listed signature", replay={"cid": r["cid"]})
                        continue
                    if hkey in confirmed_hangs:
                        seen_keys[hkey] = seen_keys.get(hkey, 0) + 1
                        rep.count("watchdog_expiries_of_confirmed_hang_signature")
                        continue
                    rr = rerun.get((r["cid"], p["label"]))
                    if rr is None:
                        # same signature as a process that is being confirmed elsewhere
                        pending_hangs.append((hkey, r["cid"], p["label"]))
                        continue
                    again = [q for q in rr.get("procs", []) if q["label"] == p["label"]]
                    rep.count("watchdog_reruns")
                    if again and again[0]["to"]:
                        key = hang_key(p["bin"], again[0]["v"], r)
                        confirmed_hangs.update([key, hkey])
                        seen_keys[key] = seen_keys.get(key, 0) + 1
                        rep.violation(key, "%s did not finish within %d s and again not within %d s alone "
                                           "(cid %d on %s: %s)\n%s" %
                                      (p["label"], WATCHDOG, WATCHDOG_RERUN, r["cid"], r["base"], r["descr"],
                                       again[0]["v"].get("what", "")),
                                      replay={"cid": r["cid"], "label": p["label"], "descr": r["descr"],
                                              "case": rr.get("case")})
                        continue
                    if again and again[0]["v"] and again[0]["v"]["verdict"] == "violation":
                        v = again[0]["v"]
                        r = dict(r, case=rr.get("case"))
                    else:
                        rep.note_inconclusive("slow: %s cid=%d finished alone in %ss" %
                                              (p["label"], r["cid"], again[0]["wall"] if again else "?"))
                        rep.count("slow_not_hang")
                        continue
                tail = v["key_tail"]
                if v.get("need_class"):
                    tail += " in " + _image_class(r)
                key = "C06 %s %s" % (p["bin"], tail)
                seen_keys[key] = seen_keys.get(key, 0) + 1
                if seen_keys[key] > 3:
                    rep.count("further_occurrences_of_reported_keys")
                    continue
                rep.violation(key, "%s on cid %d (%s %s: %s)\n%s" %
                              (p["label"], r["cid"], r["cls"], r["base"], r["descr"], v.get("what", "")),
                              replay={"cid": r["cid"], "label": p["label"], "class": r["cls"], "base": r["base"],
                                      "descr": r["descr"], "frames": v.get("frames"), "case": r.get("case")},
                              files={"report.txt": (v.get("what", "") or "").encode()})
        for hkey, cid, label in pending_hangs:
            if hkey in confirmed_hangs:
                seen_keys[hkey] = seen_keys.get(hkey, 0) + 1
                rep.count("watchdog_expiries_of_confirmed_hang_signature")
            else:
                rep.note_inconclusive("slow: %s cid=%d (signature %s not confirmed as a hang)" % (label, cid, hkey))
                rep.count("slow_not_hang")
        subprocess.run("rm -rf -- %s/*" % w.dir, shell=True, stderr=subprocess.DEVNULL)
        rep.extra["exit_status_histogram"] = exit_hist
        rep.extra["wall_seconds_by_tool"] = {k: round(v, 1) for k, v in cpu_by_label.items()}
        rep.extra["violation_key_occurrences"] = seen_keys
    rep.extra["universe_size"] = UNIVERSE
    rep.extra["universe_ranges"] = {k: list(v) for k, v in RANGES.items()}
    rep.extra["sanitizer_variant"] = "asan: " + build.VARIANTS["asan"]["cflags"]
    rep.extra["asan_options"] = ctx["env"].get("ASAN_OPTIONS")
    rep.extra["watchdog_s"] = [WATCHDOG, WATCHDOG_RERUN]
    rep.extra["exhaustive"] = False
    rep.assumptions = ["base images: committed corpus (pinned tree); journal/undo/qcow2 bases are produced "
                       "at run time by the tools under test from corpus images and judged like every other "
                       "process",
                       "ASan red zones + UBSan bounds only: intra-object overflows, reads of stale mapped "
                       "memory and uninitialised reads are not detected",
                       "allocations above 3 GB fail (max_allocation_size_mb) and an RSS above 6 GB is "
                       "inconclusive, not a violation",
                       "output of debugfs is read through an 8 MB capped pipe and files written by "
                       "dump/rdump/e2image -r(qcow2) are limited by RLIMIT_FSIZE; SIGPIPE/SIGXFSZ deaths "
                       "are normal there",
                       "exit statuses: e2fsck any combination of 1|2|4|8|16|32|128; other tools anything "
                       "below 64"]
    return rep.finish()


# ---------------------------------------------------------------------------------------
# development aid: shrink the patch list of a failing case (not used by main)

def minimise(cid, label, key_tail, verbose=True):
    """greedy reduction of the patches of case `cid` such that process `label` still yields
    a verdict whose key tail equals `key_tail`.  Returns the reduced case (json form)."""
    _CACHE.clear()
    b = build.get_build("asan")
    names = zoo.corpus_names("thorough")
    with run.Work("C06min") as w:
        corpus = {n: zoo.corpus_image(n, w.dir) for n in names}
        ctx = make_ctx(b, w.dir, corpus)
        ctx["bases"] = build_bases(ctx, w.path("bases"), corpus)[0]
        case, paths, inf = make_case(ctx, cid)

        def fires(c):
            procs = run_case(ctx, c, paths, inf, only=label)
            return any(p["v"] and p["v"].get("key_tail") == key_tail for p in procs)
        if not fires(case):
            raise SystemExit("case does not reproduce")
        items = [(role, i) for role, pp in case["files"].items() for i in range(len(pp))]
        changed = True
        while changed:
            changed = False
            for it in list(items):
                trial = dict(case, files={r: [p for i, p in enumerate(pp) if (r, i) != it and (r, i) in items]
                                          for r, pp in case["files"].items()})
                # keep indices stable: rebuild from items
                keep = [x for x in items if x != it]
                trial["files"] = {r: [case["files"][r][i] for (rr, i) in keep if rr == r] for r in case["files"]}
                if fires(trial):
                    items = keep
                    changed = True
                    if verbose:
                        print("dropped", it, "->", len(items), "patches")
        final = dict(case, files={r: [case["files"][r][i] for (rr, i) in items if rr == r] for r in case["files"]})
        # shrink long patches to the bytes that differ from the base
        for role, pp in final["files"].items():
            out = []
            for off, bts in pp:
                old = c06gen.rd(paths[role], off, len(bts))
                diff = [k for k in range(len(bts)) if k >= len(old) or old[k] != bts[k]]
                if diff:
                    out.append((off + diff[0], bts[diff[0]:diff[-1] + 1]))
            final["files"][role] = out
        assert fires(final), "byte-shrunk case lost the failure"
        return c06gen.case_to_json(final)


def materialise(cid, outdir):
    """development aid: write the files of case `cid` into outdir; returns the case"""
    _CACHE.clear()
    b = build.get_build("asan")
    names = zoo.corpus_names("thorough")
    os.makedirs(outdir, exist_ok=True)
    with run.Work("C06mat") as w:
        corpus = {n: zoo.corpus_image(n, w.dir) for n in names}
        ctx = make_ctx(b, w.dir, corpus)
        ctx["bases"] = build_bases(ctx, w.path("bases"), corpus)[0]
        case, paths, inf = make_case(ctx, cid)
        for role, src in paths.items():
            c06gen.apply_case(case, role, src, os.path.join(outdir, "c%d.%s" % (cid, role)))
            shutil.copyfile(src, os.path.join(outdir, "c%d.base.%s" % (cid, role)))
        if case["cls"] in ("fs", "jrnl"):
            inos, blocks = _targets_from_descr(case["descr"])
            targets = []
            for i in inos + (_profile(inf) if inf else []):
                if i not in [x[0] for x in targets]:
                    d = inf.inodes.get(i, {}) if inf else {}
                    targets.append((i, d.get("fmt", 0), d.get("flags", 0)))
            a, j, c, r = debugfs_scripts(targets[:10], (blocks + [1, 100, 7000])[:4], os.path.join(outdir, "rd"))
            for nm, lines in (("script", a), ("logdump", j), ("cat", c), ("rdump", r)):
                _write_script(os.path.join(outdir, "c%d.%s.cmd" % (cid, nm)), lines)
        print(json.dumps(c06gen.case_to_json(case))[:3000])
        print("env:", " ".join("%s=%s" % kv for kv in ctx["env"].items() if "SAN" in kv[0]))
        return case
