"""C14 - metadata checksums: format-exact and covering every protected byte.

a) every metadata object of images written by the tree's tools (mke2fs, debugfs, tune2fs,
   resize2fs, repairing e2fsck) is re-checksummed by the independent implementation.
b) byte sweep (fault_enumeration): one bit flipped in a checksum-covered byte of an in-use
   object must be rejected by the library read path AND make `e2fsck -fn` exit non-zero.
c) the CRC primitives equal their bitwise definitions for lengths 0..600, alignments 0..15.
"""
import json
import os
import shutil
import struct

from vf import build, run, report, zoo, corrupt, fsckpair
from vf.pyext4 import image as I, check as C, meta as M, crc, jparse

BUDGET = {"quick": dict(a=40, b=1500, c=3000), "thorough": dict(a=400, b=60000, c=40000)}
UUID2 = "11112222-3333-4444-5555-666677778888"


# ----------------------------------------------------------------------------- (c)
def crc_vectors(rng, n, exhaustive=False):
    vecs = []
    if exhaustive:
        for ln in range(0, 601):
            for al in range(16):
                for content in ("z", "o", "r"):
                    vecs.append((ln, al, content))
    else:
        for _ in range(n):
            vecs.append((rng.choice([0, 1, 2, 3, 4, 5, 7, 8, 9, 15, 16, 17, 31, 32, 33, 63, 64, 65, 127, 128,
                                     129, 255, 256, 257, 511, 512, 513, 599, 600, rng.randrange(601)]),
                         rng.randrange(16), rng.choice("zor")))
    out = []
    for ln, al, content in vecs:
        if content == "z":
            d = bytes(ln)
        elif content == "o":
            d = b"\xff" * ln
        else:
            d = bytes(rng.getrandbits(8) for _ in range(ln))
        out.append((rng.choice("cbs"), rng.getrandbits(32), al, d))
    # single set bit at each position for short lengths
    for ln in (1, 2, 3, 4, 8, 16, 33, 64):
        for bit in range(ln * 8):
            d = bytearray(ln)
            d[bit >> 3] = 1 << (bit & 7)
            for k in "cbs":
                out.append((k, 0, bit % 16, bytes(d)))
    return out


def _crc_batch(arg):
    drv, env, vecs = arg
    lines = []
    for k, seed, al, d in vecs:
        if k == "s":
            seed &= 0xFFFF
        lines.append("crc %s %d %d %s" % (k, seed, al, d.hex()))
    r = run.run([drv], env=env, stdin=("\n".join(lines) + "\n").encode(), timeout=120, cap=8 << 20)
    got = [l.split()[2] for l in r.text.split("\n") if l.startswith("r crc")]
    bad = []
    if len(got) != len(vecs):
        return [("driver", "crc driver returned %d of %d results rc=%s %s" % (len(got), len(vecs), r.rc, r.etext[-200:]))]
    for (k, seed, al, d), g in zip(vecs, got):
        if k == "c":
            want = crc.crc32c_bitwise(seed, d)
        elif k == "b":
            want = crc.crc32_be_bitwise(seed, d)
        else:
            want = crc.crc16_bitwise(seed & 0xFFFF, d)
        if int(g) != want:
            bad.append(({"c": "crc32c_le", "b": "crc32_be", "s": "crc16"}[k],
                        "seed %#x len %d align %d: library %#x definition %#x" % (seed, len(d), al, int(g), want)))
    return bad


# ----------------------------------------------------------------------------- (b)
def covered_objects(path, per_kind=2):
    """[(kind, probe_args, base_off, [(start, end, region)...])] of in-use, checksummed objects"""
    out = []
    with I.Image(path) as img:
        sb = img.sb
        if not img.has_gdt_csum:
            return out
        bs = img.bs
        gds = img.group_descs()
        if img.has_csum:
            out.append(("sb", ["open"], 1024, [(0, 1020, "fields"), (1020, 1024, "csum-field")]))
        for g in sorted(set([0, img.groups // 2, img.groups - 1]))[:3]:
            blk = img.gdt_location(g // img.descs_per_block)
            off = blk * bs + (g % img.descs_per_block) * img.desc_size
            out.append(("gd", ["desc"], off, [(0, 30, "fields"), (30, 32, "csum-field")] +
                        ([(32, img.desc_size, "fields-hi")] if img.desc_size > 32 else [])))
        if not img.has_csum:
            return out
        nb = ni = 0
        for g, gd in enumerate(gds):
            if not (gd.flags & I.BG_BLOCK_UNINIT) and nb < per_kind:
                out.append(("bbitmap", ["bitmaps"], gd.block_bitmap * bs, [(0, sb.s_clusters_per_group // 8, "bits")]))
                nb += 1
            if not (gd.flags & I.BG_INODE_UNINIT) and ni < per_kind:
                out.append(("ibitmap", ["bitmaps"], gd.inode_bitmap * bs, [(0, sb.s_inodes_per_group // 8, "bits")]))
                ni += 1
        objs = M.metadata_map(img)
        count = {}
        for o in objs:
            k = o.kind
            if k == "inode":
                i = img.inode(o.ino)
                cls = "inode-dir" if i.is_dir() else ("inode-special" if o.ino < sb.first_ino else "inode-file")
                if count.get(cls, 0) >= per_kind or o.ino == 1:
                    continue
                count[cls] = count.get(cls, 0) + 1
                regs = [(0, 124, "fields"), (124, 126, "csum-field"), (126, 128, "fields")]
                if img.inode_size > 128:
                    ex = i.extra_isize
                    regs += [(128, 130, "fields"), (130, 132, "csum-field" if ex >= 4 else "slack"),
                             (132, min(img.inode_size, 128 + max(ex, 4)), "extra-fields"),
                             (min(img.inode_size, 128 + max(ex, 4)), img.inode_size, "xattr-or-slack")]
                out.append((cls, ["inode", str(o.ino)], o.off, [r for r in regs if r[1] > r[0]]))
            elif k == "ext_node" and count.get(k, 0) < per_kind:
                count[k] = count.get(k, 0) + 1
                raw = img.data[img.offset + o.off: img.offset + o.off + 12]
                mx = struct.unpack_from("<H", raw, 4)[0]
                ent = struct.unpack_from("<H", raw, 2)[0]
                out.append((k, ["extents", str(o.ino)], o.off,
                            [(0, 12, "header"), (12, 12 + 12 * ent, "entries"),
                             (12 + 12 * ent, 12 + 12 * mx, "slack"), (12 + 12 * mx, 16 + 12 * mx, "csum-field")]))
            elif k == "dir_leaf" and count.get(k, 0) < per_kind:
                count[k] = count.get(k, 0) + 1
                out.append((k, ["dirblock", str(o.ino), str(o.lblk)], o.off,
                            [(0, bs - 12, "dirents"), (bs - 12, bs - 4, "tail"), (bs - 4, bs, "csum-field")]))
            elif k in ("dx_root", "dx_node") and count.get(k, 0) < per_kind:
                count[k] = count.get(k, 0) + 1
                co = 32 if k == "dx_root" else 8
                raw = img.data[img.offset + o.off: img.offset + o.off + bs]
                limit, cnt = struct.unpack_from("<HH", raw, co)
                out.append((k, ["dirblock", str(o.ino), str(o.lblk)], o.off,
                            [(0, co, "header"), (co, co + 8 * cnt, "entries"),
                             (co + 8 * limit, co + 8 * limit + 4, "tail-reserved"),
                             (co + 8 * limit + 4, co + 8 * limit + 8, "csum-field")]))
            elif k == "xattr_block" and count.get(k, 0) < per_kind:
                count[k] = count.get(k, 0) + 1
                out.append((k, ["xattr", str(o.ino)], o.off, [(0, 16, "header"), (16, 20, "csum-field"),
                                                               (20, bs, "entries-values")]))
            elif k == "mmp":
                out.append((k, ["mmp"], o.off, [(0, 1020, "fields"), (1020, 1024, "csum-field")]))
    return out


def sweep_positions(workdir, names):
    """Deterministic list of (image, kind, probe, abs_off, region)."""
    pos = []
    for n in names:
        p = zoo.corpus_image(n, workdir)
        for kind, probe, base, regs in covered_objects(p):
            for a, b, region in regs:
                for off in range(a, b):
                    pos.append((n, kind, probe, base + off, region))
    return pos


def _sweep_one(arg):
    workdir, e2fsck, drv, env, idx, n, kind, probe, off, region, bit = arg
    src = zoo.corpus_image(n, workdir)
    img = os.path.join(workdir, "s%d.img" % idx)
    shutil.copyfile(src, img)
    with open(img, "r+b") as f:
        f.seek(off)
        b = f.read(1)
        f.seek(off)
        f.write(bytes([b[0] ^ (1 << bit)]))
    out = {"idx": idx, "image": n, "kind": kind, "region": region, "off": off, "bit": bit}
    if kind == "bbitmap" and region == "bits" and (b[0] >> bit) & 1:
        # is this the bit of a bitmap / inode-table block of a BLOCK_UNINIT group, kept in the
        # bitmap of another, initialised group (flex_bg)?  libext2fs re-marks those after loading.
        try:
            with I.Image(src) as im:
                gds = im.group_descs()
                for g, gd in enumerate(gds):
                    if gd.block_bitmap * im.bs <= off < (gd.block_bitmap + 1) * im.bs:
                        blk = im.group_first_block(g) + ((off - gd.block_bitmap * im.bs) * 8 + bit) * im.ratio
                        for h, hd in enumerate(gds):
                            if h != g and (hd.flags & I.BG_BLOCK_UNINIT) and not (gd.flags & I.BG_BLOCK_UNINIT) and \
                                    (blk in (hd.block_bitmap, hd.inode_bitmap) or
                                     hd.inode_table <= blk < hd.inode_table + im.itable_blocks()):
                                out["uninit_table_bit"] = h
                        break
        except I.FormatError:
            pass
    try:
        r = run.run([e2fsck, "-fn", img], env=env, timeout=180)
        out["fsck_rc"] = r.rc
        out["fsck_to"] = r.timed_out
        pr = run.run([drv, "probe", img] + probe, env=env, timeout=60)
        code = None
        for l in pr.text.split("\n"):
            if l.startswith("r probe"):
                code = l.split()[-1]
        out["probe"] = code
        out["probe_what"] = probe[0]
    finally:
        os.unlink(img)
    return out


# ----------------------------------------------------------------------------- (a)
def _producer(arg):
    """Build an image with the tree's tools through one producer pipeline, then recompute
    every checksum.  Returns dict(pipeline, problems, stats)."""
    workdir, idx, seed = arg
    b = build.get_build("plain", quiet=True)
    env = run.base_env(b)
    rng = run.rng_for(seed, "C14a", idx)
    csum_specs = [s for s in zoo.SPECS if "^metadata_csum" not in s["args"] and "ext2" not in s["args"]
                  and "ext3" not in s["args"]] + [zoo.spec_by_name("ext4_gdtcsum")]
    spec = csum_specs[idx % len(csum_specs)]
    img = os.path.join(workdir, "a%d.img" % idx)
    steps = ["mke2fs(%s)" % spec["name"]]
    out = {"pipeline": steps, "problems": [], "stats": {}, "idx": idx}
    try:
        zoo.build_image(b, spec, img, workdir, seed=idx)
    except zoo.ZooError as e:
        # the generated tree does not fit this image specification (e.g. an attribute too big for
        # its inode size): no image, nothing to judge - not a failure of the harness
        out["skipped"] = str(e)[-300:]
        return out

    def fsck(args):
        return run.run([b.tool("e2fsck")] + args + [img], env=env, timeout=300)

    pipes = ["plain", "debugfs", "tune-uuid", "tune-csum-cycle", "tune-seed", "resize", "repair",
             "rehash", "journal", "isize", "jwrite"]
    pipe = pipes[(idx + seed + idx // len(pipes)) % len(pipes)]     # every pipeline in every run
    if pipe == "isize":
        # inodes whose extended part is shorter than usual, down to the minimum of 4 bytes that
        # still holds i_checksum_hi (the boundary of the 16/32-bit inode checksum rule)
        host = os.path.join(workdir, "h%d" % idx)
        with open(host, "wb") as f:
            f.write(bytes(range(256)) * 3)
        script = ["mkdir /c14i"]
        for k, n in enumerate((4, 8, 12, 16, 20, 24, 28, 32)):
            nm = "/c14i/f%d" % k
            script.append("write %s %s" % (host, nm))
            for fld in ("ctime_extra", "mtime_extra", "atime_extra", "crtime", "crtime_extra", "version_hi",
                        "projid"):
                script.append("sif %s %s 0" % (nm, fld))
            script.append("sif %s extra_isize %d" % (nm, n))
            script.append("sif %s mtime 1234567" % nm)       # one more rewrite through the library
        sf = img + ".cmd"
        open(sf, "w").write("\n".join(script) + "\n")
        run.run([b.tool("debugfs"), "-w", "-f", sf, img], env=env, timeout=300)
        steps.append("debugfs(sif extra_isize 4..32 on 8 files)")
    if pipe == "jwrite":
        # debugfs' journal writer: transactions with checksums v2 / v3, one block that has to be
        # escaped (starts with the jbd2 magic), a revoke; every checksum in the log is recomputed by
        # the independent walker, then the replay has to deliver the written bytes
        targets = []
        try:
            with I.Image(img) as im:
                if im.sb.has_compat("has_journal") and im.sb.s_journal_inum:
                    special = {im.sb.s_usr_quota_inum, im.sb.s_grp_quota_inum, im.sb.s_prj_quota_inum,
                               im.sb.s_orphan_file_inum if im.sb.has_compat("orphan_file") else 0}
                    for ino in range(im.sb.first_ino, im.sb.s_inodes_count + 1):
                        if ino in special or not im.inode_allocated(ino):
                            continue
                        io = im.inode(ino)
                        if io.is_reg() and not (io.flags & I.FL_INLINE_DATA):
                            blks = [pb + k for _l, pb, n, _u in im.block_map(io)[0] for k in range(n)]
                            if len(blks) >= 4:
                                targets = blks[:4]
                                break
                bs = im.bs
        except I.FormatError:
            targets = []
        if targets:
            ver = rng.choice(["2", "3", "3"])
            magic = bytes.fromhex("c03b3998")
            content = {targets[0]: magic + bytes((i * 7 + 1) % 251 for i in range(bs - 4)),
                       targets[1]: bytes((i * 3 + 2) % 253 + 1 for i in range(bs)),
                       targets[2]: bytes((i * 5 + 3) % 241 + 1 for i in range(bs)),
                       targets[3]: magic * (bs // 4)}
            h1, h2, h3 = (os.path.join(workdir, "j%d_%d" % (idx, k)) for k in range(3))
            open(h1, "wb").write(content[targets[0]] + content[targets[1]])
            open(h2, "wb").write(content[targets[2]])
            open(h3, "wb").write(content[targets[3]])
            script = ["jo -c -v " + ver,
                      "jw -b %d,%d %s" % (targets[0], targets[1], h1),
                      # (data and revokes in separate transactions: the writer under-reserves log space
                      # for a transaction that has both, and the next one then overwrites its commit block)
                      "jw -r %d" % targets[1],
                      "jw -b %d %s" % (targets[2], h2),
                      "jw -b %d %s" % (targets[3], h3),
                      "jc"]
            sf = img + ".cmd"
            open(sf, "w").write("\n".join(script) + "\n")
            r = run.run([b.tool("debugfs"), "-w", "-f", sf, img], env=env, timeout=300)
            steps.append("debugfs(jo -c -v %s; 4 x jw; jc) rc=%s" % (ver, r.rc))
            jprob = []
            try:
                with I.Image(img) as im:
                    jprob, jst, txns = jparse.walk(im)
                out["journal_stats"] = jst
                if jst["transactions"] < 4 or jst["escaped_tags"] < 2 or jst["commit_blocks"] < 4:
                    out["harness"] = "journal writer left %s" % jst
            except (jparse.JournalError, I.FormatError, struct.error) as e:
                jprob = ["journal unparsable: %s" % e]
            r = fsck(["-fy", "-E", "journal_only"])
            steps.append("e2fsck -fy -E journal_only (replay) rc=%s" % r.rc)
            with open(img, "rb") as f:
                for t in (targets[0], targets[2], targets[3]):
                    f.seek(t * bs)
                    if f.read(bs) != content[t]:
                        jprob.append("after replay fs block %d does not hold the journalled bytes" % t)
                f.seek(targets[1] * bs)
                if f.read(bs) == content[targets[1]]:
                    jprob.append("after replay fs block %d holds bytes of a transaction that a later one revoked"
                                 % targets[1])
            out["journal_problems"] = jprob
            for h in (h1, h2, h3):
                os.unlink(h)
        else:
            steps.append("jwrite: no journal / no 4-block file, nothing written")
    if pipe == "debugfs":
        host = os.path.join(workdir, "h%d" % idx)
        with open(host, "wb") as f:
            f.write(os.urandom(0) + bytes(range(256)) * rng.choice([1, 20, 300]))
        script = ["mkdir /c14", "mkdir /c14/sub"] + ["write %s /c14/f%d" % (host, k) for k in range(rng.randint(1, 30))] + \
                 ["ea_set /c14/f0 user.a %s" % ("v" * rng.choice([3, 100, 600])), "symlink /c14/sl %s" % ("t" * rng.choice([5, 80])),
                  "rm /c14/f0" if rng.random() < 0.3 else "ln /c14/f0 /c14/hl", "punch /c14/f1 1 3" if rng.random() < 0.5 else "stat /"]
        sf = img + ".cmd"
        open(sf, "w").write("\n".join(script) + "\n")
        run.run([b.tool("debugfs"), "-w", "-f", sf, img], env=env, timeout=300)
        steps.append("debugfs(%d cmds)" % len(script))
    elif pipe == "tune-uuid":
        fsck(["-fy"])
        r = run.run([b.tool("tune2fs"), "-f", "-U", UUID2, img], env=env, stdin=b"y\n", timeout=300)
        steps.append("tune2fs -U rc=%s" % r.rc)
    elif pipe == "tune-csum-cycle":
        fsck(["-fy"])
        r1 = run.run([b.tool("tune2fs"), "-O", "^metadata_csum", img], env=env, stdin=b"y\n", timeout=300)
        fsck(["-fy"])
        r2 = run.run([b.tool("tune2fs"), "-O", "metadata_csum", img], env=env, stdin=b"y\n", timeout=300)
        steps.append("tune2fs ^metadata_csum rc=%s, metadata_csum rc=%s" % (r1.rc, r2.rc))
        fsck(["-fyD"])
    elif pipe == "tune-seed":
        fsck(["-fy"])
        r1 = run.run([b.tool("tune2fs"), "-O", "metadata_csum_seed", img], env=env, stdin=b"y\n", timeout=300)
        r2 = run.run([b.tool("tune2fs"), "-f", "-U", UUID2, img], env=env, stdin=b"y\n", timeout=300)
        steps.append("tune2fs metadata_csum_seed rc=%s -U rc=%s" % (r1.rc, r2.rc))
    elif pipe == "resize":
        fsck(["-fy"])
        sz = os.path.getsize(img)
        with open(img, "r+b") as f:
            f.truncate(sz * 2)
        r = run.run([b.tool("resize2fs"), img, "%dK" % (sz * rng.choice([3, 4, 5]) // 2048)], env=env, timeout=300)
        steps.append("resize2fs rc=%s" % r.rc)
    elif pipe == "repair":
        u = corrupt.Universe("C14a-v1", {spec["name"]: img + ".base"}, 1 << 20)
        shutil.copyfile(img, img + ".base")
        case = u.case(rng.randrange(1 << 20))
        corrupt.apply_patches(img, case.patches)
        r = fsck(["-fy"])
        os.unlink(img + ".base")
        steps.append("corrupt(%s) e2fsck -fy rc=%s" % (case.cls, r.rc))
    elif pipe == "rehash":
        r = fsck(["-fyD"])
        steps.append("e2fsck -fyD rc=%s" % r.rc)
    elif pipe == "journal":
        r = run.run([b.tool("debugfs"), "-w", "-R", "jo -c", img], env=env, timeout=120)
        steps.append("debugfs jo -c rc=%s" % r.rc)
    # only images the tree's own e2fsck calls clean are expected to carry exact checksums
    # everywhere (a tool may legitimately leave a filesystem that asks for e2fsck)
    r = fsck(["-fn"])
    out["fn_rc"] = r.rc
    if r.rc != 0:
        out["not_clean"] = True
        os.unlink(img)
        return out
    try:
        with I.Image(img) as im:
            pr, st = C.check_with_stats(im)
        out["problems"] = [p.key() + "(" + p.detail + ")" for p in pr if p.family == "F5"]
        out["stats"] = st
    except I.FormatError as e:
        out["problems"] = ["F4:unparsable(%s)" % e]
    os.unlink(img)
    return out


def main(tier, seed, replay=None, scale=1.0):
    rep = report.Report("C14", tier, seed, "fault_enumeration",
                        rule="b: positions = every checksum-covered byte of sampled in-use objects (superblock, "
                             "descriptors, bitmaps of initialised groups, dir/file/special inodes, extent blocks, "
                             "directory leaves, htree nodes, xattr blocks, MMP) of every checksummed corpus image; "
                             "one bit flipped per position; non-trivial = position inside a covered range; distinct "
                             "by (object kind, region, image); a: producer pipelines of the tree's tools, every "
                             "checksum recomputed independently; c: CRC vectors vs bitwise definitions")
    b = build.get_build("plain")
    env = run.base_env(b)
    drv = b.driver("drv_csum")
    bud = BUDGET[tier]
    rng = run.rng_for(seed, "C14")
    with run.Work("C14") as w:
        # ---- (c)
        vecs = crc_vectors(rng, int(bud["c"] * scale), exhaustive=(tier == "thorough" and scale >= 1))
        batches = [(drv, env, vecs[i:i + 400]) for i in range(0, len(vecs), 400)]
        for bad in run.pmap(_crc_batch, batches):
            for k, what in bad:
                rep.violation("C14c %s differs from its definition" % k, what, replay={"part": "c"})
        rep.count("c_crc_vectors", len(vecs))
        rep.case("c|crc-primitives")
        # ---- (b)
        names = [n for n in zoo.corpus_names("thorough")]
        positions = sweep_positions(w.dir, names)
        rep.extra["b_universe_positions"] = len(positions)
        nb = int(bud["b"] * scale)
        if replay:
            c = json.load(open(os.path.join(replay, "case.json")))["case"]
            chosen = [c["pos_index"]] if "pos_index" in c else []
        elif nb >= len(positions):
            chosen = list(range(len(positions)))
        else:
            # stratified by (kind, region)
            strata = {}
            for i, p in enumerate(positions):
                strata.setdefault((p[1], p[4]), []).append(i)
            chosen = []
            keys = sorted(strata)
            per = max(1, nb // len(keys))
            for k in keys:
                lst = strata[k]
                chosen += rng.sample(lst, min(per, len(lst)))
            rest = [i for i in range(len(positions)) if i not in set(chosen)]
            if len(chosen) < nb and rest:
                chosen += rng.sample(rest, min(nb - len(chosen), len(rest)))
        items = []
        for i in chosen:
            n, kind, probe, off, region = positions[i]
            bit = (i * 7 + off) % 8
            items.append((w.dir, b.tool("e2fsck"), drv, env, i, n, kind, probe, off, region, bit))
        for r in run.pmap(_sweep_one, items, chunksize=8):
            rep.case("b|%s|%s|%s" % (r["kind"], r["region"], r["image"]))
            rep.count("b_positions_" + r["kind"])
            rep.add("b_regions", "%s/%s" % (r["kind"], r["region"]))
            if r.get("fsck_to"):
                rep.note_inconclusive("e2fsck timeout at position %d" % r["idx"])
                continue
            case = {"part": "b", "pos_index": r["idx"], "image": r["image"], "kind": r["kind"],
                    "region": r["region"], "offset": r["off"], "bit": r["bit"]}
            if r["fsck_rc"] == 0:
                rep.violation("C14b e2fsck-fn-accepts %s %s" % (r["kind"], r["region"]) +
                              (" (cleared bit of a BLOCK_UNINIT group's table block in another group's bitmap)"
                               if r.get("uninit_table_bit") is not None else ""),
                              "bit %d of byte %d (%s %s) of %s flipped: e2fsck -fn exits 0" %
                              (r["bit"], r["off"], r["kind"], r["region"], r["image"]), replay=case)
            if r["probe"] == "0":
                rep.violation("C14b library-accepts %s %s via %s" % (r["kind"], r["region"], r["probe_what"]),
                              "bit %d of byte %d (%s %s) of %s flipped: library read path returns 0" %
                              (r["bit"], r["off"], r["kind"], r["region"], r["image"]), replay=case)
            elif r["probe"] is None:
                rep.harness_error("probe gave no answer at position %d" % r["idx"])
            if len(rep.samples) < 5 and r["idx"] % 97 == 0:
                rep.sample(dict(case, e2fsck_fn_exit=r["fsck_rc"], library_error=r["probe"]))
        # ---- (a)
        na = max(4, int(bud["a"] * scale))
        tot = {}
        for r in run.pmap(_producer, [(w.dir, i, seed) for i in range(na)], chunksize=1):
            if r.get("skipped"):
                rep.note_inconclusive("producer image not built: %s" % r["skipped"])
                rep.count("a_image_not_built")
                rep.case(None)
                continue
            if r.get("harness"):
                rep.harness_error("producer pipeline failed: %s" % r["harness"])
                continue
            pipe = r["pipeline"][-1].split("(")[0].split(" rc=")[0]
            rep.count("a_pipeline " + pipe)
            if r.get("journal_stats"):
                for k in ("descriptor_blocks", "tags", "escaped_tags", "commit_blocks", "revoke_blocks"):
                    rep.count("a_journal_" + k + "_recomputed", r["journal_stats"][k])
                rep.add("a_journal_csum_versions", r["journal_stats"]["csum"])
            if r.get("journal_problems"):
                first = r["journal_problems"][0]
                kind = "tag checksum" if first.startswith("tag checksum") else first.split(" (")[0].split(" of fs")[0][:60]
                rep.violation("C14a journal written by debugfs: %s" % kind,
                              "pipeline %s: %s" % (r["pipeline"], r["journal_problems"][:4]),
                              replay={"part": "a", "idx": r["idx"], "seed": seed})
            if r.get("not_clean"):
                rep.count("a_result_not_e2fsck_clean (not judged)")
                rep.case(None)
                continue
            rep.case("a|" + "|".join(r["pipeline"]))
            for k, v in r["stats"].items():
                tot[k] = tot.get(k, 0) + v
            if r["problems"]:
                kinds = sorted(set(p.split("(")[0] for p in r["problems"]))
                rep.violation("C14a %s after %s" % (",".join(kinds), pipe),
                              "pipeline %s: %s" % (r["pipeline"], r["problems"][:5]),
                              replay={"part": "a", "idx": r["idx"], "seed": seed})
            elif len(rep.samples) < 8:
                rep.sample({"part": "a", "pipeline": r["pipeline"], "checksums_recomputed": r["stats"]})
        rep.extra["a_checksums_recomputed_by_kind"] = tot
        rep.count("a_checksums_recomputed", sum(tot.values()))
    rep.assumptions = ["free inodes and bitmaps of UNINIT groups carry no defined checksum and are excluded",
                       "unused htree entries between count and limit are not covered by the dx checksum",
                       "journal checksums: those written by debugfs' journal writer are recomputed here "
                       "(vf/pyext4/jparse.py); acceptance of damaged journal blocks is judged by replay outcome in C03"]
    return rep.finish()
