"""C19 - e2image images preserve all metadata and never touch the source.

Sources: the committed corpus (deep extent trees, indirect blocks, htree directories, xattr
blocks, ea_inodes, journal, quota / orphan / resize inodes), a few of them with a pending
journal transaction, and large sparse filesystems (2-40 GB virtual) made by the build's
mke2fs whose metadata is spread so far apart that the qcow2 output needs many L2 tables and
more than one refcount block.  Modes: -r, -Q, -Q then -r (qcow2 -> raw), -ra, (-rap, -Qa).

Oracles (all independent of e2fsprogs): source bytes / size / mtime unchanged; every metadata
block enumerated by vf.pyext4.meta is byte-identical in the raw image (minus the documented
things e2image leaves out); e2fsck -fn and dumpe2fs say the same on image and source; the
qcow2 file parsed by vf/qcow2r.py is structurally sound and maps exactly the non-zero blocks of
the raw image with the same bytes; qcow2 -> raw equals the direct raw image; for -ra the tree
digest is equal and no block owned by an inode or by primary metadata differs.
"""
import hashlib
import json
import os
import re
import shutil
import struct

from vf import build, run, report, zoo, qcow2r
from vf.gen import trees
from vf.pyext4 import image as I, meta as M, tree as T

BUDGET = {"quick": 30, "thorough": 100}        # images; x 4 modes (quick) / 6 modes (thorough)
QUICK_MODES = ["r", "Q", "Q2r", "ra"]
ALL_MODES = ["r", "Q", "Q2r", "ra", "rap", "Qa2r"]
CLASSES = ("dir_leaf", "dx", "map_node", "xattr_block", "journal")


# --------------------------------------------------------------------------------------
# byte-level helpers

def sparse_nonzero(path, bs):
    """yield (block number, bytes) for every block of the file that is not all zeros"""
    zero = bytes(bs)
    with open(path, "rb") as f:
        size = os.fstat(f.fileno()).st_size
        pos = 0
        while pos < size:
            try:
                d = os.lseek(f.fileno(), pos, os.SEEK_DATA)
            except OSError:
                break
            try:
                h = os.lseek(f.fileno(), d, os.SEEK_HOLE)
            except OSError:
                h = size
            d -= d % bs
            pos = d
            while pos < h:
                n = min(1 << 22, h - pos)
                n += -n % bs
                buf = os.pread(f.fileno(), n, pos)
                for k in range(0, len(buf), bs):
                    b = buf[k:k + bs]
                    if len(b) < bs:
                        b = b + bytes(bs - len(b))
                    if b != zero:
                        yield (pos + k) // bs, b
                pos += n
            pos = max(pos, h)


def content_digest(path, bs):
    """sha256 over (block number, bytes) of the non-zero blocks: equal iff the files are
    byte-identical up to trailing zeros (used instead of a plain sha256 for 40 GB sparse files)"""
    h = hashlib.sha256()
    n = 0
    for b, d in sparse_nonzero(path, bs):
        h.update(struct.pack("<Q", b))
        h.update(d)
        n += 1
    return h.hexdigest(), n


def pread_block(fd, b, bs):
    d = os.pread(fd, bs, b * bs)
    return d + bytes(bs - len(d)) if len(d) < bs else d


def src_state(path, bs):
    st = os.stat(path)
    return {"size": st.st_size, "mtime_ns": st.st_mtime_ns, "digest": content_digest(path, bs)[0]}


# --------------------------------------------------------------------------------------
# what e2image is documented (misc/e2image.c) to leave out of a metadata image

def expected_metadata(img):
    """Returns (compare: {block: kind}, exempt: {reason: count}, classes present)."""
    sb = img.sb
    bs = img.bs
    gds = img.group_descs()
    ipb = bs // img.inode_size
    nit = img.itable_blocks()
    compare = {}
    exempt = {}
    classes = set()
    types = {}

    def ex(reason, n=1):
        exempt[reason] = exempt.get(reason, 0) + n
    for o in M.metadata_map(img):
        k = o.kind
        if k == "inode":
            continue
        if k in ("sb_backup", "gdt_backup") or (k == "rgdt" and o.group):
            ex("backup superblock / descriptor / reserved-GDT copies (mark_table_blocks marks the primary only)")
            continue
        first = o.off // bs
        nblk = max(1, (o.length + bs - 1) // bs)
        if k == "sb":
            first, nblk = o.off // bs, 1
        gd = gds[o.group] if o.group is not None and k in ("bbitmap", "ibitmap", "itable") else None
        if k == "bbitmap" and gd.flags & I.BG_BLOCK_UNINIT:
            ex("block bitmap of a BLOCK_UNINIT group")
            continue
        if k == "ibitmap" and gd.flags & I.BG_INODE_UNINIT:
            ex("inode bitmap of an INODE_UNINIT group")
            continue
        if k == "itable":
            if gd.flags & I.BG_INODE_UNINIT:
                ex("inode table of an INODE_UNINIT group", nblk)
                continue
            if img.has_gdt_csum:
                skip = gd.itable_unused // ipb
                if skip:
                    ex("inode table blocks beyond bg_itable_unused", min(skip, nit))
                nblk = max(0, nit - skip)
        if k == "rgdt" and not sb.has_compat("resize_inode"):
            ex("reserved GDT blocks without a resize inode")
            continue
        kk = k
        if k in ("ext_node", "ind_block"):
            classes.add("map_node")
            t = types.get(o.ino)
            if t is None:
                t = types[o.ino] = "dir" if img.inode(o.ino).is_dir() else "file"
            kk = "%s(%s)" % (k, t)
        elif k in ("dx_root", "dx_node"):
            classes.add("dx")
        elif k in ("dir_leaf", "xattr_block", "journal"):
            classes.add(k)
        for b in range(first, first + nblk):
            if b < img.blocks_count:
                compare.setdefault(b, kk)
    return compare, exempt, classes


def owned_blocks(img):
    """blocks owned by an in-use inode (data and mapping blocks, xattr block)"""
    own = {}
    for i in M.in_use_inodes(img):
        if i.ino == I.BAD_INO:
            continue
        if i.file_acl:
            own.setdefault(i.file_acl, "xattr_block")
        if i.flags & I.FL_INLINE_DATA:
            continue
        if i.fmt not in (I.S_IFREG, I.S_IFDIR, I.S_IFLNK):
            continue
        if i.fmt == I.S_IFLNK:
            ea_blocks = (img.bs // 512) * img.ratio if i.file_acl else 0
            if i.size < 60 and i.i_blocks - ea_blocks == 0:
                continue
        try:
            mapping, metab = img.block_map(i)
        except I.FormatError:
            continue
        cls = "dir" if i.is_dir() else "symlink" if i.is_lnk() else \
            "journal" if i.ino == I.JOURNAL_INO else "resize-inode" if i.ino == I.RESIZE_INO else \
            "ea_inode" if i.flags & I.FL_EA_INODE else "file"
        for b in metab:
            own.setdefault(b, cls + "-map")
        for l, p, c, un in mapping:
            for k in range(c):
                own.setdefault(p + k, cls + "-data")
    return own


# --------------------------------------------------------------------------------------
# sources

def big_specs(rng, n):
    out = []
    menu = [
        dict(bs=1024, gb=(4, 5, 6), csum=False, flex=0),
        # a block-mapped file of ~100-170 MiB: an indirect block every 256 KiB, i.e. metadata at
        # changing positions inside > 512 qcow2 L2 tables (the L2 cache has to be flushed and
        # its tables reused in the middle of the image)
        dict(bs=1024, gb=(2, 3), csum=False, flex=0, ext3=True, mapped_blocks=(110000, 170000)),
        dict(bs=1024, gb=(2, 3), csum=True, flex=0),
        dict(bs=2048, gb=(8, 12, 16), csum=False, flex=0),
        dict(bs=4096, gb=(20, 32, 40), csum=False, flex=0),
        dict(bs=2048, gb=(6, 10), csum=True, flex=16),
        dict(bs=4096, gb=(24, 40), csum=True, flex=4),
        dict(bs=1024, gb=(2, 5), csum=False, flex=0, ext3=True),
    ]
    for k in range(n):
        m = dict(menu[k % len(menu)])
        m["gb"] = rng.choice(m["gb"])
        if m.get("mapped_blocks"):
            m["mapped_blocks"] = rng.randrange(*m["mapped_blocks"])
        m["name"] = "big%d_%dk_%dg%s%s" % (k, m["bs"] // 1024, m["gb"], "_csum" if m["csum"] else "",
                                            "_ext3" if m.get("ext3") else "")
        m["seed"] = rng.randrange(1 << 30)
        out.append(m)
    return out


def build_big(b, env, spec, path, work):
    bs = spec["bs"]
    with open(path, "wb") as f:
        f.truncate(spec["gb"] << 30)
    tdir = os.path.join(work, "tree")
    shutil.rmtree(tdir, ignore_errors=True)
    rng = run.rng_for(spec["seed"], "C19-tree")
    trees.make_tree(tdir, rng, profile="std")
    with open(os.path.join(tdir, "islands"), "wb") as f:
        for i in range(400):
            f.seek(i * 3 * bs)
            f.write(trees.pattern(i, 600))
    groups = (spec["gb"] << 30) // bs // (8 * bs)
    feats = ["^resize_inode"] if spec["seed"] & 1 else []
    if spec.get("ext3"):
        base = "ext3"
    else:
        base = "ext4"
        feats += ["^flex_bg"] if not spec["flex"] else []
        feats += ["metadata_csum"] if spec["csum"] else ["^metadata_csum", "^uninit_bg"]
    args = [b.tool("mke2fs"), "-q", "-F", "-t", base, "-b", str(bs), "-I", "256", "-N", str(groups * 32),
            "-U", zoo.UUID, "-E", "hash_seed=" + zoo.HASH_SEED, "-L", spec["name"][:16], "-J", "size=4",
            "-d", tdir]
    if feats:
        args += ["-O", ",".join(feats)]
    if spec["flex"]:
        args += ["-G", str(spec["flex"])]
    r = run.run(args + [path], env=env, timeout=900)
    shutil.rmtree(tdir, ignore_errors=True)
    if r.rc != 0:
        raise zoo.ZooError("mke2fs failed for %s: %s" % (spec["name"], r.etext[-300:]))
    sf = os.path.join(work, "script")
    with open(sf, "w") as f:
        f.write("ea_set /islands user.big %s\nea_set /many user.d %s\n" % ("B" * 400, "d" * 300))
        if spec.get("mapped_blocks"):
            f.write("write /dev/null /bigmapped\nfallocate /bigmapped 0 %d\n" % spec["mapped_blocks"])
    r = run.run([b.tool("debugfs"), "-w", "-f", sf, path], env=env, timeout=300)
    r = run.run([b.tool("e2fsck"), "-fyD", path], env=env, timeout=900)      # builds the htree indexes
    if r.rc is None or r.rc & ~3:
        raise zoo.ZooError("e2fsck -fyD failed for %s: rc=%s %s" % (spec["name"], r.rc, r.text[-300:]))


def build_tiny(b, env, spec, path, work):
    """A tiny filesystem filled to the last block - with directories ("meta": every block is
    metadata, -Q stores them all) or with one file of dense data ("data", for -Qa) - so that the
    qcow2 file (payload + header, L1, L2 and refcount clusters) is LARGER than the filesystem and
    host offsets exceed the guest size; the last filesystem block is in use and non-zero."""
    bs, blocks = spec["bs"], spec["blocks"]
    with open(path, "wb") as f:
        f.truncate(blocks * bs)
    r = run.run([b.tool("mke2fs"), "-q", "-F", "-t", "ext2", "-b", str(bs), "-m", "0", "-N", "112", "-I", "128",
                 "-O", "^resize_inode,^dir_index", "-U", zoo.UUID, "-L", spec["name"][:16], path], env=env,
                timeout=120)
    if r.rc != 0:
        raise zoo.ZooError("mke2fs failed for %s: %s" % (spec["name"], r.etext[-300:]))

    def free():
        with I.Image(path) as im:
            return sum(g.free_blocks for g in im.group_descs())
    if spec["fill"] == "meta":
        run.run([b.tool("debugfs"), "-w", "-f", "-", path], env=env, timeout=300,
                stdin="".join("mkdir /d%03d\n" % i for i in range(100)).encode())
    n = 0
    while free() > 0 and n < 6:
        hf = os.path.join(work, "fill%d" % n)
        with open(hf, "wb") as f:
            for k in range(free()):
                f.write(bytes(((k * 5 + o + n) % 251) + 1 for o in range(bs)))
        run.run([b.tool("debugfs"), "-w", "-R", "write %s fill%d" % (hf, n), path], env=env, timeout=300)
        os.unlink(hf)
        n += 1
    r = run.run([b.tool("e2fsck"), "-fy", path], env=env, timeout=300)
    if r.rc is None or r.rc & ~3:
        raise zoo.ZooError("e2fsck -fy failed for %s: rc=%s" % (spec["name"], r.rc))


def add_pending_transaction(b, env, path, work):
    """leave one committed, unreplayed transaction in the journal (debugfs journal writer)"""
    sf = os.path.join(work, "jscript")
    with open(sf, "w") as f:
        f.write("jo\njw -b 333 /dev/null\njc\n")
    r = run.run([b.tool("debugfs"), "-w", "-f", sf, path], env=env, timeout=120)
    with I.Image(path) as img:
        return img.sb.has_incompat("needs_recovery")


# --------------------------------------------------------------------------------------

def norm_out(text, path):
    t = text.replace(path, "<dev>")
    return re.sub(r"/dev/shm/[^\s:]*", "<dev>", t)


def tool_view(b, env, path):
    r1 = run.run([b.tool("e2fsck"), "-fn", path], env=env, timeout=900, cap=4 << 20)
    r2 = run.run([b.tool("dumpe2fs"), path], env=env, timeout=900, cap=32 << 20)
    return {"fsck_rc": r1.rc, "fsck": norm_out(r1.text, path), "dump_rc": r2.rc, "dump": norm_out(r2.text, path),
            "timed_out": r1.timed_out or r2.timed_out}


def first_diff(a, b):
    la, lb = a.splitlines(), b.splitlines()
    for i in range(max(len(la), len(lb))):
        x = la[i] if i < len(la) else "<end>"
        y = lb[i] if i < len(lb) else "<end>"
        if x != y:
            return "line %d: source %r / image %r" % (i + 1, x[:120], y[:120])
    return "?"


def _one(arg):
    workdir, spec, modes, broot = arg
    b = build.Build(broot, "plain")
    env = run.base_env(b)
    name = spec["name"]
    sub = os.path.join(workdir, "w-" + name)
    os.makedirs(sub, exist_ok=True)
    out = {"name": name, "kind": spec["kind"], "viol": [], "modes": {}, "error": None, "inconclusive": []}
    V = out["viol"]
    try:
        src = os.path.join(sub, "src.img")
        if spec["kind"] == "big":
            build_big(b, env, spec, src, sub)
        elif spec["kind"] == "tiny":
            build_tiny(b, env, spec, src, sub)
            modes = ALL_MODES
        else:
            shutil.copyfile(zoo.corpus_image(spec["corpus"], workdir), src)
            if spec["kind"] == "corpus+jnl":
                out["pending"] = add_pending_transaction(b, env, src, sub)
        os.chmod(src, 0o444)
        with I.Image(src) as img:
            bs = img.bs
            compare, exempt, classes = expected_metadata(img)
            out["features"] = img.sb.features()
            out["blocks"] = img.blocks_count
            out["bs"] = bs
        out["classes"] = sorted(classes)
        out["exempt"] = exempt
        kinds = {}
        for k in compare.values():
            kinds[k] = kinds.get(k, 0) + 1
        out["kinds"] = kinds
        s0 = src_state(src, bs)
        view0 = tool_view(b, env, src)
        s1 = src_state(src, bs)
        if s1 != s0:
            out["error"] = "e2fsck -fn / dumpe2fs changed the source (C13's business): %s" % name
            return out
        e2image = b.tool("e2image")
        raw = os.path.join(sub, "out.raw")
        qcow = os.path.join(sub, "out.qcow2")
        raw_digest = None

        def run_mode(mode, argv):
            r = run.run([e2image] + argv, env=env, timeout=1800)
            s = src_state(src, bs)
            res = {"rc": r.rc}
            out["modes"][mode] = res
            if s["digest"] != s0["digest"] or s["size"] != s0["size"]:
                V.append(("C19 source-modified %s" % mode, "source content/size changed by e2image %s" %
                          " ".join(argv[:-2])))
            elif s["mtime_ns"] != s0["mtime_ns"]:
                V.append(("C19 source-written %s" % mode, "source file was written to (mtime changed, same bytes) "
                          "by e2image %s" % " ".join(argv[:-2])))
                s0["mtime_ns"] = s["mtime_ns"]
            if r.timed_out:
                out["inconclusive"].append("e2image %s timed out" % mode)
                return None
            if r.rc != 0 or r.sig:
                V.append(("C19 e2image-fails %s" % mode, "e2image %s exits %s sig %s: %s" %
                          (" ".join(argv[:-2]), r.rc, r.sig, r.etext[-300:])))
                return None
            return res

        def same_view(mode, path):
            v = tool_view(b, env, path)
            if v["timed_out"] or view0["timed_out"]:
                out["inconclusive"].append("e2fsck/dumpe2fs timed out on %s" % mode)
                return
            if v["fsck_rc"] != view0["fsck_rc"] or v["fsck"] != view0["fsck"]:
                V.append(("C19 e2fsck-differs %s" % mode, "e2fsck -fn: source exit %s, image exit %s; %s" %
                          (view0["fsck_rc"], v["fsck_rc"], first_diff(view0["fsck"], v["fsck"]))))
            if v["dump_rc"] != view0["dump_rc"] or v["dump"] != view0["dump"]:
                V.append(("C19 dumpe2fs-differs %s" % mode, "dumpe2fs: source exit %s, image exit %s; %s" %
                          (view0["dump_rc"], v["dump_rc"], first_diff(view0["dump"], v["dump"]))))

        # ---- -r ------------------------------------------------------------------
        if "r" in modes:
            res = run_mode("r", ["-r", src, raw])
            if res is not None:
                bad = {}
                with open(raw, "rb") as rf, I.Image(src) as img:
                    for blk, kind in compare.items():
                        a = img.blk(blk)
                        d = pread_block(rf.fileno(), blk, bs)
                        if a != d:
                            bad.setdefault(kind, []).append(blk)
                for kind, blks in bad.items():
                    V.append(("C19 -r metadata-block-differs %s" % kind,
                              "%d %s block(s) of the source are not in the raw image byte for byte, e.g. block %d" %
                              (len(blks), kind, blks[0])))
                res["compared"] = len(compare)
                raw_digest, res["nonzero_blocks"] = content_digest(raw, bs)
                res["size"] = os.path.getsize(raw)
                same_view("r", raw)
        # ---- -Q ------------------------------------------------------------------
        have_q = False
        if "Q" in modes and raw_digest:
            res = run_mode("Q", ["-Q", src, qcow])
            if res is not None:
                have_q = True
                try:
                    q = qcow2r.Qcow2(qcow)
                    try:
                        if q.cs != bs or q.size != out["blocks"] * bs:
                            V.append(("C19 qcow2-structure header-geometry", "cluster size %d / virtual size %d, "
                                      "filesystem has %d x %d" % (q.cs, q.size, out["blocks"], bs)))
                        m = q.mapping()
                        probs = q.check(m)
                        seen = set()
                        for cls, det in probs:
                            if cls not in seen:
                                seen.add(cls)
                                V.append(("C19 qcow2-structure %s" % cls, "%s (%d problems of this class)" %
                                          (det, sum(1 for c, _ in probs if c == cls))))
                        res["l2_tables"] = len(q.l2_tables())
                        res["refcount_blocks"] = len(q.refcount_blocks())
                        res["mapped"] = len(m)
                        mism = []
                        nz = set()
                        with open(raw, "rb") as rf:
                            for blk, d in sparse_nonzero(raw, bs):
                                nz.add(blk)
                                if blk not in m:
                                    mism.append("block %d of the raw image is not mapped in the qcow2 image" % blk)
                                    if len(mism) > 3:
                                        break
                            for g, h in m.items():
                                if len(mism) > 3:
                                    break
                                if q.read_cluster(h) != pread_block(rf.fileno(), g, bs):
                                    mism.append("guest cluster %d (host offset %d) differs from the raw image" % (g, h))
                        if mism:
                            V.append(("C19 qcow2-raw-mismatch reader", "own qcow2 reader vs e2image -r: " +
                                      "; ".join(mism[:3])))
                    finally:
                        q.close()
                except (qcow2r.Qcow2Error, struct.error) as e:
                    V.append(("C19 qcow2-structure unreadable", str(e)))
        # ---- qcow2 -> raw ----------------------------------------------------------
        if "Q2r" in modes and have_q:
            back = os.path.join(sub, "back.raw")
            r = run.run([e2image, "-r", qcow, back], env=env, timeout=1800)
            out["modes"]["Q2r"] = {"rc": r.rc}
            if r.timed_out:
                out["inconclusive"].append("qcow2->raw timed out")
            elif r.rc != 0:
                V.append(("C19 e2image-fails Q2r", "e2image -r <qcow2> exits %s: %s" % (r.rc, r.etext[-300:])))
            else:
                d, _n = content_digest(back, bs)
                if d != raw_digest:
                    V.append(("C19 qcow2-raw-mismatch convert", "e2image -r out.qcow2 back.raw differs from e2image -r "
                              "src out.raw (non-zero block digests %s / %s)" % (d[:16], raw_digest[:16])))
                elif os.path.getsize(back) != os.path.getsize(raw):
                    V.append(("C19 qcow2-raw-mismatch convert-size", "sizes %d / %d" %
                              (os.path.getsize(back), os.path.getsize(raw))))
            _rm(back)
        _rm(qcow)
        _rm(raw)
        # ---- -ra (and variants producing an all-data raw image) ----------------------
        for mode in ("ra", "rap", "Qa2r"):
            if mode not in modes:
                continue
            allraw = os.path.join(sub, "all.raw")
            if mode == "Qa2r":
                res = run_mode("Qa", ["-Qa", src, qcow])
                if res is None:
                    continue
                r = run.run([e2image, "-r", qcow, allraw], env=env, timeout=1800)
                _rm(qcow)
                if r.rc != 0:
                    V.append(("C19 e2image-fails Qa2r", "e2image -r <qcow2 -a> exits %s: %s" % (r.rc, r.etext[-300:])))
                    continue
                res = out["modes"][mode] = {"rc": 0}
            else:
                res = run_mode(mode, ["-" + mode, src, allraw])
                if res is None:
                    continue
            with I.Image(src) as img:
                own = owned_blocks(img)
                for blk, kind in compare.items():
                    own.setdefault(blk, "primary-" + kind)
                d0 = T.tree_digest(img)
                diff = {}
                other = dict(sparse_nonzero(allraw, bs)) if out["blocks"] * bs <= (256 << 20) else None
                if other is not None:
                    for blk, d in sparse_nonzero(src, bs):
                        if other.pop(blk, None) != d:
                            diff[blk] = 1
                    for blk in other:
                        diff[blk] = 1
                else:
                    with open(allraw, "rb") as af:
                        for blk, d in sparse_nonzero(src, bs):
                            if pread_block(af.fileno(), blk, bs) != d:
                                diff[blk] = 1
                        for blk, d in sparse_nonzero(allraw, bs):
                            if blk >= img.blocks_count or img.blk(blk) != d:
                                diff[blk] = 1
                res["differing_blocks"] = len(diff)
                badown = {}
                for blk in diff:
                    if blk in own:
                        badown.setdefault(own[blk], []).append(blk)
                for cls, blks in badown.items():
                    V.append(("C19 -ra owned-block-differs %s" % cls, "mode %s: %d block(s) owned by %s differ from "
                              "the source, e.g. block %d" % (mode, len(blks), cls, sorted(blks)[0])))
                res["owned_blocks"] = len(own)
            try:
                with I.Image(allraw) as im2:
                    d1 = T.tree_digest(im2)
                dd = T.diff_digests(d0, d1)
                if dd:
                    V.append(("C19 -ra tree-differs", "mode %s: %s" % (mode, dd[:4])))
            except I.FormatError as e:
                V.append(("C19 -ra tree-unreadable", "mode %s: %s" % (mode, e)))
            same_view(mode, allraw)
            _rm(allraw)
        if V:
            keep = os.path.join(workdir, "keep-%s.img" % name)
            if os.path.getsize(src) <= (128 << 20):
                shutil.copyfile(src, keep)
                out["keep"] = keep
    except zoo.ZooError as e:
        out["inconclusive"].append("source not built: %s" % e)
    except Exception as e:
        import traceback
        out["error"] = "%s: %r\n%s" % (name, e, traceback.format_exc()[-1500:])
    finally:
        shutil.rmtree(sub, ignore_errors=True)
    return out


def _rm(p):
    try:
        os.unlink(p)
    except OSError:
        pass


def plan(tier, seed, scale):
    rng = run.rng_for(seed, "C19-plan")
    n = max(6, int(BUDGET[tier] * scale))
    names = zoo.corpus_names("thorough")
    quick = [x for x in zoo.corpus_names("quick")]
    rest = [x for x in names if x not in quick]
    rng.shuffle(rest)
    nbig = max(2, n // 8) if tier == "quick" else max(4, n // 3)
    njnl = max(1, n // 10)
    ncorp = max(2, n - nbig - njnl)
    chosen = (quick + rest)[:ncorp]
    specs = [dict(kind="corpus", name=c, corpus=c) for c in chosen]
    jn = [c for c in chosen if c.startswith(("ext3", "ext4")) and "nojournal" not in c]
    rng.shuffle(jn)
    specs += [dict(kind="corpus+jnl", name=c + "+pendingtx", corpus=c) for c in jn[:njnl]]
    k = 0
    while tier != "quick" and len(specs) + nbig < n:      # thorough: corpus images again, with pending tx
        specs.append(dict(kind="corpus+jnl", name="%s+pendingtx%d" % (names[k % len(names)], k),
                          corpus=names[k % len(names)]))
        k += 1
        if k >= len(names):
            break
    for s in big_specs(rng, nbig):
        s["kind"] = "big"
        specs.append(s)
    for k in range(2 if tier == "quick" else 8):
        fill = ("meta", "data")[k % 2]
        blocks = rng.choice([120, 160, 200, 256]) if k < 6 else rng.choice([500, 1000])
        specs.append(dict(kind="tiny", name="tiny%d_%s_%d" % (k, fill, blocks), bs=1024, blocks=blocks, fill=fill))
    return specs


def main(tier, seed, replay=None, scale=1.0):
    rep = report.Report("C19", tier, seed, "exploration",
                        rule="case = (source image, e2image mode); non-trivial = the source has >= 1 block of each "
                             "metadata class (directory leaf, htree interior, extent-index or indirect block, xattr "
                             "block, journal); distinct by (source, mode)")
    b = build.get_build("plain")
    modes = QUICK_MODES if tier == "quick" else ALL_MODES
    with run.Work("C19") as w:
        if replay:
            case = json.load(open(os.path.join(replay, "case.json")))["case"]
            specs = [case["spec"]]
            modes = case.get("modes", ALL_MODES)
        else:
            specs = plan(tier, seed, scale)
        for s in specs:
            if s.get("corpus"):
                zoo.corpus_image(s["corpus"], w.dir)
        # the large sparse images first: they take longest
        specs.sort(key=lambda s: s["kind"] != "big")
        results = run.pmap(_one, [(w.dir, s, modes, b.root) for s in specs])
        for s, r in zip(specs, results):
            if r["error"]:
                rep.harness_error(r["error"])
                continue
            for x in r["inconclusive"]:
                rep.note_inconclusive("%s: %s" % (r["name"], x))
            if not r["modes"]:
                continue
            nontriv = all(c in r.get("classes", []) for c in CLASSES)
            rep.count("sources_" + r["kind"])
            if r.get("pending"):
                rep.count("sources_with_pending_journal_transaction")
            for mode, res in r["modes"].items():
                rep.case("%s|%s" % (r["name"], mode) if nontriv else None)
                rep.count("runs_mode_" + mode)
                rep.add("modes", mode)
                if mode == "r" and "compared" in res:
                    rep.count("metadata_blocks_compared", res["compared"])
                    for k, v in r["kinds"].items():
                        rep.count("compared_kind_" + k, v)
                    for k, v in r["exempt"].items():
                        rep.count("exempt: " + k, v)
                if mode == "Q" and "l2_tables" in res:
                    rep.count("qcow2_l2_tables_walked", res["l2_tables"])
                    rep.count("qcow2_refcount_blocks_walked", res["refcount_blocks"])
                    rep.count("qcow2_clusters_compared", res["mapped"])
                    if res["l2_tables"] > 1:
                        rep.count("qcow2_images_crossing_an_L2_table_boundary")
                    if res["l2_tables"] > 512:
                        rep.count("qcow2_images_exceeding_the_L2_cache(512)")
                    if res["refcount_blocks"] > 1:
                        rep.count("qcow2_images_crossing_a_refcount_block_boundary")
                if mode in ("ra", "rap", "Qa2r") and "differing_blocks" in res:
                    rep.count("all_data_unowned_blocks_differing", res["differing_blocks"])
                    rep.count("all_data_owned_blocks_checked", res["owned_blocks"])
            rep.add("sources", r["name"])
            rep.add("feature_sets", ",".join(r.get("features", [])))
            if len(rep.samples) < 6 and (r["kind"] == "big" or len(rep.samples) < 3):
                rep.sample({"source": r["name"], "kind": r["kind"], "block_size": r.get("bs"),
                            "blocks": r.get("blocks"), "classes": r.get("classes"), "kinds_compared": r.get("kinds"),
                            "modes": r["modes"]})
            seen = set()
            for key, what in r["viol"]:
                if key in seen:
                    continue
                seen.add(key)
                rep.violation(key, "%s: %s" % (r["name"], what), replay={"spec": s, "modes": modes},
                              files={"source.img": r["keep"]} if r.get("keep") else None)
    rep.assumptions = [
        "metadata = vf.pyext4.meta.metadata_map(source); left out exactly as misc/e2image.c documents: backup "
        "superblocks, backup descriptors and the reserved-GDT copies in backup groups (mark_table_blocks marks the "
        "primary superblock and descriptors only); block bitmaps of BLOCK_UNINIT groups; inode bitmaps and inode "
        "tables of INODE_UNINIT groups; with group-descriptor checksums the inode-table blocks beyond "
        "bg_itable_unused; nothing else (no -s scrambling is used)",
        "all-zero blocks are not written (sparse / unmapped) - they compare equal as zeros; output files are always "
        "new, so the E2IMAGE_CHECK_ZERO path is the one exercised",
        "files of up to 40 GB are compared by a digest over (block number, bytes) of their non-zero blocks, which "
        "is equality up to trailing zeros; the qcow2->raw result must also have the same length",
        "source unchanged = same content digest and size; an unchanged-bytes write (mtime) is reported under its "
        "own key 'source-written'",
        "for -ra: owned = blocks mapped by any in-use inode (data, mapping blocks, xattr block) + primary metadata "
        "minus the exemptions above",
        "e2fsck -fn and dumpe2fs outputs are compared after replacing the file path",
    ]
    return rep.finish()
