"""C11 - tune2fs conversions preserve data and consistency.

Populated images are built by the tree's own mke2fs/debugfs (zoo.build_image; some are
additionally indexed with `e2fsck -fyD` because `mke2fs -d` never writes htree
directories).  Every sequence copies one image and applies 1-8 tune2fs invocations.  Each
invocation is judged on its own:

 refused (exit != 0): image bytes unchanged (sha256) = "refused-clean"; otherwise
      "refused-but-touched": then superblock (outside write time / kbytes written / its
      checksum), tree digest and consistency must be unchanged.
 accepted (exit 0):
  (a) the requested setting is in effect in the independently parsed superblock,
  (b) no other superblock field changed, outside the side effects tied to the option
      given (vf/c11model.py:judge_atoms) and write time / kbytes written / checksum,
  (c) the tree digest (every path: type, mode, owner, links, size, content hash, holes,
      symlink target, device numbers, xattrs) equals the one before,
  (d) if tune2fs printed "Please run e2fsck -f[D]" or left the state not-valid, exactly
      that e2fsck (-fy / -fyD) is run and must exit 0 or 1 and keep the tree digest; then,
      and otherwise immediately, `e2fsck -fn` must exit 0 and the independent checker must
      find nothing.
 A refusal that says "requires a freshly checked filesystem" is followed by `e2fsck -fy`
 (preparation, must exit 0/1) and one retry.  After a consistency violation the sequence
 goes on only if one `e2fsck -fy` brings back a consistent filesystem with the same tree.

Sequences: ~30 % forced orders (FORCED: csum off -> UUID -> csum on; seed on -> UUID -> seed
off; journal remove -> add; quota off -> on; -I grow -> csum toggle; ea_inode on -> large
xattrs written with debugfs -> csum toggle; ...), a few MMP plans (every read-write open of
an MMP filesystem sleeps >= 11 s), the rest random, drawn against the current superblock.

Violation keys:  C11 <option> setting-not-in-effect | unrequested-sb-field <field> |
tree-differs <attribute> | e2fsck-fn <first problem line, digits -> N> [<csum mode>,
orphan_file, bigalloc, inline_data, ea_inode as present before the run][ after-requested-e2fsck]
| pyext4 <problem keys>[ after-requested-e2fsck] | requested-fsck-failed exit <n> |
refused-but-changed | tune2fs-signal <n>;  C11 sequence tree-differs <attribute>.
"""
import calendar
import json
import os
import re
import shutil
import struct
import time

from vf import build, run, report, zoo, fsckpair
from vf import c11model as M
from vf.gen import trees
from vf.pyext4 import image as I, tree as T, meta as MM

BUDGET = {"quick": 150, "thorough": 4000}
MMP_MAX = {"quick": 3, "thorough": 40}
FORCED_SHARE = 0.30

RULE = ("one case = one sequence of 1-8 tune2fs invocations on a copy of a populated image; "
        "non-trivial = >= 2 accepted invocations that changed a feature bit, the UUID or the inode "
        "size; distinct by (image, ordered list of those accepted options)")

# ---------------------------------------------------------------------------------------
# images


def _z(name, **kw):
    d = {"spec": dict(zoo.spec_by_name(name))}
    d.update(kw)
    return d


IMAGES = [
    _z("ext4_1k", index=True), _z("ext4_1k_wide", index=True), _z("ext4_nocsum"),
    _z("ext4_gdtcsum", index=True), _z("ext4_csumseed", index=True), _z("ext4_inline"),
    _z("ext4_eainode"), _z("ext4_quota"), _z("ext4_project"), _z("ext4_orphanfile"),
    _z("ext4_mmp", mmp=True), _z("ext4_noflex", index=True), _z("ext3_1k", index=True), _z("ext2_1k"),
    _z("ext4_1k_i128"), _z("ext4_hugefile_nodirnlink"), _z("ext4_nodirindex"),
    _z("ext4_noextent_64", index=True), _z("ext4_32bit"), _z("ext4_metabg"), _z("ext4_64groups"),
    _z("ext4_flex4_g"), _z("ext4_bigalloc4"), _z("ext4_full"), _z("ext4_4k", index=True),
    _z("ext4_largedir", index=True), _z("ext4_2k_i512"), _z("ext4_4k_encodings"),
    _z("ext4_stride"), _z("ext4_nofiletype"), _z("ext4_sparse2"), _z("ext4_empty"),
    _z("ext4_onegroup"), _z("ext2_2k_nosparse"), _z("ext2_4k"), _z("ext3_4k_htree", index=True),
    # every checksummed object type at once: htree (2 levels), extent blocks, xattr blocks,
    # ea_inodes, inline directories, journal
    dict(spec=dict(name="c11_sink", kb=16384,
                   args="-t ext4 -b 1024 -I 256 -O inline_data,ea_inode -J size=1", tree="wide",
                   extras=["xattrs", "bigxattr", "deepfile"]), index=True, many=700),
    dict(spec=dict(name="c11_wide_nocsum", kb=16384,
                   args="-t ext4 -b 1024 -O ^metadata_csum,^uninit_bg -J size=1", tree="wide",
                   extras=["xattrs"]), index=True, many=700),
    # inode size growth needs ^flex_bg
    dict(spec=dict(name="c11_noflex_i128", kb=8192,
                   args="-t ext4 -b 1024 -I 128 -O ^flex_bg -J size=1", tree="std",
                   extras=["xattrs", "deepfile"]), index=True),
    dict(spec=dict(name="c11_noflex_i256x", kb=16384,
                   args="-t ext4 -b 1024 -I 256 -O ^flex_bg,ea_inode,inline_data -g 4096 -J size=1",
                   tree="std", extras=["xattrs", "bigxattr"])),
    # RAID stride layout: both bitmaps sit right behind the inode table, so growing the table
    # (-I) has to relocate the block bitmap and the inode bitmap of a group
    dict(spec=dict(name="c11_stride_i128", kb=20480,
                   args="-t ext4 -b 1024 -I 128 -O ^flex_bg -E stride=4 -J size=1", tree="std",
                   extras=["xattrs"])),
    dict(spec=dict(name="c11_ext3_i128", kb=8192, args="-t ext3 -b 1024 -I 128 -J size=1",
                   tree="wide", extras=["xattrs"]), index=True),
    # a directory compacted by e2fsck -fD while checksums were off: interior htree nodes are full
    # (count == limit, no room for the checksum tail) while every leaf keeps 24 spare bytes, so
    # enabling metadata_csum hinges on the full-node case alone
    dict(spec=dict(name="c11_fullnode_nocsum", kb=32768,
                   args="-t ext4 -b 1024 -I 256 -N 8192 -O ^metadata_csum,^has_journal,^resize_inode",
                   tree=None), index=True, many=4500, many_name="entry_with_a_longish_name_%05d"),
    dict(spec=dict(name="c11_noflex_nocsum", kb=8192,
                   args="-t ext4 -b 2048 -I 256 -O ^flex_bg,^metadata_csum,^uninit_bg,^has_journal",
                   tree="std", extras=["xattrs"])),
]
IMAGE_BY_NAME = {d["spec"]["name"]: d for d in IMAGES}


def _consistent(b, env, path):
    r = run.run([b.tool("e2fsck"), "-fn", path], env=env, timeout=300)
    keys, det = fsckpair.pycheck(path)
    if not keys:
        try:
            with I.Image(path) as im:
                keys = M.orphan_file_problems(im)
        except I.FormatError:
            pass
    return (r.rc == 0 and not keys), "e2fsck -fn exit %s; pyext4 %s %s" % (r.rc, keys, det[:2])


def image_info(path):
    with I.Image(path) as img:
        kinds = {}
        for o in MM.metadata_map(img):
            kinds[o.kind] = kinds.get(o.kind, 0) + 1
            if o.kind in ("dx_root", "dx_node"):
                raw = img.blk(o.off // img.bs)
                at = 0x20 if o.kind == "dx_root" else 8
                limit, count = struct.unpack_from("<HH", raw, at)
                if limit and count == limit:
                    kinds["dx_full_node"] = kinds.get("dx_full_node", 0) + 1
            if o.kind == "inode":
                i = img.inode(o.ino)
                if i.flags & I.FL_EA_INODE:
                    kinds["ea_inode"] = kinds.get("ea_inode", 0) + 1
                if i.is_dir() and (i.flags & I.FL_INLINE_DATA):
                    kinds["inline_dir"] = kinds.get("inline_dir", 0) + 1
                if i.is_reg() and (i.flags & I.FL_INLINE_DATA):
                    kinds["inline_file"] = kinds.get("inline_file", 0) + 1
                if len(i.raw) > 128 and i.extra_isize:
                    try:
                        if img.xattr_entries(i)[0]:
                            kinds["in_inode_xattr"] = kinds.get("in_inode_xattr", 0) + 1
                    except I.FormatError:
                        pass
        sb = M.read_sb(path)
        return {"kinds": kinds, "features": M.features(sb), "inode_size": sb["s_inode_size"],
                "bs": img.bs, "blocks": img.blocks_count, "stride": sb.get("s_raid_stride", 0)}


def w_base(arg):
    """build one base image; returns (name, error or None, info)"""
    broot, name, path, workdir = arg
    b = build.Build(broot, "plain")
    env = run.base_env(b)
    ent = IMAGE_BY_NAME[name]
    info = {"settled": False, "indexed": False}
    try:
        zoo.build_image(b, ent["spec"], path, workdir)
        if ent.get("many"):
            # enough long names for a two-level htree once the directory is indexed
            sfile = os.path.join(workdir, "many-" + name)
            with open(sfile, "w") as f:
                f.write("mkdir /c11many\n")
                for k in range(ent["many"]):
                    if ent.get("many_name"):
                        f.write("write /dev/null /c11many/%s\n" % (ent["many_name"] % k))
                    else:
                        f.write("write /dev/null /c11many/%04d%s\n" % (k, "n" * 236))
            r = run.run([b.tool("debugfs"), "-w", "-f", sfile, path], env=env, timeout=300)
            if r.rc != 0:
                return name, "debugfs population failed: %s" % r.etext[-300:], info
        ok, why = _consistent(b, env, path)
        if not ok:
            r = run.run([b.tool("e2fsck"), "-fy", path], env=env, timeout=300)
            if r.rc not in (0, 1):
                return name, "settling e2fsck -fy exit %s (%s)" % (r.rc, why), info
            info["settled"] = why
        if ent.get("index"):
            r = run.run([b.tool("e2fsck"), "-fyD", path], env=env, timeout=300)
            if r.rc not in (0, 1):
                return name, "indexing e2fsck -fyD exit %s" % r.rc, info
            info["indexed"] = True
        ok, why = _consistent(b, env, path)
        if not ok:
            return name, "base image not consistent: " + why, info
        info.update(image_info(path))
    except (zoo.ZooError, I.FormatError, OSError) as e:
        return name, "%s: %s" % (type(e).__name__, e), info
    return name, None, info


# ---------------------------------------------------------------------------------------
# request generation (drives the workload; acceptance is taken from the exit status)

UUIDS = ["c1b9d5a2-f162-11cf-9ece-0020afc76f16", "00112233-4455-6677-8899-aabbccddeeff",
         "ffffffff-ffff-ffff-ffff-ffffffffffff", "0f0e0d0c-0b0a-4908-8706-050403020100"]
TOGGLE = ["metadata_csum", "uninit_bg", "has_journal", "quota", "project", "dir_index", "dir_nlink",
          "huge_file", "large_file", "metadata_csum_seed", "orphan_file", "extra_isize", "read_only",
          "flex_bg", "filetype"]
TOGGLE_W = [10, 5, 8, 5, 4, 5, 2, 3, 3, 6, 5, 2, 2, 3, 1]
SET_ONLY = ["extent", "ea_inode", "large_dir", "stable_inodes", "sparse_super"]
SET_ONLY_W = [4, 4, 3, 1, 1]


def feat(f, on):
    return {"k": "feat", "f": f, "on": bool(on)}


def a_uuid(rng, sb, mode=None):
    mode = mode or rng.choices(["fixed", "clear", "time", "random"], [8, 1, 1, 1])[0]
    if mode != "fixed":
        return {"k": "uuid", "mode": mode}
    cur = sb["s_uuid"].hex() if sb else ""
    cands = [u for u in UUIDS if u.replace("-", "") != cur]
    return {"k": "uuid", "mode": "fixed", "v": rng.choice(cands)}


def a_jadd(rng, sb):
    bs = 1024 << sb["s_log_block_size"]
    mb = rng.choice([1, 1, 2, 4]) if bs == 1024 else rng.choice([4, 4, 8])
    return [feat("has_journal", True), {"k": "jsize", "mb": mb}]


def a_isize(rng, sb, grow=True):
    cur = sb["s_inode_size"]
    bs = 1024 << sb["s_log_block_size"]
    if grow:
        c = [n for n in (256, 512, 1024) if n > cur and n <= bs]
        if c:
            return {"k": "isize", "n": rng.choice(c[:2])}
    return {"k": "isize", "n": rng.choice([128, 256, 512, cur])}


def gen_structural(rng, sb, mmp_ok):
    r = rng.random()
    if r < 0.12:
        return [a_uuid(rng, sb)]
    if r < 0.19:
        return [a_isize(rng, sb, grow=rng.random() < 0.85)]
    if r < 0.25:
        t = rng.choice(["usrquota", "grpquota", "prjquota"])
        fld = M.QUOTA_FIELD[t]
        on = (sb[fld] == 0) if rng.random() < 0.8 else (sb[fld] != 0)
        atoms = [{"k": "quota", "t": t, "on": on}]
        if rng.random() < 0.25:
            t2 = rng.choice([x for x in M.QUOTA_FIELD if x != t])
            atoms.append({"k": "quota", "t": t2, "on": rng.random() < 0.5})
        return atoms
    if r < 0.31:
        combo = rng.choice(["csumoff-uninitoff", "csum+seed", "ext3to4", "jrnl+orphan-off", "quota+project",
                            "csum+extent"])
        if combo == "csumoff-uninitoff":
            return [feat("metadata_csum", False), feat("uninit_bg", False)]
        if combo == "csum+seed":
            return [feat("metadata_csum", True), feat("metadata_csum_seed", True)]
        if combo == "ext3to4":
            return [feat("extent", True), feat("uninit_bg", True), feat("dir_index", True)]
        if combo == "jrnl+orphan-off":
            return [feat("has_journal", False), feat("orphan_file", False)]
        if combo == "quota+project":
            return [feat("quota", True), feat("project", True)]
        return [feat("metadata_csum", True), feat("extent", True)]
    if mmp_ok and r < 0.36:
        on = not M.has(sb, "mmp")
        atoms = [feat("mmp", on)]
        if on:
            atoms.append({"k": "ext", "o": "mmp_update_interval", "v": 1})
        return atoms
    if r < 0.47:
        f = rng.choices(SET_ONLY + ["resize_inode"], SET_ONLY_W + [1])[0]
        if f == "resize_inode":
            return [feat(f, False)]
        return [feat(f, rng.random() < 0.93)]
    f = rng.choices(TOGGLE, TOGGLE_W)[0]
    cur = M.has(sb, f)
    on = (not cur) if rng.random() < 0.82 else cur
    if f == "has_journal" and on:
        return a_jadd(rng, sb) if rng.random() < 0.8 else [feat(f, True)]
    return [feat(f, on)]


def gen_field(rng, sb):
    k = rng.choice(["e", "c", "C", "i", "L", "M", "m", "r", "g", "u", "T", "ext", "ext", "ext",
                    "mntopt", "mntopt"])
    blocks = M.flat(sb)["blocks_count"]
    if k == "e":
        return [{"k": "e", "v": rng.choice(["continue", "remount-ro", "panic"])}]
    if k == "c":
        return [{"k": "c", "v": rng.choice([0, 1, 20, -1, 255, 16000])}]
    if k == "C":
        return [{"k": "C", "v": rng.choice([0, 1, 5, 16000])}]
    if k == "i":
        return [{"k": "i", "v": rng.choice(["0", "1d", "2w", "6m", "3600s", "180"])}]
    if k == "L":
        return [{"k": "L", "v": rng.choice(["", "x", "c11label", "sixteen_chars_lb",
                                            "a_label_longer_than_16"])}]
    if k == "M":
        return [{"k": "M", "v": rng.choice(["/", "/mnt/c11", "x" * 64, "y" * 70])}]
    if k == "m":
        return [{"k": "m", "v": rng.choice(["0", "1", "5", "2.5", "50", "0.1"])}]
    if k == "r":
        return [{"k": "r", "v": rng.choice([0, 1, 100, blocks // 2, blocks // 2 + 1, 4096])}]
    if k in ("g", "u"):
        return [{"k": k, "v": rng.choice([0, 1, 1000, 65534, 65535])}]
    if k == "T":
        s = rng.choice(["20200101", "20010203040506", "19991231235959"])
        fmt = "%Y%m%d%H%M%S" if len(s) == 14 else "%Y%m%d"
        return [{"k": "T", "v": s, "ts": calendar.timegm(time.strptime(s, fmt))}]
    if k == "ext":
        o = rng.choice(["mount_opts", "stride", "stripe_width", "hash_alg", "force_fsck", "multi"])
        if o == "mount_opts":
            return [{"k": "ext", "o": o, "v": rng.choice(["", "data=journal", "nodelalloc", "q" * 63,
                                                          "z" * 64])}]
        if o == "stride":
            return [{"k": "ext", "o": o, "v": rng.choice([0, 1, 16, 65535])}]
        if o == "stripe_width":
            return [{"k": "ext", "o": o, "v": rng.choice([0, 4, 64, 1 << 20])}]
        if o == "hash_alg":
            return [{"k": "ext", "o": o, "v": rng.choice(["half_md4", "tea", "legacy"])}]
        if o == "force_fsck":
            return [{"k": "ext", "o": o}]
        return [{"k": "ext", "o": "stride", "v": rng.choice([2, 8])},
                {"k": "ext", "o": "stripe_width", "v": rng.choice([16, 32])},
                {"k": "ext", "o": "hash_alg", "v": rng.choice(["half_md4", "tea"])}]
    o = rng.choice(sorted(M.MNTOPTS))
    cur = bool(sb["s_default_mount_opts"] & M.MNTOPTS[o]) if not (M.MNTOPTS[o] & M.JMODE) else \
        (sb["s_default_mount_opts"] & M.JMODE) == M.MNTOPTS[o]
    atoms = [{"k": "mntopt", "o": o, "on": (not cur) if rng.random() < 0.8 else cur}]
    if rng.random() < 0.3:
        o2 = rng.choice([x for x in ("acl", "user_xattr", "nobarrier", "discard") if x != o])
        atoms.append({"k": "mntopt", "o": o2, "on": rng.random() < 0.5})
    return atoms


def gen_random(rng, sb, mmp_ok):
    if rng.random() < 0.68:
        return gen_structural(rng, sb, mmp_ok)
    atoms = gen_field(rng, sb)
    if rng.random() < 0.2:
        more = gen_field(rng, sb)
        kinds = {"m" if a["k"] == "r" else a["k"] for a in atoms}      # -m and -r set the same field
        if not (kinds & {"m" if a["k"] == "r" else a["k"] for a in more}):
            atoms += more
    return atoms


def _has(info, f):
    return f in info["features"]


# forced orders: name -> (eligibility(info), script); script steps are resolved against
# the superblock at the time they run
FORCED = [
    ("csum-off/uuid/csum-on", lambda i: _has(i, "metadata_csum") and not _has(i, "stable_inodes"),
     [("feat", "metadata_csum", False), ("uuid",), ("feat", "metadata_csum", True)]),
    ("seed-on/uuid/seed-off", lambda i: _has(i, "metadata_csum") and not _has(i, "stable_inodes"),
     [("feat", "metadata_csum_seed", True), ("uuid",), ("feat", "metadata_csum_seed", False)]),
    ("journal-remove/add", lambda i: _has(i, "has_journal"),
     [("jremove",), ("jadd",)]),
    ("quota-off/on", lambda i: _has(i, "quota"),
     [("feat", "quota", False), ("feat", "quota", True)]),
    ("quota-on/off/on", lambda i: not _has(i, "quota"),
     [("feat", "quota", True), ("feat", "quota", False), ("feat", "quota", True)]),
    ("isize-grow/csum-toggle", lambda i: not _has(i, "flex_bg") and i["inode_size"] < min(512, i["bs"]),
     [("isize",), ("feat", "metadata_csum", "toggle"), ("feat", "metadata_csum", "toggle")]),
    # stride layouts keep both bitmaps right behind the inode table: growing it relocates them
    ("isize-grow-on-stride-layout", lambda i: not _has(i, "flex_bg") and i.get("stride") and
     i["inode_size"] < min(512, i["bs"]),
     [("isize",), ("uuid",)]),
    ("ea_inode/bigxattr/csum-toggle", lambda i: not _has(i, "ea_inode") and i["inode_size"] >= 256
     and i["blocks"] >= 8192,
     [("feat", "ea_inode", True), ("mutate", "bigxattr"), ("feat", "metadata_csum", "toggle"),
      ("feat", "metadata_csum", "toggle")]),
    ("uuid-with-ea_inode", lambda i: _has(i, "ea_inode"),
     [("uuid",), ("feat", "metadata_csum", "toggle"), ("uuid",)]),
    ("uninit_bg-off/on", lambda i: _has(i, "uninit_bg"),
     [("feat", "uninit_bg", False), ("feat", "uninit_bg", True)]),
    ("dir_index-off/on", lambda i: _has(i, "dir_index") and i["kinds"].get("dx_root"),
     [("feat", "dir_index", False), ("feat", "dir_index", True)]),
    ("ext3-to-ext4", lambda i: not _has(i, "extent") and _has(i, "has_journal"),
     [("combo", "ext3to4"), ("feat", "metadata_csum", True), ("uuid",)]),
    ("orphan_file-off/on", lambda i: _has(i, "orphan_file"),
     [("feat", "orphan_file", False), ("feat", "orphan_file", True)]),
    ("journal-remove-with-orphan_file", lambda i: _has(i, "orphan_file"),
     [("feat", "has_journal", False)]),
    ("csum-on-full-htree-node", lambda i: not _has(i, "metadata_csum") and i["kinds"].get("dx_full_node"),
     [("feat", "metadata_csum", True), ("uuid",)]),
    ("csum-on-htree-nocsum", lambda i: not _has(i, "metadata_csum") and i["kinds"].get("dx_root"),
     [("feat", "metadata_csum", True), ("feat", "metadata_csum", False)]),
]
MMP_PLANS = [
    ("ext4_mmp", [("feat", "mmp", False), ("random",), ("random",)]),
    ("ext4_1k", [("mmp-on",), ("feat", "metadata_csum", "toggle"), ("feat", "mmp", False)]),
    ("ext4_mmp", [("clear_mmp",), ("uuid",), ("feat", "mmp", False)]),
    ("ext4_csumseed", [("mmp-on",), ("feat", "metadata_csum_seed", False), ("feat", "mmp", False)]),
]


def resolve_step(step, rng, sb, mmp_ok):
    k = step[0]
    if k == "feat":
        on = step[2]
        if on == "toggle":
            on = not M.has(sb, step[1])
        return [feat(step[1], on)]
    if k == "uuid":
        return [a_uuid(rng, sb, "fixed")]
    if k == "jremove":
        # the orphan file lives on the journal: drop both where both exist
        if M.has(sb, "orphan_file"):
            return [feat("has_journal", False), feat("orphan_file", False)]
        return [feat("has_journal", False)]
    if k == "jadd":
        return a_jadd(rng, sb)
    if k == "isize":
        return [a_isize(rng, sb, True)]
    if k == "combo":
        return [feat("extent", True), feat("uninit_bg", True), feat("dir_index", True)]
    if k == "mmp-on":
        return [feat("mmp", True), {"k": "ext", "o": "mmp_update_interval", "v": 1}]
    if k == "clear_mmp":
        return [{"k": "ext", "o": "clear_mmp"}]
    if k == "random":
        return gen_random(rng, sb, mmp_ok)
    raise ValueError(step)


def plan_sequences(seed, n, infos, tier):
    """deterministic list of sequence descriptors"""
    rng = run.rng_for(seed, "C11-plan")
    names = sorted(nm for nm in infos if not IMAGE_BY_NAME[nm].get("mmp"))
    seqs = []
    n_forced = max(len(FORCED), int(n * FORCED_SHARE)) if n >= 2 * len(FORCED) else n // 2
    n_mmp = min(MMP_MAX[tier], max(1, n // 50)) if n >= 20 else 0
    for i in range(n):
        d = {"idx": i, "seed": seed, "forced": None, "mmp": False}
        if i < n_forced:
            name, elig, script = FORCED[i % len(FORCED)]
            cands = [nm for nm in names if elig(infos[nm])]
            if cands:
                d.update(forced=name, image=rng.choice(cands), script=[list(s) for s in script],
                         pre=rng.choice([0, 0, 1]), post=rng.choice([0, 0, 1, 2, 3]))
                seqs.append(d)
                continue
        if i < n_forced + n_mmp:
            img, script = MMP_PLANS[(i - n_forced) % len(MMP_PLANS)]
            if img in infos:
                d.update(forced="mmp", mmp=True, image=img, script=[list(s) for s in script],
                         pre=0, post=0)
                seqs.append(d)
                continue
        d.update(image=rng.choice(names), len=rng.choice([1, 2, 2, 3, 3, 4, 4, 5, 5, 6, 7, 8]))
        seqs.append(d)
    return seqs


# ---------------------------------------------------------------------------------------
# execution and judgement of one sequence

FRESH_MSG = "requires a freshly checked filesystem"
NOSPACE_RE = re.compile(r"Could not allocate block|No free space|No space left")


def norm_fsck_line(text):
    for ln in text.splitlines():
        s = ln.strip()
        if not s or s.startswith(("e2fsck ", "Pass ")) or re.fullmatch(r"\w+\? (no|yes)", s):
            continue
        s = re.sub(r"^\S*/e2fsck: ", "e2fsck: ", s)       # program path of com_err messages
        return re.sub(r"\d+", "N", s)[:100]
    return "(no problem line)"


def first_attr(diffs):
    d = diffs[0]
    if d.startswith(("added", "missing")):
        return d.split()[0]
    m = re.match(r".*?: (\w+) ", d)
    return m.group(1) if m else "other"


class Seq:
    def __init__(self, broot, basedir, workroot, desc):
        self.b = build.Build(broot, "plain")
        self.desc = desc
        self.dir = os.path.join(workroot, "s%d" % desc["idx"])
        shutil.rmtree(self.dir, ignore_errors=True)
        os.makedirs(self.dir)
        self.img = os.path.join(self.dir, "fs.img")
        run.copy_sparse(os.path.join(basedir, desc["image"] + ".img"), self.img)
        self.env = run.base_env(self.b, extra={"E2FSPROGS_UNDO_DIR": self.dir})
        self.steps = []          # per tune2fs invocation
        self.ops = []            # replayable descriptors, in execution order
        self.viol = []           # (key, what, step index)
        self.harness = []
        self.inconclusive = []
        self.broken = False
        self.mutated = False
        self.dig0 = None
        self.dig = None
        self.t0 = time.time()

    # ---- helpers
    def digest(self):
        with I.Image(self.img) as im:
            return T.tree_digest(im)

    def fsck(self, *flags):
        return run.run([self.b.tool("e2fsck")] + list(flags) + [self.img], env=self.env, timeout=300)

    def v(self, key, what):
        self.viol.append((key, what, len(self.steps) - 1))

    def pyoracle(self):
        """independent checker + the orphan-file block check it lacks -> (keys, details)"""
        keys, det = fsckpair.pycheck(self.img)
        if "ORACLE-CRASH" not in keys and "F4:unparsable-superblock" not in keys:
            try:
                with I.Image(self.img) as im:
                    extra = M.orphan_file_problems(im)
            except I.FormatError:
                extra = []
            keys = sorted(set(keys) | set(extra))
            det = det + extra
        return keys, det

    def consistency(self, label, B, when):
        """e2fsck -fn == 0 and independent checker silent; records violations.  True if ok"""
        r = self.fsck("-fn")
        if r.timed_out:
            self.inconclusive.append("e2fsck -fn timeout after " + label)
            return False
        ok = True
        if r.rc != 0:
            self.v("C11 %s e2fsck-fn %s [%s]%s" % (label, norm_fsck_line(r.text), M.feature_class(B),
                                                    " after-requested-e2fsck" if when else ""),
                   "%s: e2fsck -fn exits %s%s: %s" % (label, r.rc, when, r.text[-700:]))
            ok = False
        keys, det = self.pyoracle()
        if "ORACLE-CRASH" in keys:
            self.harness.append("oracle crash after %s: %s" % (label, det))
            return False
        if keys:
            self.v("C11 %s pyext4 %s%s" % (label, ",".join(keys), " after-requested-e2fsck" if when else ""),
                   "%s: independent checker%s: %s (e2fsck -fn exit %s)" % (label, when, det[:4], r.rc))
            ok = False
        return ok

    def heal(self):
        """after a consistency violation: try to get back to a consistent fs with the same
        tree so that the rest of the sequence is still meaningful"""
        r = self.fsck("-fy")
        if r.rc in (0, 1):
            r2 = self.fsck("-fn")
            keys, _ = self.pyoracle()
            try:
                same = not T.diff_digests(self.dig, self.digest())
            except (I.FormatError, struct.error):
                same = False
            if r2.rc == 0 and not keys and same:
                return True
        self.broken = True
        return False

    # ---- one tune2fs invocation
    def invoke(self, atoms, retry_ok=True, is_retry=False, core=False):
        label = M.op_label(atoms)
        argv = M.op_argv(atoms)
        B = M.read_sb(self.img)
        sha_b = run.sha256_file(self.img)
        r = run.run([self.b.tool("tune2fs")] + argv + [self.img], env=self.env, timeout=240,
                    stdin=b"y\ny\ny\n")
        for f in os.listdir(self.dir):
            if f.endswith(".e2undo"):
                os.unlink(os.path.join(self.dir, f))
        out = r.text + r.etext
        st = {"label": label, "argv": argv, "atoms": [M.atom_label(a) for a in atoms], "rc": r.rc,
              "cls": None, "structural": False, "asked": None, "retry": is_retry, "core": core,
              "out": out[-600:]}
        self.steps.append(st)
        if not is_retry:
            self.ops.append({"atoms": atoms})
        if r.timed_out:
            st["cls"] = "timeout"
            self.inconclusive.append("tune2fs timeout: " + label)
            self.broken = True
            return
        if r.sig:
            st["cls"] = "signal"
            self.v("C11 %s tune2fs-signal %d" % (label, r.sig), "%s died with signal %d: %s" %
                   (label, r.sig, out[-400:]))
            self.broken = True
            return
        if r.rc != 0:
            self.refused(st, label, B, sha_b, out)
            if FRESH_MSG in out and retry_ok and not self.broken:
                st["wants_fresh_check"] = True
                p = self.fsck("-fy")
                if p.rc not in (0, 1):
                    self.harness.append("preparatory e2fsck -fy exit %s before %s" % (p.rc, label))
                    self.broken = True
                    return
                try:
                    if T.diff_digests(self.dig, self.digest()):
                        self.harness.append("preparatory e2fsck -fy changed the tree before " + label)
                        self.broken = True
                        return
                except I.FormatError as e:
                    self.harness.append("tree unreadable after preparatory e2fsck: %s" % e)
                    self.broken = True
                    return
                st["core"] = False
                self.invoke(atoms, retry_ok=False, is_retry=True, core=core)
            return
        self.accepted(st, label, atoms, B, out)

    def refused(self, st, label, B, sha_b, out):
        if run.sha256_file(self.img) == sha_b:
            st["cls"] = "refused-clean"
            return
        st["cls"] = "refused-but-touched"
        why = []
        try:
            A = M.read_sb(self.img)
            d = {k: v for k, v in M.sb_diff(B, A).items() if k not in M.GLOBAL_ALLOWED}
            if d:
                why.append("superblock fields changed: %s" % _short(d))
            td = T.diff_digests(self.dig, self.digest())
            if td:
                why.append("tree differs: %s" % td[:3])
        except I.FormatError as e:
            why.append("unreadable: %s" % e)
        r = self.fsck("-fn")
        keys, det = self.pyoracle()
        if r.rc != 0:
            why.append("e2fsck -fn exit %s: %s" % (r.rc, norm_fsck_line(r.text)))
        if keys:
            why.append("independent checker: %s" % det[:3])
        if why:
            self.v("C11 %s refused-but-changed" % label,
                   "%s exits %s (%s) but left changes: %s" % (label, st["rc"], out.strip()[-200:], "; ".join(why)))
            if r.rc != 0 or keys or any(w.startswith(("tree", "unreadable")) for w in why):
                self.heal()

    def accepted(self, st, label, atoms, B, out):
        st["cls"] = "accepted"
        try:
            A = M.read_sb(self.img)
        except I.FormatError as e:
            self.v("C11 %s pyext4 F4:unparsable-superblock" % label, "%s: %s" % (label, e))
            self.broken = True
            return
        diff = M.sb_diff(B, A)
        st["structural"] = M.is_structural_change(diff)
        st["changed"] = sorted(k for k in diff if k not in M.GLOBAL_ALLOWED)
        asked = None
        if "Please run e2fsck -fD" in out:
            asked = "-fyD"
        elif "Please run e2fsck -f" in out or not (A["s_state"] & 1):
            asked = "-fy"
        st["asked"] = asked
        # (a) + (b)
        try:
            with I.Image(self.img) as im:
                bad, allowed = M.judge_atoms(atoms, B, A, im)
        except I.FormatError as e:
            bad, allowed = M.judge_atoms(atoms, B, A, None)
        for alabel, whyb in bad:
            self.v("C11 %s setting-not-in-effect" % alabel,
                   "%s exits 0 but %s; output: %s" % (label, whyb, out.strip()[-300:]))
        allowed = set(allowed) | M.GLOBAL_ALLOWED
        if asked:
            allowed.add("state:valid")
        for fld in sorted(diff):
            if fld not in allowed:
                self.v("C11 %s unrequested-sb-field %s" % (label, fld),
                       "%s changed %s: %s -> %s" % (label, fld, _short(diff[fld][0]), _short(diff[fld][1])))
        # (c)
        if not self.tree_same(label, ""):
            return
        # (d)
        when = ""
        if asked:
            p = self.fsck(*asked.split())
            st["asked_rc"] = p.rc
            when = " after the requested e2fsck %s (exit %s)" % (asked, p.rc)
            if p.timed_out:
                self.inconclusive.append("requested e2fsck timeout after " + label)
                self.broken = True
                return
            if NOSPACE_RE.search(p.text + p.etext):
                # a conversion that needs room (checksum tails, htree rebuild) cannot be completed
                # on a filesystem without free blocks: precondition not met, no verdict
                st["asked_nospace"] = True
                self.inconclusive.append("requested e2fsck %s ran out of space after %s" % (asked, label))
                self.broken = True
                return
            if p.rc not in (0, 1):
                self.v("C11 %s requested-fsck-failed exit %s" % (label, p.rc),
                       "%s asked for e2fsck %s, which exits %s: %s" % (label, asked, p.rc, p.text[-600:]))
                self.heal()
                return
            if not self.tree_same(label, when):
                return
        if not self.consistency(label, B, when):
            if not self.inconclusive and not self.harness:
                self.heal()

    def tree_same(self, label, when):
        try:
            d2 = self.digest()
        except Exception as e:          # FormatError or a parser exception on garbage
            self.v("C11 %s tree-differs unreadable" % label, "%s: tree unreadable%s: %r" % (label, when, e))
            self.broken = True
            return False
        td = T.diff_digests(self.dig, d2)
        if td:
            self.v("C11 %s tree-differs %s" % (label, first_attr(td)),
                   "%s: files changed%s: %s" % (label, when, td[:4]))
            self.broken = True
            return False
        return True

    # ---- a content mutation between invocations (debugfs), re-baselines the digest
    def mutate(self, what):
        self.ops.append({"mutate": what})
        big = os.path.join(self.dir, "bigval")
        with open(big, "wb") as f:
            f.write(trees.pattern(91, 6000))
        big2 = os.path.join(self.dir, "bigval2")
        with open(big2, "wb") as f:
            f.write(trees.pattern(92, 66000))
        script = os.path.join(self.dir, "mut.dbg")
        with open(script, "w") as f:
            f.write("write /dev/null /c11_bigxattr\n"
                    "ea_set -f %s /c11_bigxattr user.big\n"
                    "ea_set -f %s /c11_bigxattr user.huge\n"
                    "ea_set /c11_bigxattr user.small tiny\n" % (big, big2))
        r = run.run([self.b.tool("debugfs"), "-w", "-f", script, self.img], env=self.env, timeout=120)
        # known defect of the tree (C15): ea_set leaves the EA inode's i_blocks 0 -> settle
        p = self.fsck("-fy")
        ok, why = _consistent(self.b, self.env, self.img)
        if r.rc != 0 or p.rc not in (0, 1) or not ok:
            self.harness.append("mutation %s failed: debugfs %s, e2fsck -fy %s, %s" % (what, r.rc, p.rc, why))
            self.broken = True
            return
        self.dig = self.digest()
        self.mutated = True
        n = 0
        with I.Image(self.img) as im:
            for i in MM.in_use_inodes(im):
                if i.flags & I.FL_EA_INODE:
                    n += 1
        self.ea_inodes_after_mutation = n

    # ---- drive
    def run(self):
        d = self.desc
        rng = run.rng_for(d["seed"], "C11-seq", d["idx"])
        self.dig0 = self.dig = self.digest()
        if "ops" in d:                              # replay: fixed list
            for op in d["ops"]:
                if self.broken:
                    break
                if "mutate" in op:
                    self.mutate(op["mutate"])
                else:
                    self.invoke(op["atoms"])
        else:
            plan = []
            if d.get("script"):
                plan = [("random-field",)] * d["pre"] + [tuple(s) for s in d["script"]] + \
                       [("random",)] * d["post"]
            else:
                plan = [("random",)] * d["len"]
            for step in plan:
                if self.broken:
                    break
                sb = M.read_sb(self.img)
                if step[0] == "mutate":
                    self.mutate(step[1])
                    continue
                if step[0] == "random-field":
                    atoms = gen_field(rng, sb)
                else:
                    atoms = resolve_step(step, rng, sb, d["mmp"])
                self.invoke(atoms, core=bool(d.get("script")) and step[0] not in ("random", "random-field"))
        if not self.broken and not self.mutated:
            try:
                td = T.diff_digests(self.dig0, self.digest())
            except I.FormatError as e:
                td = ["unreadable: %s" % e]
            if td:
                self.viol.append(("C11 sequence tree-differs %s" % first_attr(td),
                                  "tree after the whole sequence differs from the first: %s" % td[:4],
                                  len(self.steps) - 1))
        return self.result()

    def result(self):
        return {"idx": self.desc["idx"], "image": self.desc["image"], "forced": self.desc.get("forced"),
                "steps": self.steps, "ops": self.ops, "viol": self.viol, "harness": self.harness,
                "inconclusive": self.inconclusive, "mutated": self.mutated,
                "wall": round(time.time() - self.t0, 1),
                "ea_inodes_after_mutation": getattr(self, "ea_inodes_after_mutation", None)}


def _short(x):
    if isinstance(x, (bytes, bytearray)):
        return x.hex()[:40]
    if isinstance(x, dict):
        return "{%s}" % ", ".join("%s: %s->%s" % (k, _short(v[0]), _short(v[1])) for k, v in
                                  list(x.items())[:8])
    return str(x)[:60]


def w_seq(arg):
    broot, basedir, workroot, desc = arg
    s = None
    try:
        s = Seq(broot, basedir, workroot, desc)
        return s.run()
    except Exception as e:               # harness trouble must not kill the pool
        import traceback
        res = s.result() if s is not None else {"idx": desc["idx"], "image": desc.get("image"),
                                                "forced": desc.get("forced"), "steps": [], "ops": [],
                                                "viol": [], "inconclusive": [], "mutated": False,
                                                "ea_inodes_after_mutation": None}
        res["harness"] = list(res.get("harness", [])) + ["worker exception: %s" %
                                                         traceback.format_exc()[-600:]]
        return res
    finally:
        if s is not None:
            shutil.rmtree(s.dir, ignore_errors=True)


# ---------------------------------------------------------------------------------------

def absorb(rep, res, stats):
    for h in res["harness"]:
        rep.harness_error("seq %s (%s): %s" % (res["idx"], res["image"], h))
    for w in res["inconclusive"]:
        rep.note_inconclusive(w)
    acc_struct = []
    for st in res["steps"]:
        labels = list(st["atoms"])
        if len(labels) > 1 and all(a.startswith(("-O", "-Q")) for a in labels):
            labels.append(st["label"])        # a combined feature request counts as an option too
        os_ = [stats["options"].setdefault(l, {"accepted": 0, "refused": 0}) for l in labels]
        rep.count("invocations")
        if st["cls"] == "accepted":
            for o in os_:
                o["accepted"] += 1
            rep.count("accepted")
            if st["structural"]:
                acc_struct.append(st["label"])
                rep.count("accepted_feature_uuid_isize_changes")
            if st["asked"]:
                rep.count("followup_fsck_requested " + st["asked"])
            for a in st["atoms"]:
                rep.add("accepted_atoms", a)
        elif st["cls"] in ("refused-clean", "refused-but-touched"):
            for o in os_:
                o["refused"] += 1
            rep.count("refused")
            rep.count(st["cls"])
            if st.get("wants_fresh_check"):
                rep.count("refused_wants_fresh_check_then_prepared")
        else:
            rep.count("invocation_" + str(st["cls"]))
        if st["retry"]:
            rep.count("retries_after_preparatory_fsck")
        rep.add("options_tried", st["label"])
    if res["forced"]:
        f = stats["forced"].setdefault(res["forced"], {"sequences": 0, "core_all_accepted": 0})
        f["sequences"] += 1
    if res["mutated"]:
        rep.count("sequences_with_debugfs_bigxattr_mutation")
        if res.get("ea_inodes_after_mutation"):
            rep.count("ea_inodes_created_by_mutation", res["ea_inodes_after_mutation"])
    rep.add("images_used", res["image"])
    key = None
    if len(acc_struct) >= 2:
        key = "%s|%s" % (res["image"], ">".join(acc_struct))
    rep.case(key)
    rep.count("sequence_length_%d" % min(len(res["steps"]), 9))
    core = [st for st in res["steps"] if st.get("core")]
    if res["forced"] and core and all(st["cls"] == "accepted" for st in core):
        stats["forced"][res["forced"]]["core_all_accepted"] += 1
    seen = set()
    for key_v, what, stepi in res["viol"]:
        if key_v in seen:
            continue
        seen.add(key_v)
        ops = res["ops"]
        rep.violation(key_v, "image %s, after %s: %s" %
                      (res["image"], [s["label"] for s in res["steps"][:stepi + 1]], what),
                      replay={"image": res["image"], "ops": ops, "idx": res["idx"],
                              "forced": res["forced"]},
                      files={"steps.json": json.dumps(res["steps"], indent=1).encode()})
    if len(rep.samples) < 6 and len(acc_struct) >= 2 and (res["forced"] or len(rep.samples) < 3):
        rep.sample({"image": res["image"], "forced": res["forced"],
                    "invocations": [{"argv": " ".join(s["argv"]), "class": s["cls"], "exit": s["rc"],
                                     "sb_fields_changed": s.get("changed"), "asked_fsck": s["asked"]}
                                    for s in res["steps"]]})


def main(tier, seed, replay=None, scale=1.0):
    rep = report.Report("C11", tier, seed, "exploration", rule=RULE)
    b = build.get_build("plain")
    rcase = None
    if replay:
        rcase = json.load(open(os.path.join(replay, "case.json")))["case"]
    with run.Work("C11") as work:
        basedir = work.sub("bases")
        wroot = work.sub("w")
        names = [d["spec"]["name"] for d in IMAGES]
        if rcase:
            names = [rcase["image"]]
        got = run.pmap(w_base, [(b.root, n, os.path.join(basedir, n + ".img"), basedir) for n in names])
        infos = {}
        kinds_union = {}
        for n, err, info in got:
            if err:
                rep.harness_error("base image %s: %s" % (n, err))
                continue
            infos[n] = info
            for k, c in info["kinds"].items():
                kinds_union[k] = kinds_union.get(k, 0) + c
        if not infos:
            return rep.finish()
        stats = {"options": {}, "forced": {}}
        if rcase:
            seqs = [{"idx": rcase.get("idx", 0), "seed": seed, "image": rcase["image"],
                     "forced": rcase.get("forced"), "mmp": True, "ops": rcase["ops"]}]
        else:
            n = max(4, int(BUDGET[tier] * scale))
            seqs = plan_sequences(seed, n, infos, tier)
        t_base = time.time() - rep.t0
        # longest first (MMP waits, big directories), so that the pool does not idle at the end
        def cost(d):
            i = infos[d["image"]]
            return (2 if d.get("mmp") else 0, i["kinds"].get("inode", 0) * (d.get("len") or 5))
        order = sorted(range(len(seqs)), key=lambda k: cost(seqs[k]), reverse=True)
        got = run.pmap(w_seq, [(b.root, basedir, wroot, seqs[k]) for k in order])
        results = [None] * len(seqs)
        for k, r in zip(order, got):
            results[k] = r
        rep.extra["timing"] = {"base_images_s": round(t_base, 1),
                               "sequences_s": round(time.time() - rep.t0 - t_base, 1),
                               "slowest_sequences": sorted(((r.get("wall", 0), r["image"], str(r["forced"]))
                                                            for r in results), reverse=True)[:5]}
        for res in results:
            absorb(rep, res, stats)
        rep.extra["invocations_per_option"] = {k: [v["accepted"], v["refused"]] for k, v in
                                               sorted(stats["options"].items())}
        rep.extra["forced_orders"] = stats["forced"]
        rep.extra["object_kinds_in_images"] = kinds_union
        rep.extra["images"] = {n: {"settled_with_e2fsck_fy": i["settled"], "indexed_with_e2fsck_fyD":
                                   i["indexed"], "kinds": sorted(i["kinds"])} for n, i in infos.items()}
        if rcase:
            for res in results:
                print(json.dumps(res["steps"], indent=1)[:6000])
    rep.assumptions = [
        "acceptance is the exit status; the option generator only biases towards plausible requests",
        "metadata_csum supersedes uninit_bg: `-O uninit_bg` on a metadata_csum filesystem is a no-op",
        "`-O ^quota` / `-Q ^prjquota` also clear the project feature (handle_quota_options ties them)",
        "images whose build needs it are settled once with e2fsck -fy (listed under images); directories "
        "are indexed with e2fsck -fyD where marked, since mke2fs -d writes no htree",
        "E2FSPROGS_UNDO_DIR points into the scratch directory so that -I uses its default undo file",
        "a requested e2fsck that reports 'Could not allocate block' (completely full filesystem) makes the "
        "case inconclusive: the conversion needs free blocks",
    ]
    return rep.finish(min_nontrivial=1 if rcase else 2)
