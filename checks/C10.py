"""C10 - directory operations keep the namespace exact, at every directory size.

Histories of debugfs namespace commands (mkdir, write, ln, unlink, rm, rmdir, symlink, mknod,
expand_dir, cd; `sif <name> links_count` completes `ln`/`unlink`, which by design do not touch
i_links_count) are generated FROM a Python namespace model (vf/c10lib.Model) so that every
command is legal or is expected to fail, executed in chunks (`debugfs -w -f`) on filesystems
made by the tree's mke2fs, interleaved with `e2fsck -fyD` and `e2fsck -fy`.  After every
chunk and every e2fsck run: the listing of every directory by the independent reader
(vf.pyext4) must equal the model exactly (names, inode type, dirent type, identity of hard
links, link counts, symlink targets, device numbers, file content), debugfs `ls -l` of the
biggest directories must show the same names/types/inodes, the in-use inode count must equal
the model's, no block may stay allocated without an owner, the independent checker (htree
hash order and ranges with its own hash functions, dirent chains, dx counts/limits,
checksums, bitmaps, link counts) must be silent and `e2fsck -fn` must exit 0.

The generator looks at the image between chunks (through vf.pyext4 only) to steer names into
chosen htree leaves and to place major-hash collisions; the verdict never depends on that.

VERIF_MINIMISE=1 shrinks a failing history (whole steps, then operations) while the same
violation key persists; the result is stored in the replay directory (minimised.txt/.json).
"""
import hashlib
import json
import os
import re
import struct

from vf import build, run, report
from vf import c10lib as L
from vf.pyext4 import image as I
from vf.pyext4 import check as C

BUDGET = {"quick": 60, "thorough": 1500}

# name, mke2fs args, size KiB, block size, main directory kind
CONFIGS = [
    ("ext4_1k", "-t ext4 -b 1024 -O ^has_journal", 32768, 1024, "htree"),
    ("ext4_1k_nocsum", "-t ext4 -b 1024 -O ^has_journal,^metadata_csum", 32768, 1024, "htree"),
    ("ext4_4k", "-t ext4 -b 4096 -O ^has_journal", 65536, 4096, "htree"),
    ("ext2_1k", "-t ext2 -b 1024", 32768, 1024, "htree"),
    ("ext2_1k_nofiletype", "-t ext2 -b 1024 -O ^filetype", 32768, 1024, "htree"),
    ("ext4_1k_linear", "-t ext4 -b 1024 -O ^has_journal,^dir_index", 32768, 1024, "linear"),
    ("ext2_4k_linear", "-t ext2 -b 4096 -O ^dir_index", 65536, 4096, "linear"),
    ("inline_1k", "-t ext4 -b 1024 -I 256 -O inline_data,^has_journal", 32768, 1024, "inline"),
    ("inline_4k_i512", "-t ext4 -b 4096 -I 512 -O inline_data,^has_journal", 65536, 4096, "inline"),
    ("ext4_1k_nodirnlink", "-t ext4 -b 1024 -O ^has_journal,^dir_nlink", 32768, 1024, "htree"),
    ("ext4_1k_largedir", "-t ext4 -b 1024 -O ^has_journal,large_dir", 32768, 1024, "htree"),
    ("ext4_2k", "-t ext4 -b 2048 -O ^has_journal", 32768, 2048, "htree"),
    ("ext3_1k_journal", "-t ext3 -b 1024", 32768, 1024, "htree"),
]
CONFIG_BY_NAME = {c[0]: c for c in CONFIGS}
# thorough-only special configurations
SPECIAL = {
    "three_level": ("ext4_1k_largedir_big", "-t ext4 -b 1024 -O ^has_journal,large_dir -N 70000", 131072, 1024,
                    "htree"),
    "many_subdirs": ("ext4_4k_dirnlink_big", "-t ext4 -b 4096 -I 128 -O ^has_journal -N 70000", 400000, 4096,
                     "htree"),
}
for _c in SPECIAL.values():
    CONFIG_BY_NAME[_c[0]] = _c

HASH_NAMES = {0: "legacy", 1: "half_md4", 2: "tea"}
HOST_SIZES = [0, 6, 70, 1500, 5000]
PROFILES = ["long", "mixed", "collision", "long", "mixed", "short"]


def host_content(k):
    n = HOST_SIZES[k]
    return bytes((7 * k + 13 * j + (j >> 5)) & 0xFF for j in range(n))


def hash_seed_uuid(seed):
    h = hashlib.sha256(b"C10-hash-seed|%d" % seed).digest()[:16]
    x = h.hex()
    return "%s-%s-%s-%s-%s" % (x[:8], x[8:12], x[12:16], x[16:20], x[20:]), struct.unpack("<4I", h)


# ----------------------------------------------------------------------------------------
# history descriptor

def plan_history(seed, idx, tier):
    """(config, profile, hash version, unsigned flag, op target) of history idx"""
    rng = run.rng_for(seed, "C10-plan", idx)
    if tier == "thorough" and idx % 500 == 17:
        return {"config": SPECIAL["three_level"][0], "profile": "three_level", "hv": 1, "unsigned": False,
                "nops": 45000}
    if tier == "thorough" and idx % 500 == 23:
        return {"config": SPECIAL["many_subdirs"][0], "profile": "many_subdirs", "hv": 1, "unsigned": False,
                "nops": 65100}
    cfg = CONFIGS[idx % len(CONFIGS)] if rng.random() < 0.8 else rng.choice(CONFIGS)
    kind = cfg[4]
    if kind == "htree":
        profile = rng.choice(PROFILES)
        if cfg[3] >= 4096 and profile == "collision":
            profile = "mixed"
    elif kind == "linear":
        profile = rng.choice(["mixed", "long", "short"])
    else:
        profile = rng.choice(["short", "mixed", "short"])
    r = rng.random()
    nops = rng.randrange(300, 900) if r < 0.4 else rng.randrange(900, 1800) if r < 0.8 else rng.randrange(1800, 3001)
    return {"config": cfg[0], "profile": profile, "hv": rng.choice([1, 1, 2, 0]),
            "unsigned": rng.random() < 0.5, "nops": nops}


# ----------------------------------------------------------------------------------------
# generator

class Gen:
    """Produces the steps of one history; keeps its own Model to emit only commands whose
    outcome the model defines."""

    def __init__(self, rng, desc, cfg, hp, coll, inode_cap, dir_nlink):
        self.rng = rng
        self.desc = desc
        self.cfg = cfg
        self.bs = cfg[3]
        self.kind = cfg[4]
        self.hp = hp
        self.coll = list(coll or [])
        self.profile = desc["profile"]
        self.m = L.Model(dir_nlink=dir_nlink)
        self.nleaves = {}
        self.work = []
        self.grave = {}
        self.targets = {}
        self.inode_cap = inode_cap
        self.stats = {"targeted": 0, "collisions_used": 0, "siblings": 0, "reused_names": 0, "hardlinks": 0,
                      "renames": 0}
        self.total = 0
        self.plan = self._make_plan()
        self.pos = 0
        self.ops = None
        self.view = None
        self.pending_coll = []
        self.csum = "^metadata_csum" not in cfg[1] and "-t ext4" in cfg[1]
        self.focus = self.profile in ("long", "collision") and self.bs <= 2048 and rng.random() < 0.7
        self.packs = []

    # -- plan ---------------------------------------------------------------------------
    def _make_plan(self):
        rng = self.rng
        n = self.desc["nops"]
        if self.profile == "three_level":
            return [("setup",), ("fsck", "-fyD")] + [("massfill", 4000)] * 11 + [("fsck", "-fy"), ("churn", 200),
                                                                                  ("fsck", "-fyD"), ("grow", 300)]
        if self.profile == "many_subdirs":
            return [("subdirs", 5000)] * 13 + [("fsck", "-fy"), ("subdirs_remove", 300), ("fsck", "-fyD"),
                                               ("subdirs", 200)]
        plan = [("setup",)]
        if self.kind == "htree":
            plan.append(("pack_create",))
            plan.append(("fsck", "-fyD"))
            plan.append(("pack_hit",))
        else:
            plan.append(("fsck", "-fyD"))
        left = max(100, n - 60)
        grow1 = int(left * rng.uniform(0.35, 0.55))
        k = grow1
        while k > 0:
            c = min(k, rng.randrange(80, 401))
            plan.append(("grow", c))
            k -= c
            r = rng.random()
            if r < 0.15:
                plan.append(("fsck", "-fy"))
            elif r < 0.33:
                plan.append(("fsck", "-fyD"))
        churn = int(left * rng.uniform(0.1, 0.25))
        plan.append(("churn", min(churn, 400)))
        if rng.random() < 0.5:
            plan.append(("fsck", rng.choice(["-fy", "-fyD"])))
        if rng.random() < 0.75:
            plan.append(("shrink",))
            plan.append(("fsck", "-fyD"))
            plan.append(("regrow", rng.randrange(20, 90)))
            plan.append(("fsck", "-fyD"))
        rest = max(60, left - grow1 - churn)
        k = int(rest * 0.6)
        while k > 0:
            c = min(k, rng.randrange(80, 401))
            plan.append(("grow", c))
            k -= c
            if rng.random() < 0.25:
                plan.append(("fsck", rng.choice(["-fy", "-fyD"])))
        plan.append(("churn", min(300, max(30, int(rest * 0.3)))))
        plan.append(("epilogue",))
        return plan

    # -- plumbing -----------------------------------------------------------------------
    def emit(self, op):
        snap_cwd = self.m.cwd
        r = self.m.apply(op)
        if r == L.UNDEF:
            self.m.cwd = snap_cwd
            return None
        self.ops.append(op)
        self.total += 1
        return r

    def goto(self, oid):
        """cd to directory oid (absolute: cd / then every component)"""
        if self.m.cwd == oid:
            return
        comps = []
        o = oid
        while o != self.m.root:
            ob = self.m.objs[o]
            p = self.m.objs[ob.parent]
            comps.append(next(n for n, i in p.entries.items() if i == o))
            o = ob.parent
        self.emit(("cd", b"/"))
        for c in reversed(comps):
            self.emit(("cd", c))

    def shape_name(self):
        p = self.profile
        if p in ("long", "collision", "three_level"):
            return "long" if self.rng.random() < 0.85 else "mixed"
        if p in ("short", "many_subdirs"):
            return "short" if self.rng.random() < 0.85 else "mixed"
        return "mixed"

    def fresh_name(self, d, allow_special=True):
        """a name not present in directory object d"""
        rng = self.rng
        ents = d.entries
        for _ in range(30):
            r = rng.random()
            n = None
            if allow_special:
                if self.pending_coll and d.oid in self.work[:1] and r < 0.5:
                    n = self.pending_coll.pop()
                    if n not in ents:
                        self.stats["collisions_used"] += 1
                        return n
                    continue
                tg = self.targets.get(d.oid)
                if tg and r < 0.35:
                    lo, hi = rng.choice(tg)
                    ln = max(4, L.pick_len(rng, self.shape_name()))
                    n = L.name_in_range(rng, self.hp, lo, hi, ln, ents, tries=max(400, 40 * self.nleaves.get(d.oid, 1)))
                    if n is not None:
                        self.stats["targeted"] += 1
                        return n
                    continue
                if r < 0.43 and ents:
                    base = rng.choice(list(ents)) if len(ents) < 200 else next(iter(ents))
                    n = L.sibling(rng, base)
                    if n is not None and n not in ents:
                        self.stats["siblings"] += 1
                        return n
                    continue
                g = self.grave.get(d.oid)
                if g and r < 0.55:
                    n = g.pop(rng.randrange(len(g)))
                    if n not in ents:
                        self.stats["reused_names"] += 1
                        return n
                    continue
            n = L.random_name(rng, L.pick_len(rng, self.shape_name()))
            if n not in ents:
                return n
        k = 0
        while True:
            n = b"fallback-%d" % k
            if n not in ents:
                return n
            k += 1

    def room(self):
        return self.m.inodes_in_use() < self.inode_cap

    # -- operations ---------------------------------------------------------------------
    def create(self, d, kinds=None, name=None):
        rng = self.rng
        if not self.room():
            return False
        n = name if name is not None else self.fresh_name(d)
        k = rng.choice(kinds or ["mknod", "mknod", "mkdir", "write", "write", "symlink", "symlink", "mknod_dev"])
        if k == "mkdir" and not self.m.dir_nlink and d.nlink > 60000:
            k = "mknod"
        if k == "mkdir":
            self.emit(("mkdir", n))
            if rng.random() < 0.12 and self.room():
                self.emit(("cd", n))
                sub = self.m.cwdobj()
                for _ in range(rng.choice([1, 1, 2, 3])):
                    self.create(sub, kinds=["mknod", "write", "symlink"], name=L.random_name(rng, L.pick_len(rng, "short")))
                self.emit(("cd", b".."))
        elif k == "write":
            self.emit(("write", rng.randrange(len(HOST_SIZES)), n))
        elif k == "symlink":
            r = rng.random()
            tl = rng.randrange(1, 59) if r < 0.5 else rng.choice([59, 60, 61, 100, 255, 700, self.bs - 1]) \
                if r < 0.8 else rng.randrange(60, min(self.bs, 900))
            t = L.random_name(rng, min(tl, 255), "plain")
            while len(t) < tl:
                t += b"/" + L.random_name(rng, min(tl - len(t) - 1, 200) or 1, "plain")
            t = t[:tl].rstrip(b"/") or b"t"
            self.emit(("symlink", n, t))
        elif k == "mknod":
            self.emit(("mknod", n, b"p"))
        else:
            mj = rng.choice([0, 1, 4, 8, 255, 256, 300, 4095])      # the format holds 12 bits of major
            mn = rng.choice([0, 1, 5, 255, 256, 1000, 65535])
            self.emit(("mknod", n, rng.choice([b"c", b"b"]), mj, mn))
        return True

    def is_work(self, oid):
        return oid in self.work or oid == self.m.lost_found

    def remove(self, d, name=None):
        """remove one entry of d (cwd must be d).  Returns True if an op was emitted."""
        rng = self.rng
        ents = d.entries
        if not ents:
            return False
        for _ in range(6):
            if name is not None and name not in ents:
                return False
            n = name if name is not None else rng.choice(list(ents)) if len(ents) < 400 else \
                rng.choice(list(ents)[:400])
            o = self.m.objs[ents[n]]
            if self.is_work(o.oid):
                if name is not None:
                    return False
                continue
            if o.kind == "d":
                if o.entries:
                    if self.has_work_below(o):
                        continue
                    self.empty_subdir(n, o)
                self.emit(("rmdir", n))
            else:
                if o.names > 1 and rng.random() < 0.3:
                    self.emit(("sif", n, o.nlink - 1))
                    self.emit(("unlink", n))
                else:
                    self.emit(("rm", n))
            self.grave.setdefault(d.oid, []).append(n)
            if len(self.grave[d.oid]) > 200:
                self.grave[d.oid].pop(0)
            return True
        return False

    def has_work_below(self, o):
        for oid in self.work:
            x = oid
            while x != self.m.root:
                if x == o.oid:
                    return True
                x = self.m.objs[x].parent
        return False

    def empty_subdir(self, n, o):
        self.emit(("cd", n))
        for nm in list(o.entries):
            c = self.m.objs[o.entries[nm]]
            if c.kind == "d":
                if c.entries:
                    self.empty_subdir(nm, c)
                self.emit(("rmdir", nm))
            else:
                self.emit(("rm", nm))
        self.emit(("cd", b".."))

    def kind_now(self, oid):
        """on-disk kind of a directory as far as the generator can know it: what the reader
        saw before this chunk (a directory becomes indexed only by e2fsck -D); new ones are
        linear or inline"""
        sh = (self.view or {}).get("shapes", {}).get(oid)
        return sh["kind"] if sh else "linear"

    def make_room(self, d):
        """debugfs `ln` is a bare ext2fs_link(): in a linear or inline directory it fails when
        no slot is free and expects the user to run expand_dir first (indexed directories grow
        by themselves)"""
        if self.kind_now(d.oid) != "htree":
            self.emit(("expand_dir", b"."))

    def hardlink(self, d):
        rng = self.rng
        cands = [n for n, i in list(d.entries.items())[:300] if self.m.objs[i].kind != "d"]
        if not cands:
            return False
        a = rng.choice(cands)
        o = self.m.objs[d.entries[a]]
        if o.nlink > 20:
            return False
        subs = [n for n, i in list(d.entries.items())[:300]
                if self.m.objs[i].kind == "d" and a not in self.m.objs[i].entries and i != self.m.lost_found]
        if subs and rng.random() < 0.25:
            sub = rng.choice(subs)
            if self.kind_now(d.entries[sub]) != "htree":
                self.emit(("expand_dir", sub))
            self.emit(("ln", a, sub))
        else:
            b = self.fresh_name(d)
            self.make_room(d)
            self.emit(("ln", a, b))
        self.emit(("sif", a, o.nlink + 1))
        self.stats["hardlinks"] += 1
        return True

    def rename(self, d):
        rng = self.rng
        cands = [n for n, i in list(d.entries.items())[:300] if not self.is_work(i)]
        if not cands:
            return False
        a = rng.choice(cands)
        o = self.m.objs[d.entries[a]]
        if o.kind == "d" and self.has_work_below(o):
            return False
        b = self.fresh_name(d)
        self.make_room(d)
        self.emit(("ln", a, b))
        self.emit(("unlink", a))
        self.grave.setdefault(d.oid, []).append(a)
        self.stats["renames"] += 1
        return True

    def expected_failure(self, d):
        rng = self.rng
        ents = d.entries
        names = list(ents)[:300]
        missing = self.fresh_name(d, allow_special=False)
        files = [n for n in names if self.m.objs[ents[n]].kind != "d"]
        dirs = [n for n in names if self.m.objs[ents[n]].kind == "d"]
        full = [n for n in dirs if self.m.objs[ents[n]].entries]
        choices = ["unlink_missing", "rm_missing", "rmdir_missing", "cd_missing", "ln_missing", "expand_missing"]
        if names:
            choices += ["dup_mkdir", "dup_write", "dup_symlink", "dup_mknod", "dup_mknod", "dup_mkdir"]
        if files:
            choices += ["rmdir_file", "cd_file", "ln_onto_file", "expand_file"]
        if dirs:
            choices += ["rm_dir"]
        if full:
            choices += ["rmdir_nonempty", "rmdir_nonempty"]
        c = rng.choice(choices)
        if c == "unlink_missing":
            op = ("unlink", missing)
        elif c == "rm_missing":
            op = ("rm", missing)
        elif c == "rmdir_missing":
            op = ("rmdir", missing)
        elif c == "cd_missing":
            op = ("cd", missing)
        elif c == "ln_missing":
            op = ("ln", missing, missing + b"x" if len(missing) < 255 else b"zz")
        elif c == "expand_missing":
            op = ("expand_dir", missing)
        elif c == "dup_mkdir":
            op = ("mkdir", rng.choice(names))
        elif c == "dup_write":
            op = ("write", rng.randrange(len(HOST_SIZES)), rng.choice(names))
        elif c == "dup_symlink":
            op = ("symlink", rng.choice(names), b"x" * rng.choice([3, 80]))
        elif c == "dup_mknod":
            op = ("mknod", rng.choice(names), b"p")
        elif c == "rmdir_file":
            op = ("rmdir", rng.choice(files))
        elif c == "cd_file":
            op = ("cd", rng.choice(files))
        elif c == "ln_onto_file":
            op = ("ln", rng.choice(names), rng.choice(files))
            if self.m.objs[ents[op[1]]].kind == "d":
                op = ("ln", rng.choice(files), op[2])
        elif c == "expand_file":
            op = ("expand_dir", rng.choice(files))
        elif c == "rm_dir":
            op = ("rm", rng.choice(dirs))
        else:
            op = ("rmdir", rng.choice(full))
        # only emit when the model indeed says FAIL
        if self._would(op) == L.FAIL:
            self.emit(op)
            return True
        return False

    def _would(self, op):
        """outcome of op without changing the model (FAIL never changes it; for others we
        only call this on ops that are FAIL by construction, and verify)"""
        cmd = op[0]
        ents = self.m.cwdobj().entries
        lk = self.m.lookup
        if cmd == "cd":
            o = lk(op[1])
            return L.FAIL if (o is None or o.kind != "d") else L.OK
        if cmd in ("mkdir", "symlink", "mknod"):
            return L.FAIL if op[1] in ents else L.OK
        if cmd == "write":
            return L.FAIL if op[2] in ents else L.OK
        if cmd == "ln":
            so = lk(op[1])
            if so is None:
                return L.FAIL
            do = lk(op[2])
            return L.FAIL if (do is not None and do.kind != "d") else L.OK
        o = lk(op[1])
        if cmd == "unlink":
            return L.FAIL if o is None else L.OK
        if cmd == "rm":
            return L.FAIL if (o is None or o.kind == "d") else L.OK
        if cmd == "rmdir":
            return L.FAIL if (o is None or o.kind != "d" or o.entries) else L.OK
        if cmd == "expand_dir":
            return L.FAIL if (o is None or o.kind != "d") else L.OK
        return L.OK

    # -- chunks -------------------------------------------------------------------------
    def pick_work(self):
        if self.focus and self.rng.random() < 0.75:
            return self.m.objs[self.work[0]]
        return self.m.objs[self.rng.choice(self.work)]

    # -- packed leaves ------------------------------------------------------------------
    def pack_template(self):
        """Sizes (rec_len) of names in hash order that e2fsck -D will pack into the first
        leaf of a small directory, which of them to delete afterwards, and the length of the
        name to insert into that leaf then.  Aims at leaves that are full for the new name
        although their live entries fill half a block or less (a dead head entry, slack
        behind a long live entry), and at random layouts."""
        rng = self.rng
        usable = self.bs - (12 if self.csum else 0)
        r = rng.random()
        pat = None
        if r < 0.6 and self.bs == 1024:
            for _ in range(40):
                e = rng.randrange(236, 264, 4)
                sl = rng.randrange(216, 264, 4)
                rest = usable - e - 264 - sl
                if rest < 16:
                    continue
                if rng.random() < 0.35 and rest >= 40:
                    b1 = rng.randrange(12, rest - 12, 4)
                    tail = [(b1, False), (rest - b1, False)]
                else:
                    tail = [(rest - rng.choice([0, 0, 4, 8]), False)]
                pat = [(e, True), (264, False), (sl, True)] + tail
                if rng.random() < 0.2:
                    pat = [(e, True)] + tail[:1] + [(sl, True), (264, False)] + tail[1:]
                break
        if pat is None:
            pat = []
            tot = 0
            while tot < usable - 180:
                rl = rng.choice([264, 264, 260, 256, 228, 200, 132, 64, 24, 16, 12])
                if tot + rl > usable:
                    break
                pat.append((rl, rng.random() < 0.45))
                tot += rl
            if not any(dl for _r, dl in pat):
                pat[0] = (pat[0][0], True)
        return pat, rng.choice([255, 255, 254, 253, 252, 250, 200])

    def chunk_pack_create(self):
        rng = self.rng
        base = self.m.objs[self.work[0]]
        self.packs = []
        for _k in range(rng.choice([2, 3, 4, 5])):
            self.goto(base.oid)
            dn = self.fresh_name(base, allow_special=False)
            self.emit(("mkdir", dn))
            self.emit(("cd", dn))
            d = self.m.cwdobj()
            pat, newlen = self.pack_template()
            fill = rng.choice([4, 5, 6])
            nslots = len(pat) + 1 + fill
            step = (1 << 32) // nslots
            todel = []
            ok = True
            for j, (rl, dl) in enumerate(pat):
                ln = max(1, rl - 8 - rng.choice([0, 1, 2, 3]))
                if ln < 4:
                    ln = 4 if rl >= 12 else ln
                n = L.name_in_range(rng, self.hp, j * step + 64, (j + 1) * step - 64, max(ln, 4), d.entries, tries=6000)
                if n is None:
                    ok = False
                    break
                self.create(d, kinds=["mknod", "mknod", "symlink", "write", "mkdir"], name=n)
                if dl:
                    todel.append(n)
            for j in range(len(pat) + 1, nslots):
                n = L.name_in_range(rng, self.hp, j * step + 64, (j + 1) * step - 64, rng.choice([253, 254, 255]),
                                    d.entries, tries=6000)
                if n is not None:
                    self.create(d, kinds=["mknod", "symlink"], name=n)
            if ok:
                self.packs.append((d.oid, todel, newlen, (1, len(pat) * step - 64)))
            self.emit(("cd", b".."))

    def chunk_pack_hit(self):
        rng = self.rng
        for oid, todel, newlen, (lo, hi) in getattr(self, "packs", []):
            if oid not in self.m.objs:
                continue
            d = self.m.objs[oid]
            self.goto(oid)
            for n in todel:
                if n in d.entries:
                    self.remove(d, name=n)
                    if self.m.cwd != oid:
                        self.goto(oid)
            for _ in range(rng.choice([1, 1, 2, 3])):
                n = L.name_in_range(rng, self.hp, lo, hi, newlen, d.entries, tries=6000)
                if n is not None:
                    self.create(d, kinds=["mknod", "mknod", "symlink", "mkdir"], name=n)
                    self.stats["packed_leaf_inserts"] = self.stats.get("packed_leaf_inserts", 0) + 1
        self.packs = []

    def est_bytes(self, d):
        return sum(((8 + len(n) + 3) & ~3) for n in d.entries)

    def chunk_setup(self):
        rng = self.rng
        m = self.m
        self.emit(("cd", b"/"))
        a = L.random_name(rng, rng.choice([1, 3, 8, 12, 40, 255]))
        self.emit(("mkdir", a))
        self.work.append(m.cwdobj().entries[a])
        if self.kind == "inline":
            nd = rng.choice([3, 4, 5])
        else:
            nd = rng.choice([1, 2, 2])
        for _ in range(nd - 1):
            parent = m.objs[rng.choice(self.work)] if rng.random() < 0.5 else m.objs[m.root]
            self.goto(parent.oid)
            b = self.fresh_name(parent, allow_special=False)
            self.emit(("mkdir", b))
            self.work.append(parent.entries[b])
        if rng.random() < 0.3 and self.profile not in ("three_level", "many_subdirs"):
            self.work.append(m.root)
        if self.profile == "collision" and self.coll:
            groups = list(self.coll)
            rng.shuffle(groups)
            for h, names in groups[:6]:
                self.pending_coll.extend(names)
            self.coll_hashes = [h for h, _ in groups[:6]]
        for oid in self.work:
            d = m.objs[oid]
            self.goto(oid)
            if self.kind == "htree":
                want = self.bs * rng.uniform(2.2, 3.5)
            elif self.kind == "linear":
                want = self.bs * rng.uniform(0.3, 2.5)
            else:
                want = rng.choice([20, 50, 100, 160, 300])
            k = 0
            while self.est_bytes(d) < want and k < 700 and self.room():
                self.create(d)
                k += 1

    def choose_targets(self):
        """per indexed working directory: hash ranges to aim new names at (the fullest of a
        sample of leaves; in the collision profile the leaves that hold the collisions)"""
        self.targets = {}
        self.nleaves = {}
        v = self.view
        if not v or self.kind == "linear":
            return
        rng = self.rng
        for oid in self.work:
            sh = v["shapes"].get(oid)
            ino = v["inos"].get(oid)
            if not sh or sh["kind"] != "htree" or not sh["leaves"] or ino is None:
                continue
            leaves = sh["leaves"]
            self.nleaves[oid] = len(leaves)
            tg = []
            if self.profile == "collision" and oid == self.work[0]:
                for h in getattr(self, "coll_hashes", []):
                    for lo, hi, lb in leaves:
                        if lo <= h < hi:
                            span = max(2, (hi - lo) // 3)
                            tg.append((max(lo, h - span), min(hi - 1, h + span)))
            sample = rng.sample(leaves, min(len(leaves), 8))
            best = None
            try:
                io = v["img"].inode(ino)
                for lo, hi, lb in sample:
                    used, _n = L.leaf_fill(v["img"], io, lb)
                    if best is None or used > best[0]:
                        best = (used, lo, hi)
            except Exception:
                best = None
            if best:
                tg.append((best[1], best[2] - 1))
            lo, hi, lb = rng.choice(leaves)
            tg.append((lo, hi - 1))
            self.targets[oid] = tg

    def chunk_ops(self, n, mode):
        """mode: grow (mostly creations), churn (balanced)"""
        rng = self.rng
        self.choose_targets()
        start = self.total
        cur = self.pick_work()
        self.goto(cur.oid)
        guard = 0
        while self.total - start < n and guard < 4 * n + 50:
            guard += 1
            if rng.random() < 0.06 and len(self.work) > 1:
                cur = self.pick_work()
                self.goto(cur.oid)
            if self.m.cwd != cur.oid:
                self.goto(cur.oid)
            r = rng.random()
            pc = 0.80 if mode == "grow" else 0.42
            if r < pc:
                if not self.create(cur):
                    self.remove(cur)
            elif r < pc + 0.03:
                self.hardlink(cur)
            elif r < pc + 0.06:
                self.rename(cur)
            elif r < pc + 0.10:
                self.expected_failure(cur)
            elif r < pc + 0.11 and self.kind != "htree":
                subs = [nm for nm, i in list(cur.entries.items())[:200] if self.m.objs[i].kind == "d"]
                if subs:
                    self.emit(("expand_dir", rng.choice(subs)))
            else:
                self.remove(cur)

    def chunk_shrink(self):
        """empty one working directory (all of them with probability 1/3); bounded per chunk"""
        if not getattr(self, "shrinking", None):
            w = [o for o in self.work if o != self.m.root]
            self.rng.shuffle(w)
            self.shrinking = w if self.rng.random() < 0.33 else w[:1]
        start = self.total
        for oid in self.shrinking:
            d = self.m.objs[oid]
            self.goto(oid)
            for nm in list(d.entries):
                if self.total - start > 500:
                    return False
                if self.m.cwd != oid:
                    self.goto(oid)
                self.remove(d, name=nm)
        left = any(not self.is_work(i) for oid in self.shrinking for i in self.m.objs[oid].entries.values())
        return not left

    def chunk_regrow(self, n):
        self.targets = {}
        for oid in getattr(self, "shrinking", self.work):
            d = self.m.objs[oid]
            self.goto(oid)
            want = self.bs * self.rng.uniform(2.2, 3.0) if self.kind == "htree" else self.bs * 0.5
            k = 0
            while (self.est_bytes(d) < want or k < n) and k < 700 and self.room():
                self.create(d)
                k += 1
        self.shrinking = None

    def chunk_epilogue(self):
        rng = self.rng
        for oid in self.work:
            self.goto(oid)
            for _ in range(rng.choice([1, 2, 3])):
                self.expected_failure(self.m.objs[oid])
        if rng.random() < 0.25:
            # expand_dir on a working directory itself (for an indexed directory the model accepts
            # either outcome of the command; the namespace must stay exact and consistent)
            cands = [o for o in self.work if o != self.m.root]
            if cands:
                oid = rng.choice(cands)
                d = self.m.objs[oid]
                self.goto(d.parent)
                nm = next(n for n, i in self.m.cwdobj().entries.items() if i == oid)
                self.emit(("expand_dir", nm))
                self.goto(oid)
                for _ in range(rng.choice([0, 3, 10])):
                    self.create(d)

    def chunk_massfill(self, n):
        """three_level: fifos with long names in the first working directory (mknod is the one
        creator that does not scan the directory first)"""
        self.choose_targets()
        d = self.m.objs[self.work[0]]
        self.goto(d.oid)
        for _ in range(n):
            if not self.room():
                break
            nm = L.random_name(self.rng, self.rng.choice([251, 252, 253, 254, 255, 255]), "plain")
            if nm in d.entries:
                continue
            self.emit(("mknod", nm, b"p"))

    def chunk_subdirs(self, n):
        if not self.work:
            self.emit(("cd", b"/"))
            self.emit(("mkdir", b"many"))
            self.work.append(self.m.cwdobj().entries[b"many"])
        d = self.m.objs[self.work[0]]
        self.goto(d.oid)
        k = len(d.entries)
        for j in range(n):
            if not self.room():
                break
            self.emit(("mkdir", b"s%05d" % (k + j)))

    def chunk_subdirs_remove(self, n):
        d = self.m.objs[self.work[0]]
        self.goto(d.oid)
        for nm in list(d.entries)[:n]:
            self.emit(("rmdir", nm))

    # -- stepper ------------------------------------------------------------------------
    def next_step(self, view):
        self.view = view
        while self.pos < len(self.plan):
            item = self.plan[self.pos]
            self.pos += 1
            if item[0] == "fsck":
                return {"t": "fsck", "mode": item[1]}
            self.ops = []
            self.m.cwd = self.m.root           # every debugfs invocation starts in /
            if item[0] == "setup":
                self.chunk_setup()
            elif item[0] == "grow":
                self.chunk_ops(item[1], "grow")
            elif item[0] == "churn":
                self.chunk_ops(item[1], "churn")
            elif item[0] == "shrink":
                if not self.chunk_shrink():
                    self.pos -= 1
            elif item[0] == "regrow":
                self.chunk_regrow(item[1])
            elif item[0] == "epilogue":
                self.chunk_epilogue()
            elif item[0] == "pack_create":
                self.chunk_pack_create()
            elif item[0] == "pack_hit":
                self.chunk_pack_hit()
            elif item[0] == "massfill":
                self.chunk_massfill(item[1])
            elif item[0] == "subdirs":
                self.chunk_subdirs(item[1])
            elif item[0] == "subdirs_remove":
                self.chunk_subdirs_remove(item[1])
            # leave the namespace settled and the script at a defined place
            if not self.m.settled():
                raise AssertionError("generator left an unsettled namespace")
            if self.ops:
                return {"t": "dbg", "ops": self.ops, "phase": item[0]}
        return None


class FixedSteps:
    def __init__(self, steps):
        self.steps = list(steps)
        self.pos = 0
        self.stats = {}

    def next_step(self, view):
        if self.pos >= len(self.steps):
            return None
        s = self.steps[self.pos]
        self.pos += 1
        return s


# ----------------------------------------------------------------------------------------
# execution and judging

class Ctx:
    def __init__(self, tools, env):
        self.debugfs, self.e2fsck, self.mke2fs = tools
        self.env = env


def make_fs(ctx, cfg, desc, seed, workdir):
    img = os.path.join(workdir, "fs.img")
    if os.path.exists(img):
        os.unlink(img)
    with open(img, "wb") as f:
        f.truncate(cfg[2] * 1024)
    uu, hseed = hash_seed_uuid(seed)
    r = run.run([ctx.mke2fs, "-q", "-F", "-U", "6b33f586-a183-4383-921d-30ab132db9bf",
                 "-E", "hash_seed=%s,lazy_itable_init=1" % uu] + cfg[1].split() + [img], env=ctx.env, timeout=300)
    if r.rc != 0:
        return None, "mke2fs failed: " + (r.etext + r.text)[-300:]
    prep = os.path.join(workdir, "prep.txt")
    with open(prep, "w") as f:
        f.write("ssv flags %d\n" % (2 if desc["unsigned"] else 1))
        f.write("ssv def_hash_version %s\n" % HASH_NAMES[desc["hv"]])
    r = run.run([ctx.debugfs, "-w", "-f", prep, img], env=ctx.env, timeout=120)
    if r.rc != 0 or b"ssv:" in r.err:
        return None, "prep failed: " + (r.etext + r.text)[-300:]
    hosts = []
    for k in range(len(HOST_SIZES)):
        p = os.path.join(workdir, "h%d" % k)
        with open(p, "wb") as f:
            f.write(host_content(k))
        os.chmod(p, 0o644)
        hosts.append(p)
    with I.Image(img) as im:
        hp = L.HashParams.from_image(im)
        if hp.seed != tuple(hseed) or hp.base != desc["hv"] or hp.unsigned != desc["unsigned"]:
            return None, "hash parameters of the image are not the requested ones: %r" % ((hp.seed, hp.base, hp.unsigned),)
        feats = im.sb.features()
        cap = im.sb.s_inodes_count - im.sb.first_ino - 40
    return {"img": img, "hosts": hosts, "hp": hp, "features": feats, "inode_cap": cap}, None


def run_debugfs_script(ctx, img, lines, workdir, write=True, timeout=900):
    sp = os.path.join(workdir, "script.txt")
    with open(sp, "wb") as f:
        f.write(b"\n".join(lines) + b"\n")
    argv = ["/bin/sh", "-c", 'exec "$@" 2>&1', "sh", ctx.debugfs] + (["-w"] if write else []) + ["-f", sp, img]
    return run.run(argv, env=ctx.env, timeout=timeout, cap=64 << 20)


def on_disk_kind(ino_obj, sb):
    if ino_obj.flags & I.FL_INLINE_DATA:
        return "inline"
    if (ino_obj.flags & I.FL_INDEX) and sb.has_compat("dir_index"):
        return "htree"
    return "linear"


def compare_tree(im, model, hosts_content, filetype):
    """Independent listing of every directory against the model.
    Returns (violation or None, inos {oid: ino}, shapes {oid: shape}, nentries max)."""
    inos = {model.root: 2}
    shapes = {}
    viol = None
    maxent = 0
    stack = [model.root]
    seen_ino = {2: model.root}

    def v(kind, sub, what):
        return ("%s listing-differs %s" % (kind, sub), what)

    while stack:
        oid = stack.pop()
        d = model.objs[oid]
        ino = inos[oid]
        io = im.inode(ino)
        path = model.path_of(oid)
        kind = on_disk_kind(io, im.sb)
        if not io.is_dir():
            return v(kind, "wrong-type", "%r (inode %d) is not a directory: mode %o" % (path, ino, io.mode)), inos, shapes, maxent
        shapes[oid] = L.dir_shape(im, io)
        if io.links != d.nlink and getattr(d, "overflowed", False) and d.nlink == 1 and \
                io.links == d.nsub + 2 and io.links <= L.LINK_MAX:
            # a repairing e2fsck may put the real count back once it fits again (pass 4 keeps a
            # pinned 1 only under -n); the model follows
            d.nlink = io.links
            d.overflowed = False
        if io.links != d.nlink:
            viol = viol or v(kind, "wrong-nlink", "directory %r (inode %d) has link count %d, model %d (%d subdirectories)"
                             % (path, ino, io.links, d.nlink, d.nsub))
        try:
            ents = im.list_dir(io, strict=True)
        except I.FormatError as e:
            return ("%s pyext4 dir-unreadable" % kind, "directory %r (inode %d): %s" % (path, ino, e)), inos, shapes, maxent
        if len(ents) < 2 or ents[0][0] != b"." or ents[0][1] != ino or ents[1][0] != b".." or \
                ents[1][1] != inos[d.parent]:
            viol = viol or v(kind, "wrong-inode", "directory %r (inode %d): bad '.'/'..': %r" % (path, ino, ents[:2]))
        got = {}
        for name, eino, ft in ents[2:]:
            if name in got or name in (b".", b".."):
                viol = viol or v(kind, "extra-name", "directory %r (inode %d) lists %r twice" % (path, ino, name[:60]))
                continue
            got[name] = (eino, ft)
        maxent = max(maxent, len(got))
        for name in d.entries:
            if name not in got:
                viol = viol or v(kind, "missing-name", "directory %r (inode %d, %d entries in the model) does not "
                                 "list %r (len %d)" % (path, ino, len(d.entries), name[:60], len(name)))
        for name in got:
            if name not in d.entries:
                viol = viol or v(kind, "extra-name", "directory %r (inode %d) lists %r (len %d, inode %d) which the "
                                 "model does not have" % (path, ino, name[:60], len(name), got[name][0]))
        if viol:
            return viol, inos, shapes, maxent
        for name, coid in d.entries.items():
            o = model.objs[coid]
            eino, ft = got[name]
            where = "%r in %r" % (name[:60], path)
            if coid in inos:
                if inos[coid] != eino:
                    return v(kind, "wrong-inode", "%s names inode %d, but another name of the same object names inode %d"
                             % (where, eino, inos[coid])), inos, shapes, maxent
            else:
                if eino in seen_ino:
                    return v(kind, "wrong-inode", "%s names inode %d which belongs to a different object"
                             % (where, eino)), inos, shapes, maxent
                inos[coid] = eino
                seen_ino[eino] = coid
                if eino < im.sb.first_ino or eino > im.sb.s_inodes_count:
                    return v(kind, "wrong-inode", "%s names inode %d" % (where, eino)), inos, shapes, maxent
                ci = im.inode(eino)
                if ci.fmt != L.KIND_FMT[o.kind]:
                    return v(kind, "wrong-type", "%s: inode %d has mode %o, model kind %s" % (where, eino, ci.mode, o.kind)), inos, shapes, maxent
                if o.kind != "d" and ci.links != o.nlink:
                    return v(kind, "wrong-nlink", "%s: inode %d has link count %d, model %d" % (where, eino, ci.links, o.nlink)), inos, shapes, maxent
                if ci.dtime != 0:
                    return v(kind, "wrong-type", "%s: inode %d has a deletion time" % (where, eino)), inos, shapes, maxent
                if o.kind == "l":
                    try:
                        t = im.symlink_target(ci)
                    except I.FormatError as e:
                        t = b"<unreadable: %s>" % str(e).encode()
                    if t != o.target:
                        return v(kind, "wrong-target", "%s: symlink target %r (len %d), model %r (len %d)" %
                                 (where, t[:50], len(t), o.target[:50], len(o.target))), inos, shapes, maxent
                elif o.kind in ("c", "b"):
                    if L.decode_rdev(ci) != tuple(o.rdev):
                        return v(kind, "wrong-rdev", "%s: device %r, model %r" % (where, L.decode_rdev(ci), o.rdev)), inos, shapes, maxent
                elif o.kind == "f":
                    want = hosts_content[o.content]
                    try:
                        data, holes = im.read_file(ci, limit=1 << 20)
                    except I.FormatError as e:
                        data = None
                    if data != want:
                        return v(kind, "wrong-content", "%s: inode %d size %d, model file of %d bytes%s" %
                                 (where, eino, ci.size, len(want), "" if data is None or len(data) != len(want)
                                  else " (bytes differ)")), inos, shapes, maxent
                if o.kind == "d":
                    stack.append(coid)
            wantft = L.KIND_FT[o.kind] if filetype else 0
            if ft != wantft:
                return v(kind, "wrong-type", "%s: dirent file type %d, expected %d" % (where, ft, wantft)), inos, shapes, maxent
    return None, inos, shapes, maxent


def accounting(im, model, ck, inos):
    """inode / block accounting against the model and the independent owner map"""
    sb = im.sb
    first = sb.first_ino
    named = set(inos.values())
    for ino in sorted(ck.inodes):
        if ino >= first and ino not in named:
            i = ck.inodes[ino]
            tname = {I.S_IFDIR: "dir", I.S_IFREG: "file", I.S_IFLNK: "symlink", I.S_IFIFO: "fifo",
                     I.S_IFCHR: "chrdev", I.S_IFBLK: "blkdev"}.get(i.fmt, "other")
            return ("C10 unreferenced-inode %s" % tname,
                    "inode %d (mode %o, link count %d, %s in the inode bitmap) is in use according to the inode table "
                    "but no directory names it and the model has no such object" %
                    (ino, i.mode, i.links, "marked" if im.inode_allocated(ino) else "not marked"))
    ipg = sb.s_inodes_per_group
    used = 0
    for g in range(im.groups):
        bm = im.inode_bitmap(g)
        for k in range(ipg):
            ino = g * ipg + k + 1
            if ino >= first and (bm[k >> 3] >> (k & 7)) & 1:
                used += 1
    want = model.inodes_in_use()
    if used > want:
        return ("C10 inode-leak", "%d inodes (>= first_ino) are marked in use, the model has %d objects" % (used, want))
    if used < want:
        return ("C10 inode-lost", "%d inodes (>= first_ino) are marked in use, the model has %d objects" % (used, want))
    gds = im.group_descs()
    fi = sum(g.free_inodes for g in gds)
    if fi != sb.s_free_inodes_count or fi != sb.s_inodes_count - (first - 1) - used:
        return ("C10 free-inode-count-mismatch", "superblock %d, groups %d, bitmap %d" %
                (sb.s_free_inodes_count, fi, sb.s_inodes_count - (first - 1) - used))
    fb = sum(g.free_blocks for g in gds)
    if fb != sb.free_blocks_count:
        return ("C10 free-block-count-mismatch", "superblock %d, groups %d" % (sb.free_blocks_count, fb))
    # blocks marked in use that nothing owns
    owned = set(ck.owner) | ck.fixed
    if getattr(ck, "mmp_block", None):
        owned.add(ck.c_of(ck.mmp_block))
    cpg = sb.s_clusters_per_group
    c0 = ck.c_of(sb.s_first_data_block)
    leaked = []
    unmarked = 0
    for g in range(im.groups):
        bm = im.block_bitmap(g)
        if bm is None:
            continue
        n = im.group_blocks(g) if im.ratio == 1 else cpg
        base = c0 + g * cpg
        for k in range(n):
            bit = (bm[k >> 3] >> (k & 7)) & 1
            if bit and (base + k) not in owned:
                leaked.append(base + k)
            elif not bit and (base + k) in owned:
                unmarked += 1
    if leaked and not unmarked:
        return ("C10 block-leak", "%d block(s) are marked in use but belong to nothing (first %s); the model freed "
                "%d objects with blocks so far" % (len(leaked), leaked[:5], model.freed_with_blocks))
    return None


def pyext4_check(im):
    try:
        ck = C.Checker(im)
        pr = ck.run()
    except I.FormatError as e:
        return None, ["F4:unparsable"], [str(e)]
    except Exception as e:
        return None, ["ORACLE-CRASH"], [repr(e)[:300]]
    return ck, sorted(set(p.key() for p in pr)), [repr(p) for p in pr[:6]]


def norm_fsck_line(text):
    for l in text.split("\n"):
        if not l.strip() or l.startswith(("Pass ", "e2fsck ")) or "WARNING" in l:
            continue
        l = re.sub(r"'[^']*'", "'X'", l)
        l = re.sub(r"\([^)]*\)", "(X)", l)
        return re.sub(r"\d+", "N", l)[:90].strip()
    return "?"


def ls_check(ctx, imgpath, model, inos, shapes, workdir, sbfiletype, kinds):
    """debugfs `ls -l` of the biggest directories against the model"""
    dirs = sorted((o for o in model.objs.values() if o.kind == "d" and o.oid in inos),
                  key=lambda o: (-len(o.entries), o.oid))[:6]
    lines = []
    marks = []
    for d in dirs:
        comps = []
        x = d.oid
        while x != model.root:
            ob = model.objs[x]
            p = model.objs[ob.parent]
            comps.append(next(n for n, i in p.entries.items() if i == x))
            x = ob.parent
        lines.append(b"cd /")
        for c in reversed(comps):
            lines.append(b"cd " + L.quote(c))
        marks.append((len(lines), d))
        lines.append(b"ls -l")
    r = run_debugfs_script(ctx, imgpath, lines, workdir, write=False, timeout=300)
    if r.timed_out:
        return "timeout", None
    outs = L.split_transcript(r.out, lines)
    if r.rc != 0 or r.sig or outs is None:
        return None, ("debugfs-ls-failed", "debugfs ls -l: rc=%s sig=%s %s" % (r.rc, r.sig, r.text[-300:]))
    for k, (pos, d) in enumerate(marks):
        kind = kinds.get(d.oid, "linear")
        path = model.path_of(d.oid)
        for j in range(pos):
            if lines[j].startswith(b"cd ") and L.cmd_failed(outs[j]) and j >= (marks[k - 1][0] + 1 if k else 0):
                return None, ("%s debugfs-command-failed cd" % kind, "read-only debugfs: %r failed: %r" % (lines[j][:80], outs[j][:3]))
        ents, bad = L.parse_ls(outs[pos])
        if bad:
            return None, ("%s debugfs-ls-unparsable" % kind, "ls -l of %r: %r" % (path, bad[:2]))
        names = {}
        dots = 0
        for name, ino, mode, ft in ents:
            if name in (b".", b"..") and dots < 2:
                dots += 1
                continue
            if name in names:
                return None, ("%s listing-differs extra-name" % kind, "debugfs ls -l of %r shows %r twice" % (path, name[:60]))
            names[name] = (ino, mode, ft)
        for name in d.entries:
            if name not in names:
                return None, ("%s listing-differs missing-name" % kind, "debugfs ls -l of %r (inode %d) does not show %r "
                              "(len %d)" % (path, inos[d.oid], name[:60], len(name)))
        for name in names:
            if name not in d.entries:
                return None, ("%s listing-differs extra-name" % kind, "debugfs ls -l of %r shows %r which the model does "
                              "not have" % (path, name[:60]))
        for name, coid in d.entries.items():
            o = model.objs[coid]
            ino, mode, ft = names[name]
            if (mode & I.S_IFMT) != L.KIND_FMT[o.kind] or ft != (L.KIND_FT[o.kind] if sbfiletype else 0):
                return None, ("%s listing-differs wrong-type" % kind, "debugfs ls -l of %r: %r has mode %o type %d, model "
                              "kind %s" % (path, name[:60], mode, ft, o.kind))
            if inos.get(coid) != ino:
                return None, ("%s listing-differs wrong-inode" % kind, "debugfs ls -l of %r: %r is inode %d, independent "
                              "reader says %s" % (path, name[:60], ino, inos.get(coid)))
    return None, None


def observe(ctx, env_fs, model, workdir, cfgkind, full=True):
    """Returns dict(viol=(key, what)|None, inos, shapes, maxent, timeout)"""
    out = {"viol": None, "inos": {}, "shapes": {}, "maxent": 0}
    hosts_content = [host_content(k) for k in range(len(HOST_SIZES))]
    try:
        with I.Image(env_fs["img"]) as im:
            filetype = im.sb.has_incompat("filetype")
            try:
                viol, inos, shapes, maxent = compare_tree(im, model, hosts_content, filetype)
            except I.FormatError as e:
                viol, inos, shapes, maxent = ("%s pyext4 unreadable" % cfgkind, str(e)), {}, {}, 0
            out.update(inos=inos, shapes=shapes, maxent=maxent)
            if viol:
                out["viol"] = ("C10 " + viol[0], viol[1])
                return out
            if not full:
                return out
            kinds = {oid: s["kind"] for oid, s in shapes.items()}
            to, lv = ls_check(ctx, env_fs["img"], model, inos, shapes, workdir, filetype, kinds)
            if to:
                out["timeout"] = True
                return out
            if lv:
                out["viol"] = ("C10 " + lv[0], lv[1])
                return out
            ck, keys, det = pyext4_check(im)
            if "ORACLE-CRASH" in keys:
                out["harness"] = "independent checker crashed: %s" % det
                return out
            if ck is not None:
                av = accounting(im, model, ck, inos)
                if av:
                    out["viol"] = av
                    return out
            if keys:
                out["viol"] = ("C10 %s pyext4 %s" % (cfgkind, ",".join(keys)), "independent checker: %s" % det)
                return out
    except I.FormatError as e:
        out["viol"] = ("C10 %s pyext4 F4:unparsable-superblock" % cfgkind, str(e))
        return out
    r = run.run([ctx.e2fsck, "-fn", env_fs["img"]], env=ctx.env, timeout=900)
    if r.timed_out:
        out["timeout"] = True
    elif r.rc != 0:
        out["viol"] = ("C10 %s e2fsck-fn %s" % (cfgkind, norm_fsck_line(r.text)), "e2fsck -fn exit %s:\n%s" % (r.rc, r.text[-700:]))
    return out


def execute(ctx, cfg, desc, seed, stepper, workdir, stats=None):
    """Run one history.  Returns dict(viol, undef, steps, stats, harness, timeout)."""
    res = {"viol": None, "undef": False, "steps": [], "harness": None, "timeout": False}
    st = {"ops": {}, "expected_failures": {}, "fail_msgs": set(), "splits": 0, "grow": 0, "inline_conv": 0,
          "maxent": 0, "levels": 0, "chunks": 0, "fsck": {}, "index_created": 0, "nops": 0, "fsck_modified": 0,
          "leaves_max": 0}
    res["stats"] = st
    fs, err = make_fs(ctx, cfg, desc, seed, workdir)
    if err:
        res["harness"] = err
        return res
    res["features"] = fs["features"]
    cfgkind = cfg[4]
    model = L.Model(dir_nlink=("dir_nlink" in fs["features"]))
    if hasattr(stepper, "attach"):
        stepper.attach(fs)
    newdir_kind = "inline" if cfgkind == "inline" else "linear"
    ob = observe(ctx, fs, model, workdir, cfgkind, full=True)
    if ob.get("harness") or ob.get("timeout"):
        res["harness"] = "fresh filesystem: %r" % (ob.get("harness") or "timeout",)
        return res
    if ob["viol"]:
        # mke2fs made root and lost+found with the same library calls
        res["viol"] = (ob["viol"][0], "fresh filesystem made by mke2fs %s: %s" % (cfg[1], ob["viol"][1]))
        res["after"] = "mke2fs"
        return res
    prev_shapes = ob["shapes"]
    view = {"shapes": ob["shapes"], "inos": ob["inos"], "img": None}
    while True:
        with I.Image(fs["img"]) as im:
            view["img"] = im
            try:
                step = stepper.next_step(view)
            finally:
                view["img"] = None
        if step is None:
            break
        if step["t"] == "fsck":
            res["steps"].append(step)
            r = run.run([ctx.e2fsck, step["mode"], fs["img"]], env=ctx.env, timeout=1800)
            st["fsck"][step["mode"]] = st["fsck"].get(step["mode"], 0) + 1
            if r.timed_out:
                res["timeout"] = True
                return res
            if r.rc not in (0, 1) or r.sig:
                res["viol"] = ("C10 e2fsck%s exit %s" % (step["mode"], r.rc if not r.sig else "sig%d" % r.sig),
                               "e2fsck %s:\n%s" % (step["mode"], (r.text + r.etext)[-800:]))
                return res
            if step["mode"] == "-fy" and r.rc == 1:
                st["fsck_modified"] += 1
        else:
            ops = [tuple(o) for o in step["ops"]]
            model.cwd = model.root             # every debugfs invocation starts in /
            res["steps"].append({"t": "dbg", "ops": ops, "phase": step.get("phase")})
            lines = [L.op_line(o, fs["hosts"]) for o in ops]
            r = run_debugfs_script(ctx, fs["img"], lines, workdir)
            st["chunks"] += 1
            if r.timed_out:
                res["timeout"] = True
                return res
            outs = L.split_transcript(r.out, lines)
            kinds = {oid: s["kind"] for oid, s in prev_shapes.items()}
            if r.sig or r.rc != 0 or outs is None:
                # find the command it died in
                last = "?"
                if outs is None:
                    done = r.out.count(b"\ndebugfs: ")
                    last = ops[min(done, len(ops)) - 1][0] if ops else "?"
                res["viol"] = ("C10 %s debugfs-died %s rc=%s sig=%s" % (cfgkind, last, r.rc, r.sig),
                               "debugfs -w -f: rc=%s sig=%s, tail: %r" % (r.rc, r.sig, r.out[-400:]))
                return res
            expanded = None
            for k, op in enumerate(ops):
                cwd_kind = kinds.get(model.cwd, newdir_kind)
                tgt = model.lookup(op[2] if op[0] == "write" else op[1]) if op[0] != "cd" or op[1] not in (b"/", b"..") else None
                ln_into = None
                if op[0] == "ln":
                    do = model.lookup(op[2])
                    ln_into = do.oid if (do is not None and do.kind == "d") else model.cwd
                exp = model.apply(op)
                failed = L.cmd_failed(outs[k])
                st["ops"][op[0]] = st["ops"].get(op[0], 0) + 1
                st["nops"] += 1
                if exp == L.UNDEF:
                    res["undef"] = True
                    return res
                was_expanded, expanded = expanded, None
                if op[0] == "expand_dir" and exp == L.OK:
                    toid = model.cwd if op[1] == b"." else tgt.oid
                    if kinds.get(toid) == "htree":
                        continue   # adding an unindexed block to an indexed directory: either outcome
                    if not failed:
                        expanded = toid
                if op[0] == "ln" and exp == L.OK and failed and \
                        any(b"No free space in the directory" in x for x in outs[k]):
                    if kinds.get(ln_into, newdir_kind) != "htree" and was_expanded != ln_into:
                        # bare ext2fs_link() into a full linear/inline directory that was not expanded
                        # by the preceding command: not a defined use
                        res["undef"] = True
                        return res
                if exp == L.OK and failed:
                    res["viol"] = ("C10 %s debugfs-command-failed %s" % (cwd_kind, op[0]),
                                   "command %d of chunk %d: %r in %r (a %s directory with %d entries) is legal in the model "
                                   "but debugfs said: %r" % (k, st["chunks"], lines[k][:120], model.path_of(model.cwd), cwd_kind,
                                                             len(model.cwdobj().entries), b" | ".join(x for x in outs[k] if x.strip())[:300]))
                    res["at"] = (len(res["steps"]) - 1, k)
                    return res
                if exp == L.FAIL:
                    if not failed:
                        res["viol"] = ("C10 %s expected-failure-succeeded %s" % (cwd_kind, op[0]),
                                       "command %d of chunk %d: %r in %r must fail (model: %s) but debugfs accepted it" %
                                       (k, st["chunks"], lines[k][:120], model.path_of(model.cwd), why_fail(model, op)))
                        res["at"] = (len(res["steps"]) - 1, k)
                        return res
                    st["expected_failures"][op[0]] = st["expected_failures"].get(op[0], 0) + 1
                    st["fail_msgs"].add(op[0] + ": " + fail_phrase(outs[k]))
            if not model.settled():
                res["undef"] = True
                return res
        ob = observe(ctx, fs, model, workdir, cfgkind, full=True)
        if ob.get("harness"):
            res["harness"] = ob["harness"]
            return res
        if ob.get("timeout"):
            res["timeout"] = True
            return res
        # events seen by the independent reader
        for oid, s in ob["shapes"].items():
            p = prev_shapes.get(oid)
            st["levels"] = max(st["levels"], s.get("levels") or 0)
            st["leaves_max"] = max(st["leaves_max"], len(s["leaves"]))
            if p is None:
                continue
            if step["t"] == "dbg":
                if p["kind"] == "htree" and s["kind"] == "htree":
                    if len(s["leaves"]) > len(p["leaves"]):
                        st["splits"] += len(s["leaves"]) - len(p["leaves"])
                    if (s["levels"] or 0) > (p["levels"] or 0) or s["interior"] > p["interior"]:
                        st["grow"] += 1
                if p["kind"] == "inline" and s["kind"] != "inline":
                    st["inline_conv"] += 1
            elif p["kind"] != "htree" and s["kind"] == "htree":
                st["index_created"] += 1
        st["maxent"] = max(st["maxent"], ob["maxent"])
        prev_shapes = ob["shapes"]
        view["shapes"], view["inos"] = ob["shapes"], ob["inos"]
        if ob["viol"]:
            res["viol"] = ob["viol"]
            res["after"] = step["t"] if step["t"] == "dbg" else "e2fsck " + step["mode"]
            return res
    return res


PHRASES = [b"already exists", b"File not found by ext2_lookup", b"Ext2 inode is not a directory",
           b"file is a directory", b"file is not a directory", b"directory not empty",
           b"No free space in the directory", b"Usage"]


def fail_phrase(outlines):
    blob = b" ".join(outlines)
    for ph in PHRASES:
        if ph in blob:
            return ph.decode()
    return "other: " + re.sub(rb"[^ -~]", b"?", blob.strip())[:40].decode()


def why_fail(model, op):
    cmd = op[0]
    n = op[2] if cmd == "write" else op[1]
    o = model.lookup(n)
    if cmd in ("mkdir", "write", "symlink", "mknod"):
        return "name exists (a %s)" % (o.kind if o else "?")
    if o is None:
        return "no such name"
    if cmd == "ln":
        return "destination exists and is not a directory"
    if cmd == "rmdir" and o.kind == "d":
        return "directory not empty"
    return "wrong type (%s)" % o.kind


# ----------------------------------------------------------------------------------------
# minimiser

def steps_text(steps, hosts=None):
    hosts = hosts or ["h%d" % k for k in range(len(HOST_SIZES))]
    out = []
    for s in steps:
        if s["t"] == "fsck":
            out.append(b"## e2fsck " + s["mode"].encode() + b" IMAGE")
        else:
            out.append(b"## debugfs -w -f <the following lines> IMAGE")
            out.extend(L.op_line(tuple(o), hosts) for o in s["ops"])
    return b"\n".join(out) + b"\n"


def steps_to_json(steps):
    return [{"t": "fsck", "mode": s["mode"]} if s["t"] == "fsck" else
            {"t": "dbg", "ops": [L.op_to_json(o) for o in s["ops"]]} for s in steps]


def steps_from_json(js):
    return [{"t": "fsck", "mode": s["mode"]} if s["t"] == "fsck" else
            {"t": "dbg", "ops": [L.op_from_json(o) for o in s["ops"]]} for s in js]


def minimise(ctx, cfg, desc, seed, steps, want_key, workdir, budget=220):
    """Shrink steps while execute() still reports want_key (and never hits UNDEF)."""
    runs = [0]

    def test(cand):
        if runs[0] >= budget:
            return False
        runs[0] += 1
        r = execute(ctx, cfg, desc, seed, FixedSteps(cand), workdir)
        return (not r["undef"]) and r["viol"] is not None and r["viol"][0] == want_key

    cur = [dict(s) for s in steps]
    # 1. drop whole steps
    i = 0
    while i < len(cur) and runs[0] < budget:
        cand = cur[:i] + cur[i + 1:]
        if cand and test(cand):
            cur = cand
        else:
            i += 1
    # 2. ddmin over the operations of all debugfs steps (step boundaries kept)
    flat = [(si, oi) for si, s in enumerate(cur) if s["t"] == "dbg" for oi in range(len(s["ops"]))]

    def build_from(keep):
        ks = set(keep)
        out = []
        for si, s in enumerate(cur):
            if s["t"] == "fsck":
                out.append(s)
            else:
                ops = [o for oi, o in enumerate(s["ops"]) if (si, oi) in ks]
                if ops:
                    out.append({"t": "dbg", "ops": ops})
        return out

    n = 2
    while len(flat) >= 2 and runs[0] < budget:
        chunk = max(1, len(flat) // n)
        reduced = False
        for a in range(0, len(flat), chunk):
            cand = flat[:a] + flat[a + chunk:]
            if cand and test(build_from(cand)):
                flat = cand
                n = max(n - 1, 2)
                reduced = True
                break
            if runs[0] >= budget:
                break
        if not reduced:
            if chunk == 1:
                break
            n = min(len(flat), n * 2)
    final = build_from(flat)
    # 3. drop fsck steps that became unnecessary
    i = 0
    while i < len(final) and runs[0] < budget:
        if final[i]["t"] == "fsck":
            cand = final[:i] + final[i + 1:]
            if cand and test(cand):
                final = cand
                continue
        i += 1
    return final, runs[0]


# ----------------------------------------------------------------------------------------
# workers

def _collisions(arg):
    hv, unsigned, hseed, ln, tries, tag = arg
    hp = L.HashParams(hv, hseed, unsigned)
    rng = run.rng_for(0, "C10-coll", hv, unsigned, ln, tag)
    width = 4
    prefix = L.random_name(rng, ln - width, "plain" if rng.random() < 0.5 else "high")
    return (hv, unsigned, ln), L.find_collisions(hp, prefix, ln, tries)


class GenStepper:
    """binds a Gen to the filesystem once it exists"""

    def __init__(self, rng, desc, cfg, coll):
        self.rng, self.desc, self.cfg, self.coll = rng, desc, cfg, coll
        self.gen = None

    def attach(self, fs):
        self.gen = Gen(self.rng, self.desc, self.cfg, fs["hp"], self.coll, fs["inode_cap"],
                       "dir_nlink" in fs["features"])

    def next_step(self, view):
        return self.gen.next_step(view)


def _run_one(arg):
    try:
        return _run_one_(arg)
    except Exception:
        import traceback
        return {"idx": arg[3], "desc": plan_history(arg[2], arg[3], arg[4]),
                "harness": "worker crashed: " + traceback.format_exc()[-1500:]}


def _run_one_(arg):
    tools, env, seed, idx, tier, colltab, replay_steps = arg
    ctx = Ctx(tools, env)
    desc = plan_history(seed, idx, tier)
    cfg = CONFIG_BY_NAME[desc["config"]]
    rng = run.rng_for(seed, "C10", idx)
    out = {"idx": idx, "desc": desc}
    with run.Work("C10w") as w:
        if replay_steps is not None:
            stepper = FixedSteps(replay_steps)
        else:
            coll = []
            for (hv, un, ln), groups in colltab.items():
                if hv == desc["hv"] and un == desc["unsigned"]:
                    coll.extend(groups)
            stepper = GenStepper(rng, desc, cfg, coll)
        res = execute(ctx, cfg, desc, seed, stepper, w.dir)
        if res["timeout"] and replay_steps is None:
            # re-run once before calling it a hang
            stepper = GenStepper(run.rng_for(seed, "C10", idx), desc, cfg, coll)
            res = execute(ctx, cfg, desc, seed, stepper, w.dir)
        st = res["stats"]
        st["fail_msgs"] = sorted(st["fail_msgs"])
        out.update(viol=res["viol"], harness=res["harness"], timeout=res["timeout"], stats=st,
                   features=res.get("features"), undef=res["undef"], after=res.get("after"),
                   nsteps=len(res["steps"]))
        g = getattr(stepper, "gen", None)
        out["gstats"] = g.stats if g else {}
        if g and idx < 3:
            first = next((s for s in res["steps"] if s["t"] == "dbg"), None)
            if first:
                out["sample"] = [L.op_line(o, ["h%d" % k for k in range(len(HOST_SIZES))]).decode("latin-1")[:100]
                                 for o in first["ops"][:10]]
        if res["viol"]:
            out["steps_json"] = steps_to_json(res["steps"])
            out["script"] = steps_text(res["steps"])
            if os.environ.get("VERIF_MINIMISE"):
                small, nruns = minimise(ctx, cfg, desc, seed, res["steps"], res["viol"][0], w.dir)
                out["min_json"] = steps_to_json(small)
                out["min_text"] = steps_text(small)
                out["min_runs"] = nruns
    return out


def main(tier, seed, replay=None, scale=1.0):
    rep = report.Report("C10", tier, seed, "exploration",
                        rule="history = 300-3000 model-generated debugfs namespace commands in several `debugfs -w -f` "
                             "chunks on 1-5 interleaved directories, interleaved with e2fsck -fyD / -fy; after every "
                             "chunk: independent listing of every directory vs. model, debugfs ls -l, inode/block "
                             "accounting, independent checker, e2fsck -fn.  non-trivial = history in which the "
                             "independent reader saw >= 1 htree leaf split, index growth or inline->block conversion; "
                             "distinct by (config, profile, hash, levels reached, kinds of events)")
    plain = build.get_build("plain")
    env = run.base_env(plain)
    tools = (plain.tool("debugfs"), plain.tool("e2fsck"), plain.tool("mke2fs"))
    _uu, hseed = hash_seed_uuid(seed)
    replay_steps = None
    if replay:
        cj = json.load(open(os.path.join(replay, "case.json")))
        c = cj["case"]
        seed = c["seed"]
        _uu, hseed = hash_seed_uuid(seed)
        todo = [c["idx"]]
        tier = c.get("tier", tier)
        which = os.environ.get("VERIF_REPLAY_STEPS", "steps.json")
        p = os.path.join(replay, which)
        if os.path.exists(p):
            replay_steps = steps_from_json(json.load(open(p)))
    else:
        n = max(6, int(BUDGET[tier] * scale))
        todo = list(range(n))
    descs = {i: plan_history(seed, i, tier) for i in todo}
    colltab = {}
    if replay_steps is None:
        combos = sorted(set((d["hv"], d["unsigned"]) for d in descs.values() if d["profile"] == "collision"))
        items = []
        for hv, un in combos:
            items.append((hv, un, hseed, 255, 150000, "a"))
            items.append((hv, un, hseed, 252, 110000, "b"))
            items.append((hv, un, hseed, 12, 110000, "c"))
        for key, groups in run.pmap(_collisions, items):
            colltab[key] = groups
            rep.count("collision_groups_found", len(groups))
    items = [(tools, env, seed, i, tier, colltab, replay_steps) for i in todo]
    results = run.pmap(_run_one, items)
    for r in results:
        d = r["desc"]
        if r.get("harness"):
            rep.harness_error("history %d (%s): %s" % (r["idx"], d["config"], r["harness"]))
            rep.case(None)
            continue
        if r.get("timeout"):
            rep.note_inconclusive("timeout in history %d (%s/%s)" % (r["idx"], d["config"], d["profile"]))
            rep.case(None)
            continue
        if r.get("undef"):
            rep.harness_error("history %d reached a state the model does not define" % r["idx"])
            rep.case(None)
            continue
        st = r["stats"]
        events = []
        if st["splits"]:
            events.append("split")
        if st["grow"]:
            events.append("grow")
        if st["inline_conv"]:
            events.append("inline-conv")
        nt = None
        if events:
            nt = json.dumps([d["config"], d["profile"], d["hv"], d["unsigned"], st["levels"], events])
        rep.case(nt)
        rep.count("histories")
        rep.count("operations", st["nops"])
        rep.count("debugfs_chunks", st["chunks"])
        for k, v in st["ops"].items():
            rep.count("op_" + k, v)
        for k, v in st["expected_failures"].items():
            rep.count("expected_failure_" + k, v)
        for k, v in st["fsck"].items():
            rep.count("e2fsck" + k, v)
        rep.count("leaf_splits_observed", st["splits"])
        rep.count("index_growth_observed", st["grow"])
        rep.count("inline_to_block_conversions", st["inline_conv"])
        rep.count("directories_indexed_by_e2fsck_D", st["index_created"])
        for k, v in (r.get("gstats") or {}).items():
            rep.count("names_" + k if k in ("targeted", "siblings", "reused_names") else k, v)
        rep.extra["max_entries_in_a_directory"] = max(rep.extra.get("max_entries_in_a_directory", 0), st["maxent"])
        rep.extra["max_htree_leaves"] = max(rep.extra.get("max_htree_leaves", 0), st["leaves_max"])
        rep.add("htree_levels_reached", st["levels"])
        rep.add("configs", d["config"])
        rep.add("profiles", d["profile"])
        rep.add("hash", "%s/%s" % (HASH_NAMES[d["hv"]], "unsigned" if d["unsigned"] else "signed"))
        rep.add("feature_sets", " ".join(r.get("features") or []))
        for m in st["fail_msgs"]:
            rep.add("failure_messages", m)
        if r.get("sample"):
            rep.sample({"history": d, "first_commands": r["sample"], "operations": st["nops"],
                        "max_entries": st["maxent"], "levels": st["levels"], "splits": st["splits"]})
        if r.get("viol"):
            key, what = r["viol"]
            files = {"script.txt": r["script"], "steps.json": json.dumps(r["steps_json"]).encode()}
            if r.get("min_json") is not None:
                files["minimised.txt"] = r["min_text"]
                files["minimised.json"] = json.dumps(r["min_json"]).encode()
                what += "\n(minimised to %d operations in %d runs: see minimised.txt)" % (
                    sum(len(s["ops"]) for s in r["min_json"] if s["t"] == "dbg"), r["min_runs"])
            if r.get("after"):
                what = "after %s (step %d): %s" % (r["after"], r["nsteps"], what)
            rep.violation(key, what, replay={"seed": seed, "idx": r["idx"], "tier": tier, "history": d}, files=files)
    rep.assumptions = [
        "debugfs `ln`/`unlink` do not touch i_links_count by design; the histories pair them with `sif <name> "
        "links_count` (hard link) or with each other (rename), and are judged only where names and link counts agree",
        "expand_dir on an indexed directory: either outcome of the command is accepted; the namespace and the "
        "consistency afterwards are judged as usual",
        "names: every byte except NUL, '/', LF, CR; not '.', '..', '<...>'",
        "dir_nlink overflow (>= 64999 subdirectories) and 3-level htrees are reached only in the thorough tier",
    ]
    return rep.finish()
