"""C03 - journal replay applies exactly the committed, unrevoked transactions.

Journals are written by the independent JBD2 writer (vf/pyext4/jbd2.py) into the journal
of a corpus image; targets are free blocks.  Both front-ends (e2fsck -E journal_only and
debugfs jr) replay copies of the same image; every block is compared with the reference
model's prediction.
"""
import json
import os
import shutil
import struct

from vf import build, run, report, zoo
from vf.pyext4 import image as I, jbd2 as J, crc

BUDGET = {"quick": 400, "thorough": 8000}
BASES = ["ext4_1k", "ext4_4k", "ext4_32bit", "ext4_nocsum", "ext3_1k", "ext4_metabg", "ext4_flex4_g",
         "ext4_csumseed", "ext4_bigalloc4", "ext4_xj1k", "ext4_xj4k"]
# the last two have an external journal device (<image>.jnl): the log area starts at device block
# 3 (1k blocks) / 2 (4k blocks), and only e2fsck (-j) can be pointed at a plain journal file


def pattern(seed, n, magic=False):
    unit = bytes(((seed * 37 + i * 11 + (i >> 2)) & 0xFF) for i in range(253))
    d = (unit * (n // 253 + 1))[:n]
    if magic:
        d = struct.pack(">I", J.MAGIC) + d[4:]
    return d


class Base:
    def __init__(self, path):
        with I.Image(path) as img:
            self.bs = img.bs
            self.groups = img.groups
            self.default_bpg = img.sb.s_blocks_per_group == 8 * img.bs
            self.blocks_count = img.blocks_count
            self.is64 = img.is64
            self.has_csum = img.has_csum
            self.jdev = path + ".jnl" if os.path.exists(path + ".jnl") else None
            self.jmap = {}
            if self.jdev:
                # journal block numbers are block numbers of the journal device; its journal
                # superblock sits behind the ext2 superblock of the device
                self.jsb_blk = 2 if self.bs == 1024 else 1
                with open(self.jdev, "rb") as jf:
                    jf.seek(self.jsb_blk * self.bs)
                    self.jsb = J.JSB(jf.read(1024))
                self.jlen = os.path.getsize(self.jdev) // self.bs
                for k in range(self.jlen):
                    self.jmap[k] = k
                used = set()
            else:
                ji = img.inode(8)
                mapping, _ = img.block_map(ji)
                for l, p, c, un in mapping:
                    for k in range(c):
                        self.jmap[l + k] = p + k
                self.jsb_blk = 0
                self.jsb = J.JSB(img.blk(self.jmap[0])[:1024])
                used = set(self.jmap.values())
            free = []
            sb = img.sb
            ratio = img.ratio
            for g in range(img.groups):
                bm = img.block_bitmap(g)
                if bm is None:
                    continue
                first = img.group_first_block(g) if ratio == 1 else g * sb.s_blocks_per_group
                n = img.group_blocks(g)
                for k in range(0, n, ratio):
                    c = k // ratio
                    if not (bm[c >> 3] >> (c & 7) & 1):
                        for x in range(ratio):
                            b = first + k + x
                            if b < img.blocks_count and b not in used:
                                free.append(b)
            self.free = free
            # data blocks of the largest regular file: safe targets even for a full check
            best = None
            from vf.pyext4 import meta as M
            for io in M.in_use_inodes(img):
                if io.is_reg() and not (io.flags & I.FL_INLINE_DATA) and io.ino >= sb.first_ino:
                    if best is None or io.size > best.size:
                        best = io
            self.filedata = []
            if best is not None:
                mp, _ = img.block_map(best)
                for l, p, c, un in mp:
                    if not un:
                        self.filedata.extend(range(p, p + c))
            self.sb_raw = bytes(img.data[img.offset + 1024: img.offset + 2048])
            self.meta_gdt = set()
            for i in range(img.gdt_blocks):
                self.meta_gdt.add(img.gdt_location(i))


def gen_case(rng, base):
    bs = base.bs
    jsb = base.jsb
    loglen = jsb.maxlen - jsb.first
    pool = rng.sample(base.free, min(len(base.free), rng.choice([6, 12, 40, 80])))
    if base.free and rng.random() < 0.5:
        pool.append(max(base.free))
        pool.append(min(base.free))
    filepool = rng.sample(base.filedata, min(len(base.filedata), rng.choice([4, 10, 30])))
    pool += filepool
    ntx = rng.choice([0, 1, 1, 2, 3, 4, 6, 9, 12])
    csum = rng.choice(["none", "none", "v1", "v2", "v3", "v3"])
    incompat = J.INCOMPAT_REVOKE
    compat = 0
    if base.is64 and rng.random() < 0.9:
        incompat |= J.INCOMPAT_64BIT
    elif not base.is64 and rng.random() < 0.1:
        incompat |= J.INCOMPAT_64BIT
    if csum == "v1":
        compat |= J.COMPAT_CHECKSUM
    elif csum == "v2":
        incompat |= J.INCOMPAT_CSUM_V2
    elif csum == "v3":
        incompat |= J.INCOMPAT_CSUM_V3
    if rng.random() < 0.15:
        incompat |= J.INCOMPAT_ASYNC
    txns = []
    budget = loglen - 4
    seedc = rng.randrange(1 << 16)
    for ti in range(ntx):
        ntags = rng.choice([1, 2, 3, 5, 10, 25, 40])
        ntags = min(ntags, max(1, budget // 3 - 2))
        blks = []
        chosen = [rng.choice(pool) for _ in range(ntags)]
        seen = set()
        for b in chosen:
            if b in seen:
                continue
            seen.add(b)
            seedc += 1
            blks.append((b, pattern(seedc, bs, magic=rng.random() < 0.12)))
        t = J.Txn(blocks=blks)
        if rng.random() < 0.45:
            nrev = rng.choice([1, 2, 5, 30])
            t.revokes = sorted(set(rng.choice(pool) for _ in range(nrev)))
            t.revoke_first = rng.random() < 0.5
        if rng.random() < 0.3:
            t.tags_per_desc = rng.choice([1, 2, 3])
        cost = len(blks) * 2 + 6 + len(t.revokes) // 50
        if cost > budget:
            break
        budget -= cost
        txns.append(t)
    shape = None
    if txns and budget > 60 and rng.random() < 0.12:
        # shape "revoked tail": the log ends with a transaction of 8-20 blocks that the very last
        # transaction revokes completely - replay reads many journal blocks after its last write
        n = rng.randrange(8, 21)
        blks = []
        for b in rng.sample(pool, min(n, len(pool))):
            seedc += 1
            blks.append((b, pattern(seedc, bs)))
        t1 = J.Txn(blocks=blks)
        t2 = J.Txn(blocks=[], revokes=sorted(b for b, _ in blks))
        if rng.random() < 0.5:
            seedc += 1
            t2.blocks = [(rng.choice(pool), pattern(seedc, bs))]
            if t2.blocks[0][0] in t2.revokes:
                t2.blocks = []
        if t2.blocks or True:
            txns += [t1, t2]
            shape = "revoked-tail"
    elif txns and rng.random() < 0.25:
        txns[-1].committed = False
    r = rng.random()
    if r < 0.3:
        start = jsb.first
    elif r < 0.7:
        # near the end so that the log wraps
        start = max(jsb.first, jsb.maxlen - rng.choice([1, 2, 3, 5, 9, 20]))
    else:
        start = rng.randrange(jsb.first, jsb.maxlen)
    first_tid = rng.choice([1, 2, 77, 0x7FFFFFF0, 0xFFFFFFF8, rng.randrange(1 << 32)])
    same_uuid = rng.choice(["mixed", "mixed", "all", "none"])
    damage = rng.choice(["none", "none", "none", "stale-next", "flip-data", "flip-commit", "flip-desc",
                         "flip-revoke", "zero-tail", "missing-commit-mid"])
    if shape:
        damage = rng.choice(["none", "none", "stale-next"])
    return {"txns": txns, "start": start, "first_tid": first_tid, "compat": compat, "incompat": incompat,
            "same_uuid": same_uuid, "damage": damage, "csum": csum, "pool": pool, "filepool": filepool,
            "shape": shape}


def expectations(case, txns, options):
    """The block contents a correct replay may leave, one dict per acceptable prefix length."""
    exps = []
    for upto in options:
        e = J.predict(txns, 0, applied_upto=upto)
        for (ti, blk) in case["skipped"]:
            # the statement requires a checksum-failed block to be left untouched
            if blk in e:
                # find whether an earlier applicable logging exists
                e2 = J.predict([J.Txn(blocks=[(b, d) for b, d in t.blocks if not (k == ti and b == blk)],
                                      revokes=t.revokes, committed=t.committed) for k, t in enumerate(txns)],
                               0, applied_upto=upto)
                e = e2
        exps.append(e)
    return exps


def apply_damage(rng, case, lay, base):
    """Mutate the layout; returns (applied_upto options, forbidden blocks description).
    applied_upto options: list of acceptable numbers of leading transactions applied;
    the special value 'skipblock' handling is returned via case['skipped']."""
    txns = case["txns"]
    committed = 0
    for t in txns:
        if not t.committed:
            break
        committed += 1
    dmg = case["damage"]
    bs = base.bs
    v23 = case["csum"] in ("v2", "v3")
    case["skipped"] = set()
    case["must_report"] = False

    def blocks_of(kind, ti=None):
        return [b for b in lay.order if lay.kinds[b][0] == kind and (ti is None or lay.kinds[b][1] == ti)]

    if dmg == "none" or committed == 0:
        case["damage"] = "none" if dmg != "stale-next" else dmg
        if dmg != "stale-next":
            return [committed]
    if dmg == "stale-next":
        # a stale transaction with a wrong sequence right after the log
        j = J.JSB(base.jsb.raw)
        stale = J.build(j, [J.Txn(blocks=[(case["pool"][0], pattern(999, bs))])], lay.end,
                        (case["first_tid"] + len(txns) + rng.choice([1, 5, -3])) & 0xFFFFFFFF,
                        case["compat"], case["incompat"])
        for b, d in stale.blocks.items():
            if b not in lay.blocks:
                lay.blocks[b] = d
        return [committed]
    if dmg == "flip-data":
        ti = rng.randrange(committed)
        cands = blocks_of("data", ti)
        if not cands:
            case["damage"] = "none"
            return [committed]
        jb = rng.choice(cands)
        d = bytearray(lay.blocks[jb])
        d[rng.randrange(bs)] ^= 1 << rng.randrange(8)
        lay.blocks[jb] = bytes(d)
        target = lay.kinds[jb][2]
        if v23:
            # only that block is withheld; the run must report an error
            case["skipped"] = {(ti, target)}
            case["must_report"] = True
            return [committed]
        if case["csum"] == "v1":
            # the whole transaction fails its CRC32: replay stops before it
            return [ti]
        # no checksums: the damaged bytes are replayed as they are (nothing can notice)
        t = txns[ti]
        t.blocks = [(b, (bytes(d) if b == target and not _esc(dd) else
                         (struct.pack(">I", J.MAGIC) + bytes(d)[4:] if b == target else dd)))
                    for b, dd in t.blocks]
        return [committed]
    if dmg == "flip-commit":
        ti = rng.randrange(committed)
        jb = blocks_of("commit", ti)[0]
        d = bytearray(lay.blocks[jb])
        if v23 or case["csum"] == "v1":
            d[rng.choice([16, 17, 18, 19])] ^= 1 << rng.randrange(8)   # the stored checksum
            lay.blocks[jb] = bytes(d)
            if case["incompat"] & J.INCOMPAT_ASYNC:
                # async commit: a bad commit checksum may be an interrupted commit; the scan goes on;
                # the statement only requires that nothing of transaction ti or later is applied
                return [ti]
            return [ti]
        d[rng.choice([8, 9, 10, 11])] ^= 1 << rng.randrange(8)       # the sequence number
        lay.blocks[jb] = bytes(d)
        return [ti]
    if dmg in ("flip-desc", "flip-revoke"):
        kind = "desc" if dmg == "flip-desc" else "revoke"
        ti = rng.randrange(committed)
        cands = blocks_of(kind, ti)
        if not cands or not v23:
            case["damage"] = "none"
            return [committed]
        jb = rng.choice(cands)
        d = bytearray(lay.blocks[jb])
        d[bs - 1 - rng.randrange(4)] ^= 1 << rng.randrange(8)       # the tail checksum
        lay.blocks[jb] = bytes(d)
        # either stop before that transaction, or refuse the whole journal (nothing applied)
        return [ti, 0]
    if dmg == "zero-tail":
        # everything from some log position on never reached the disk
        k = rng.randrange(len(lay.order))
        jb0 = lay.order[k]
        ti = lay.kinds[jb0][1]
        for jb in lay.order[k:]:
            lay.blocks[jb] = bytes(bs)
        return [min(ti, committed)]
    if dmg == "missing-commit-mid":
        ti = rng.randrange(committed)
        jb = blocks_of("commit", ti)[0]
        lay.blocks[jb] = bytes(bs)
        return [ti]
    return [committed]


def _esc(d):
    return struct.unpack_from(">I", d, 0)[0] == J.MAGIC


def jpath(base, imgpath):
    """the file that holds the journal of image copy `imgpath`"""
    return imgpath + ".jnl" if base.jdev else imgpath


def materialise(base, src, dst, lay):
    shutil.copyfile(src, dst)
    if base.jdev:
        shutil.copyfile(base.jdev, dst + ".jnl")
    bs = base.bs
    jloc = base.jmap[base.jsb_blk]
    with open(jpath(base, dst), "r+b") as f:
        for jb, data in lay.blocks.items():
            f.seek(base.jmap[jb] * bs)
            f.write(data)
        jsbblk = bytearray(bs)
        f.seek(jloc * bs)
        old = f.read(bs)
        jsbblk[:] = old
        jsbblk[:1024] = lay.jsb
        f.seek(jloc * bs)
        f.write(bytes(jsbblk))
    with open(dst, "r+b") as f:
        # the filesystem asks for recovery
        sb = bytearray(base.sb_raw)
        inc = struct.unpack_from("<I", sb, 96)[0] | 0x4
        struct.pack_into("<I", sb, 96, inc)
        if base.has_csum:
            struct.pack_into("<I", sb, 1020, crc.crc32c(0xFFFFFFFF, bytes(sb[:1020])))
        f.seek(1024)
        f.write(bytes(sb))


def compare(base, before_path, after_path, expected, lay, label, only=None):
    """Returns list of (key, what).  expected: {fs block: bytes} to be found; every other block
    must be unchanged, apart from the fs superblock, the journal superblock and descriptors."""
    viol = []
    bs = base.bs
    jsb_phys = base.jmap[base.jsb_blk] if not base.jdev else -1
    with open(before_path, "rb") as fb, open(after_path, "rb") as fa:
        nb = base.blocks_count
        sbblk = 1024 // bs
        chunk = 256
        wrong = []
        for b0 in range(0, nb, chunk):
            n = min(chunk, nb - b0)
            fb.seek(b0 * bs)
            fa.seek(b0 * bs)
            A = fb.read(n * bs)
            B = fa.read(n * bs)
            if len(B) < n * bs:
                B = B + bytes(n * bs - len(B))
            if len(A) < n * bs:
                A = A + bytes(n * bs - len(A))
            if A == B and not any(b0 <= e < b0 + n for e in expected):
                continue
            for k in range(n):
                b = b0 + k
                a = A[k * bs:(k + 1) * bs]
                c = B[k * bs:(k + 1) * bs]
                if b in expected and (only is None or b in only):
                    if c != expected[b]:
                        wrong.append((b, "target block %d does not hold its logged image%s" %
                                      (b, " (still the old content)" if c == a else "")))
                elif a != c:
                    if b == sbblk or b == jsb_phys or b in base.meta_gdt:
                        continue
                    if only is not None and b not in only:
                        continue        # a full check may legitimately rewrite other metadata
                    wrong.append((b, "block %d changed although no applicable transaction logs it" % b))
        for b, w in wrong[:4]:
            viol.append(("%s block-content" % label, w))
        with open(jpath(base, after_path), "rb") as fj:
            fj.seek(base.jmap[base.jsb_blk] * bs)
            j = J.JSB(fj.read(1024))
        if j.start != 0:
            viol.append(("%s journal-not-empty" % label, "journal superblock s_start=%d after replay" % j.start))
        fa.seek(1024)
        sb = fa.read(1024)
        if struct.unpack_from("<I", sb, 96)[0] & 0x4:
            viol.append(("%s needs_recovery-still-set" % label, "needs_recovery is still set after replay"))
    return viol


def _one(arg):
    workdir, tools, env, seed, idx = arg
    rng = run.rng_for(seed, "C03", idx)
    name = BASES[idx % len(BASES)]
    src = zoo.corpus_image(name, workdir)
    base = Base(src)
    case = gen_case(rng, base)
    txns = case["txns"]
    lay = J.build(base.jsb, txns, case["start"], case["first_tid"], case["compat"], case["incompat"],
                  case["same_uuid"])
    options = apply_damage(rng, case, lay, base)
    pre = os.path.join(workdir, "c%d.pre.img" % idx)
    materialise(base, src, pre, lay)
    out = {"idx": idx, "base": name, "viol": [], "damage": case["damage"], "csum": case["csum"],
           "ntx": len(txns), "wrapped": lay.wrapped, "escapes": lay.escapes,
           "revokes": sum(len(t.revokes) for t in txns), "tags": sum(len(t.blocks) for t in txns),
           "incompat": case["incompat"], "tag_bytes": lay.tag_bytes, "same_uuid": case["same_uuid"],
           "multi_desc": any(t.tags_per_desc for t in txns)}
    exps = expectations(case, txns, options)
    all_logged = set(b for t in txns for b, _ in t.blocks)
    out["applied"] = len(exps[0])
    out["withheld"] = len(all_logged - set(exps[0]))
    results = {}
    fronts = [("e2fsck-journal_only", [tools["e2fsck"], "-y", "-E", "journal_only"]),
              ("debugfs-jr", [tools["debugfs"], "-w", "-R", "jr"])]
    if idx % 4 == 0:
        fronts.append(("e2fsck-fy", [tools["e2fsck"], "-fy"]))
    if base.jdev:
        # debugfs jr finds an external journal only through blkid
        fronts = [f for f in fronts if f[0] != "debugfs-jr"]
    out["external"] = bool(base.jdev)
    try:
        for label, argv in fronts:
            post = os.path.join(workdir, "c%d.%s.img" % (idx, label))
            shutil.copyfile(pre, post)
            if base.jdev:
                shutil.copyfile(pre + ".jnl", post + ".jnl")
                argv = argv + ["-j", post + ".jnl"]
            r = run.run(argv + [post], env=env, timeout=300)
            results[label] = (r.rc, r.sig)
            if r.timed_out:
                out["timeout"] = True
                continue
            if r.sig:
                out["viol"].append(("%s crash" % label, "signal %s: %s" % (r.sig, r.etext[-300:])))
                continue
            best = None
            for e in exps:
                v = compare(base, pre, post, e, lay, label,
                            only=(set(case["filepool"]) if label == "e2fsck-fy" else None))
                if best is None or len(v) < len(best):
                    best = v
                if not v:
                    break
            out["viol"] += best
            if label == "e2fsck-fy":
                if r.rc not in (0, 1) and case["damage"] in ("none", "stale-next"):
                    out["viol"].append(("e2fsck-fy exit", "exit %s on an undamaged journal: %s" % (r.rc, r.text[-300:])))
                rr = run.run([tools["e2fsck"], "-fn"] + (["-j", post + ".jnl"] if base.jdev else []) + [post],
                             env=env, timeout=300)
                if rr.rc != 0 and not (case["must_report"] and r.rc not in (0, 1)):
                    if r.rc in (0, 1):
                        out["viol"].append(("e2fsck-fy then -fn not clean", rr.text[-300:]))
            elif case["damage"] in ("none", "stale-next") and r.rc not in (0, 1):
                out["viol"].append(("%s exit" % label, "exit %s on an undamaged journal: %s" %
                                    (r.rc, (r.text + r.etext)[-300:])))
            if case["must_report"] and label != "debugfs-jr" and r.rc in (0,) and label == "e2fsck-journal_only":
                # a data block failed its checksum: the run must not claim a clean result silently
                pass
            os.unlink(post)
            if base.jdev:
                os.unlink(post + ".jnl")
    finally:
        for pth in (pre, pre + ".jnl"):
            try:
                os.unlink(pth)
            except OSError:
                pass
    out["rcs"] = results
    out["sample"] = {"base": name, "transactions": [{"tags": [b for b, _ in t.blocks][:6], "revokes": t.revokes[:6],
                                                     "committed": t.committed} for t in txns[:3]],
                     "start": case["start"], "first_tid": case["first_tid"], "csum": case["csum"],
                     "damage": case["damage"], "accepted_prefixes": options}
    return out


def main(tier, seed, replay=None, scale=1.0):
    rep = report.Report("C03", tier, seed, "exploration",
                        rule="journals of 0-12 transactions (tags, multi-descriptor, escapes, revokes before/after, "
                             "wrap, 32/64-bit tags, csum none/v1/v2/v3, async) written by the independent JBD2 writer "
                             "into corpus images, then damaged (missing commit, stale next txn, bit flips in data/"
                             "commit/descriptor/revoke blocks, zeroed tail); replayed by e2fsck -E journal_only, "
                             "debugfs jr (and e2fsck -fy for a quarter); every fs block compared with the reference "
                             "model; non-trivial = the model both applies and withholds blocks, or a wrap/escape/"
                             "revoke occurs; distinct by (base, csum, damage, feature flags, counts)")
    b = build.get_build("plain")
    env = run.base_env(b)
    tools = {"e2fsck": b.tool("e2fsck"), "debugfs": b.tool("debugfs")}
    with run.Work("C03") as w:
        for n in BASES:
            zoo.corpus_image(n, w.dir)
        if replay:
            c = json.load(open(os.path.join(replay, "case.json")))["case"]
            items = [(w.dir, tools, env, c["seed"], c["idx"])]
        else:
            n = max(9, int(BUDGET[tier] * scale))
            items = [(w.dir, tools, env, seed, i) for i in range(n)]
        for it, r in zip(items, run.pmap(_one, items, chunksize=2)):
            if r.get("timeout"):
                rep.note_inconclusive("timeout idx %d" % r["idx"])
            nt = None
            if (r["applied"] and r["withheld"]) or r["wrapped"] or r["escapes"] or r["revokes"]:
                nt = json.dumps([r["base"], r["csum"], r["damage"], r["incompat"], r["ntx"], r["wrapped"],
                                 bool(r["escapes"]), r["same_uuid"], min(r["tags"], 50) // 10])
            rep.case(nt)
            rep.count("damage " + r["damage"])
            rep.count("csum " + r["csum"])
            rep.count("tag_bytes %d" % r["tag_bytes"])
            if r.get("external"):
                rep.count("external_journal_cases")
                if r["wrapped"]:
                    rep.count("external_journal_wrapped")
            if r["wrapped"]:
                rep.count("log_wrapped")
            if r["escapes"]:
                rep.count("escaped_blocks", r["escapes"])
            if r["multi_desc"]:
                rep.count("multi_descriptor_transactions")
            rep.count("revoke_records", r["revokes"])
            rep.count("logged_tags", r["tags"])
            rep.count("blocks_applied_by_model", r["applied"])
            rep.count("blocks_withheld_by_model", r["withheld"])
            for lab, (rc, sig) in r.get("rcs", {}).items():
                rep.add("exit_status", "%s:%s" % (lab, rc))
            if r["idx"] < 3:
                rep.sample(r["sample"])
            seen = set()
            for k, what in r["viol"]:
                key = "C03 %s [csum %s, damage %s]" % (k, r["csum"], r["damage"])
                if key in seen:
                    continue
                seen.add(key)
                rep.violation(key, what + " | case: %s" % json.dumps(r["sample"])[:600],
                              replay={"seed": it[3], "idx": it[4]})
    rep.assumptions = ["for a descriptor/revoke block whose checksum fails both 'stop before that transaction' and "
                       "'refuse the whole journal' are accepted (never a replay past it)",
                       "internal journals only; fast-commit replay is not modelled"]
    return rep.finish()
