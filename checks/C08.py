"""C08 - resize2fs preserves every file and leaves a consistent filesystem.

Images are built by the tree under test (zoo.build_image over a feature subset of zoo.SPECS
plus a few specs of this check: >= 60 % full ones and ^resize_inode layouts whose growth
forces inode tables to move), settled once with `e2fsck -fy` if the tree's own mke2fs/
debugfs output is not accepted, and freshly checked.  One case = one `resize2fs` run on a
copy of such an image:

  min       -M, and explicit sizes  P, P+1, P+blocks_per_group-1  (P = `resize2fs -P`)
  boundary  every group boundary -1/0/+1 within 0.5x .. 4x of the original size
  random    random sizes in [P, 4x] (some given in K / 512-byte sector units)
  convert   -b / -s (32 <-> 64 bit)
  refuse    requests the tool must refuse: below the minimum, shrinking a stable_inodes
            filesystem, -b without extents, bigalloc without -f
  same      the current size, -b on a 64-bit / -s on a 32-bit filesystem (exit 0, no-ops)
  gdtgrow   2x .. 4x growth of filesystems without reserved descriptor blocks (^resize_inode, no
            meta_bg): the growing descriptor table displaces bitmaps and inode tables
  chain     two runs in sequence (shrink/grow/convert, then back / double / -M / random); both
            runs are judged in full, the second against the result of the first

Oracles (independent reader vf/pyext4 + raw bytes; e2fsck's *status* is part of the
property): after exit 0 - `e2fsck -fn` exits 0, pyext4's checker finds nothing, the
superblock's block count equals the size the tool reported (and that lies within the last
partial group below the request), the tree digest (paths, types, sizes, content hashes,
holes, modes, owners, link groups, symlink targets, xattrs) is unchanged, the image file is
not shorter than the filesystem.  After a refusal - the bytes of the filesystem are
identical.  A run that failed after announcing the resize ("aborted") must leave
EXT2_ERROR_FS in the primary superblock.

Crash-point clause, on the traced subset: after all cases have run untraced, 20 (quick) /
300 (thorough) of them are repeated under LD_PRELOAD shim/iotrace.c watching the image -
chosen by what the untraced run was observed to do (inode tables moved, inodes renumbered,
file blocks moved, groups added/removed, conversion, chain, per operation / feature class /
spec; resize2fs is deterministic) - and judged again in full.  The trace is first
self-checked (replay over the pre-image == post-image, else harness failure); then every prefix of the write sequence is replayed over the pre-image with a
sparse overlay, tracking the primary superblock bytes and the set of blocks that differ
from the pre-image outside {primary superblock, backup superblocks, backup descriptor
blocks of the pre- and post-geometry}.  For every prefix that ends before the final
rewrite of the primary superblock (the last run of consecutive writes into bytes
1024..2047) and in which such a block differs, s_state must carry EXT2_ERROR_FS.  Strong
form: a successful fsync/fdatasync lies between the first write that sets the flag and the
first real modification.
"""
import json
import os
import pickle
import re
import shutil
import struct
import hashlib

from vf import build, run, report, zoo, fsckpair, iotrace
from vf.pyext4 import image as I, tree as T

BUDGET = {"quick": (120, 20), "thorough": (3000, 300)}

OWN_SPECS = [
    dict(name="c08_fill60", kb=14336, args="-t ext4 -b 1024 -G 4 -g 2048 -J size=1 -m 0", tree="std",
         fill=True),
    dict(name="c08_fill_ext2", kb=12288, args="-t ext2 -b 1024 -m 0", tree="std", fill=True),
    dict(name="c08_nores_flex", kb=8192, args="-t ext4 -b 1024 -O ^resize_inode -g 512 -J size=1",
         tree="std", extras=["xattrs"]),
    dict(name="c08_nores_ext2", kb=16384, args="-t ext2 -b 1024 -O ^resize_inode -g 256 -N 4096",
         tree="std"),
    # sparse_super2 corner cases: a single backup group; a full filesystem whose last group's
    # backup area is followed by data (the backup moves to the new last group on grow)
    dict(name="c08_sp2_one", kb=8192, args="-t ext4 -b 1024 -O sparse_super2 -E num_backup_sb=1 -g 1024 -J size=1",
         tree="std"),
    dict(name="c08_sp2_fill", kb=8192, args="-t ext4 -b 1024 -O sparse_super2,^resize_inode -g 1024 -J size=1 -m 0",
         tree="std", fill=True),
    # few inodes per group + most of the early files removed again ("punch"): the survivors sit in
    # high groups, so shrinking renumbers inodes and relocates blocks, xattr blocks and EA inodes
    dict(name="c08_holes_ext4", kb=8192, args="-t ext4 -b 1024 -g 256 -N 288 -I 256 -J size=1",
         tree="std", extras=["xattrs"], punch=True),
    dict(name="c08_holes_ea", kb=8192, args="-t ext4 -b 1024 -g 256 -N 288 -I 256 -O ea_inode,^flex_bg -J size=1",
         tree="std", extras=["xattrs", "bigxattr"], quota_after=True, punch=True),
    dict(name="c08_holes_ext3", kb=8192, args="-t ext3 -b 1024 -g 256 -N 288 -J size=1", tree="std",
         extras=["xattrs", "deepfile"], punch=True),
]
# "packed": tiny groups, the first KEEP groups filled to the last block and inode, a few files
# whose inodes and data live behind them; a forced shrink to KEEP groups can only use the blocks
# the shrink itself frees (descriptor blocks) - the allocator's tightest mode
OWN_SPECS += [
    dict(name="c08_packed15", kb=32768, packed=dict(keep=15, bpg=256, sparse_data=True, opts="^has_journal,^resize_inode,^metadata_csum,^64bit,^huge_file,^dir_nlink")),
    dict(name="c08_packed7c", kb=32768, packed=dict(keep=7, bpg=256, opts="^has_journal,^resize_inode")),
]
QUICK_SPECS = ["c08_packed15", "c08_packed7c", "ext2_1k", "ext4_1k", "ext4_4k", "ext4_flex4_g", "ext4_noflex", "ext4_metabg",
               "ext4_32bit", "ext4_bigalloc4", "ext4_inline", "ext4_sparse2", "ext4_eainode",
               "ext4_quota", "ext4_orphanfile", "ext4_full", "ext4_64groups", "ext4_4k_encodings",
               "c08_fill60", "c08_nores_flex", "c08_nores_ext2", "c08_holes_ext4", "c08_holes_ea",
               "c08_holes_ext3", "c08_sp2_one", "c08_sp2_fill"]
THOROUGH_SPECS = QUICK_SPECS + ["ext2_4k", "ext2_2k_nosparse", "ext3_1k", "ext3_4k_htree",
                                "ext4_1k_wide", "ext4_2k_i512", "ext4_1k_i1024", "ext4_1k_i128",
                                "ext4_nocsum", "ext4_gdtcsum", "ext4_csumseed", "ext4_bigalloc16",
                                "ext4_inline_4k", "ext4_project", "ext4_largedir", "ext4_stride",
                                "ext4_noextent_64", "ext4_onegroup", "ext4_empty", "c08_fill_ext2"]
FCLASS = ("bigalloc", "meta_bg", "flex_bg", "sparse_super2")
ATTR_ORDER = ["missing-path", "added-path", "ino_type", "sha", "size", "holes", "target", "xattrs",
              "mode", "uid", "gid", "nlink", "ino_group", "entries", "rdev"]
EXT2_ERROR_FS = 2


def spec_of(name):
    for s in OWN_SPECS:
        if s["name"] == name:
            return s
    return zoo.spec_by_name(name)


# ------------------------------------------------------------------ independent observations

def geometry(img):
    sb = img.sb
    return {"bs": img.bs, "blocks": img.blocks_count, "groups": img.groups,
            "bpg": sb.s_blocks_per_group, "first_data": sb.s_first_data_block, "ratio": img.ratio,
            "features": sb.features(), "state": sb.s_state,
            "itables": [g.inode_table for g in img.group_descs()],
            "free": sb.free_blocks_count, "inodes": sb.s_inodes_count}


def backup_blocks(img):
    """Blocks that hold non-authoritative copies: backup superblocks and backup group
    descriptor blocks (own placement formulas of pyext4, not libext2fs)."""
    s = set()
    sb = img.sb
    meta = sb.has_incompat("meta_bg")
    old = min(sb.s_first_meta_bg, img.gdt_blocks) if meta else img.gdt_blocks
    for g in range(1, img.groups):
        if img.bg_has_super(g):
            b = img.sb_block(g)
            s.add(b)
            for i in range(old):
                s.add(b + 1 + i)
    if meta:
        dpb = img.descs_per_block
        for i in range(old, img.gdt_blocks):
            first = i * dpb
            for g in (first + 1, first + dpb - 1):
                if g < img.groups:
                    s.add(img.sb_block(g) + 1 if img.bg_has_super(g) else img.group_first_block(g))
    return s


def phys_map(img, limit=200000):
    """path -> (inode number, digest of the physical placement of its blocks, xattr block)."""
    out = {}
    stack = [(b"", I.ROOT_INO)]
    seen = set()
    while stack:
        path, ino = stack.pop()
        i = img.inode(ino)
        try:
            ext, meta = img.block_map(i)
        except I.FormatError:
            ext, meta = [("?",)], []
        h = hashlib.sha256(repr((ext, sorted(meta), i.file_acl)).encode()).hexdigest()[:16]
        out[path or b"/"] = (ino, h)
        if len(out) > limit:
            break
        if i.is_dir() and ino not in seen:
            seen.add(ino)
            for name, cino, ft in img.list_dir(i):
                if name not in (b".", b".."):
                    stack.append((path + b"/" + name, cino))
    return out


def observe(path, want_phys=True):
    """Everything the oracles need from one image, read with pyext4 only."""
    with I.Image(path) as img:
        geo = geometry(img)
        bk = backup_blocks(img)
        dig = T.tree_digest(img)
        ph = phys_map(img) if want_phys else None
    return geo, bk, dig, ph


def fclass(features):
    c = [f for f in FCLASS if f in features]
    return "+".join(c) if c else "plain"


def first_problem(text, imgpath):
    text = text.replace(imgpath, "IMG")
    for ln in text.splitlines():
        s = ln.strip()
        if not s or s.startswith("Pass ") or s.startswith("e2fsck "):
            continue
        if re.match(r"^\S+: \d+/\d+ files", s):
            continue
        m = re.match(r"^(Block|Inode) bitmap differences:", s)
        if m:       # the list of differences is seed dependent; keep only which signs occur
            return "%s bitmap differences: %s" % (m.group(1), "".join(
                sorted(set(re.findall(r"(?<![\d(-])([+-])[(\d]", s[len(m.group(0)):])))))
        s = re.sub(r"'[^']*'", "'X'", s)
        s = re.sub(r" in (/\S*|\?\?\?) \(", " in DIR (", s)
        return re.sub(r"\d+", "N", s)[:70]
    return "(no message)"


def digest_diff(a, b):
    attrs = set()
    for p in set(a) | set(b):
        if p not in a:
            attrs.add("added-path")
        elif p not in b:
            attrs.add("missing-path")
        else:
            da, db = a[p], b[p]
            for k in set(da) | set(db):
                if da.get(k) != db.get(k):
                    attrs.add(k)
    order = [x for x in ATTR_ORDER if x in attrs] + sorted(attrs - set(ATTR_ORDER))
    return order


def fs_bytes_identical(base, cur, nbytes):
    """First nbytes of `cur` equal those of `base` (base zero-extended)?"""
    with open(base, "rb") as fa, open(cur, "rb") as fb:
        left = nbytes
        while left > 0:
            n = min(1 << 20, left)
            a = fa.read(n)
            b = fb.read(n)
            if len(a) < n:
                a += bytes(n - len(a))
            if len(b) < n:
                return False
            if a != b:
                return False
            left -= n
    return True


# ------------------------------------------------------------------ the flag rule over a trace

SB_LO, SB_HI = 1024, 2048


def flag_check(pre_path, recs, bs, excluded):
    """Walk the trace prefix by prefix (see module docstring).  Returns a dict."""
    mods = [i for i, r in enumerate(recs) if r.watch == 0 and iotrace.is_modifying(r)]
    syncs = [i for i, r in enumerate(recs) if r.watch == 0 and iotrace.is_sync(r)]

    def span(r):
        if r.op in iotrace.DATA_OPS:
            return r.offset, r.offset + len(r.data)
        return None

    def touches_sb(r):
        s = span(r)
        return s is not None and s[0] < SB_HI and s[1] > SB_LO

    def only_sb(r):
        s = span(r)
        return s is not None and s[0] >= SB_LO and s[1] <= SB_HI

    # the final rewrite of the primary superblock: last run of consecutive modifying
    # records that write into the primary superblock
    run_start = len(recs)
    last = None
    for k in range(len(mods) - 1, -1, -1):
        if touches_sb(recs[mods[k]]):
            last = k
            break
    if last is not None:
        k = last
        while k > 0 and only_sb(recs[mods[k]]) and only_sb(recs[mods[k - 1]]):
            k -= 1
        run_start = mods[k]
    res = {"writes": len(mods), "syncs": len(syncs), "prefixes": 0, "final_sb_rewrite_at": run_start,
           "violation": None, "strong": None, "first_flag": None, "first_mod": None,
           "max_dirty_blocks": 0, "flagged_prefixes": 0}
    ov = iotrace.Overlay(pre_path)
    try:
        sb = bytearray(ov.base_read(SB_LO, 1024))
        pre_flag = bool(struct.unpack_from("<H", sb, 58)[0] & EXT2_ERROR_FS)
        res["pre_flag"] = pre_flag
        dirty = set()
        sb_blk = SB_LO // bs
        ever_set = pre_flag
        for i in mods:
            if i >= run_start:
                break
            r = recs[i]
            for off, ln in ov.apply(r):
                if ln <= 0:
                    continue
                for blk in range(off // bs, (off + ln + bs - 1) // bs):
                    if blk in excluded:
                        continue
                    cur = ov.read(blk * bs, bs)
                    org = ov.base_read(blk * bs, bs)
                    if blk == sb_blk:
                        lo = SB_LO - blk * bs
                        cur = cur[:lo] + cur[lo + 1024:]
                        org = org[:lo] + org[lo + 1024:]
                    if cur != org:
                        dirty.add(blk)
                    else:
                        dirty.discard(blk)
                if off < SB_HI and off + ln > SB_LO:
                    sb = bytearray(ov.read(SB_LO, 1024))
            flag = bool(struct.unpack_from("<H", sb, 58)[0] & EXT2_ERROR_FS)
            res["prefixes"] += 1
            res["max_dirty_blocks"] = max(res["max_dirty_blocks"], len(dirty))
            if flag and not ever_set:
                res["first_flag"] = i
            ever_set = ever_set or flag
            if dirty and res["first_mod"] is None:
                res["first_mod"] = i
                res["first_mod_block"] = min(dirty)
            if dirty and flag:
                res["flagged_prefixes"] += 1
            if dirty and not flag and res["violation"] is None:
                res["violation"] = {
                    "phase": "flag-cleared-before-final-superblock-rewrite" if ever_set
                    else "before-flag-set", "record": i, "block": min(dirty),
                    "s_state": struct.unpack_from("<H", sb, 58)[0]}
    finally:
        ov.close()
    fm, ff = res["first_mod"], res["first_flag"]
    if fm is not None and not pre_flag:
        if ff is None or ff > fm:
            res["strong"] = "flag-write-missing-or-late"
        elif not any(ff < s < fm for s in syncs):
            res["strong"] = "no-fsync-between-flag-write-and-first-modification"
        else:
            res["strong"] = "ok"
    return res


def excerpt(recs, around, n=8):
    lo = max(0, around - n)
    return "\n".join(iotrace.describe(recs[i], i) for i in range(lo, min(len(recs), around + 4)))


# ------------------------------------------------------------------ preparation of base images

def punch(b, env, img, tmp):
    """Remove most non-directory objects with low inode numbers (debugfs rm)."""
    with I.Image(img) as im:
        dig = T.tree_digest(im)
        ph = phys_map(im)
    inos = sorted(v[0] for v in ph.values())
    cutoff = inos[int(len(inos) * .7)]
    victims = []
    for p, (ino, _) in sorted(ph.items()):
        d = dig.get(p)
        if not d or d["ino_type"] == oct(I.S_IFDIR) or d["nlink"] != 1 or ino > cutoff or ino < 12:
            continue
        if not re.match(rb"^[\w.,+=@/~-]+$", p):
            continue
        if hashlib.sha256(p).digest()[0] < 205:
            victims.append(p.decode())
    sfile = os.path.join(tmp, "punch.script")
    with open(sfile, "w") as f:
        f.write("".join("rm %s\n" % v for v in victims))
    r = run.run([b.tool("debugfs"), "-w", "-f", sfile, img], env=env, timeout=300)
    if r.rc != 0:
        raise zoo.ZooError("punch failed: " + r.etext[-300:])
    return len(victims)


def linkdir(b, env, img, tmp, nlinks=44):
    """A multi-block directory with a high inode number whose entries all point at one file with a
    low inode number: when a shrink renumbers the directory, no entry of its later blocks changes,
    yet (metadata_csum) every block's checksum is keyed on the directory's inode number."""
    with I.Image(img) as im:
        dig = T.tree_digest(im)
        ph = phys_map(im)
    ok = re.compile(rb"^[\w.,+=@/~-]+$")
    dirs = sorted(((ph[p][0], p) for p, d in dig.items() if d["ino_type"] == oct(I.S_IFDIR) and p in ph
                   and ok.match(p) and p != b"/"), reverse=True)
    files = sorted((ph[p][0], p) for p, d in dig.items() if d["ino_type"] == oct(I.S_IFREG) and p in ph
                   and ok.match(p) and d["nlink"] == 1 and ph[p][0] >= 12)
    if not dirs or not files:
        return 0
    parent = dirs[0][1].decode()
    target = files[0][1].decode()
    hl = parent.rstrip("/") + "/hl"
    lines = ["mkdir %s" % hl]
    # debugfs ln does not grow a directory by itself
    lines += ["expand_dir %s" % hl] * (nlinks * 192 // 900 + 2)
    for k in range(nlinks):
        lines.append("ln %s %s/%s" % (target, hl, ("L%03d" % k) + "x" * 180))
    lines.append("sif %s links_count %d" % (target, nlinks + 1))
    sfile = os.path.join(tmp, "linkdir.script")
    with open(sfile, "w") as f:
        f.write("\n".join(lines) + "\n")
    r = run.run([b.tool("debugfs"), "-w", "-f", sfile, img], env=env, timeout=300)
    if r.rc != 0:
        raise zoo.ZooError("linkdir failed: " + r.etext[-300:])
    return nlinks


def build_packed(b, env, img, tmp, P, kb):
    """see the comment at OWN_SPECS; free counts are read with the independent reader"""
    keep, bpg = P["keep"], P["bpg"]
    with open(img, "wb") as f:
        f.truncate(kb * 1024)
    r = run.run([b.tool("mke2fs"), "-q", "-F", "-t", "ext4", "-m", "0", "-O", P["opts"], "-E",
                 "lazy_itable_init=0,hash_seed=" + zoo.HASH_SEED, "-U", zoo.UUID, "-b", "1024", "-g", str(bpg),
                 "-N", "2048", "-I", "256", img, str(kb)], env=env, timeout=300)
    if r.rc != 0:
        raise zoo.ZooError("mke2fs (packed) failed: " + r.etext[-300:])

    def kept_free():
        with I.Image(img) as im:
            g = im.group_descs()[:keep]
            return sum(x.free_blocks for x in g), sum(x.free_inodes for x in g)

    def dbg(lines):
        r = run.run([b.tool("debugfs"), "-w", "-f", "-", img], env=env, timeout=600,
                    stdin=("\n".join(lines) + "\n").encode())
        if r.rc != 0:
            raise zoo.ZooError("debugfs (packed) failed: " + r.etext[-300:])

    def host(name, nblk, tag):
        p = os.path.join(tmp, name)
        with open(p, "wb") as f:
            for k in range(nblk):
                if P.get("sparse_data"):
                    # mostly zero bytes (no block entirely zero): data that lands on an inode table
                    # by mistake then reads as unused inodes, not as garbage that aborts the run
                    blk = bytearray(1024)
                    for o in range(0, 1024, 16):
                        blk[o] = 1 + (k * 7 + o // 16 + tag) % 250
                    f.write(bytes(blk))
                else:
                    f.write(bytes(((k * 7 + o + tag) % 250) + 1 for o in range(1024)))
        return p
    spare = 10
    fb, fi = kept_free()
    dbg(["mkdir /e", "cd /e"] + ["mknod p%d p" % i for i in range(fi - 1)] + ["rm p%d" % i for i in range(spare)])
    fb, fi = kept_free()
    if fi != spare:
        raise zoo.ZooError("packed: expected %d spare inodes, have %d" % (spare, fi))
    dbg(["write %s big" % host("big", fb - 12, 1)])
    n = 0
    while True:
        fb, fi = kept_free()
        if fb <= 0:
            break
        if n >= spare - 1:
            raise zoo.ZooError("packed: ran out of spare inodes while filling (%d blocks left)" % fb)
        dbg(["write %s fill%d" % (host("fill%d" % n, min(fb, 4), 2 + n), n)])
        n += 1
    fb, fi = kept_free()
    dbg(["cd /e"] + ["mknod q%d p" % i for i in range(fi)])
    fb, fi = kept_free()
    if fb or fi:
        raise zoo.ZooError("packed: kept groups still have %d blocks / %d inodes free" % (fb, fi))
    dbg(["write %s v%d" % (host("v%d" % i, 4, 40 + i), i) for i in range(3)])
    dbg(["cd /e"] + ["rm p%d" % i for i in range(100, 104)])


def w_prep(arg):
    root, name, wdir = arg
    b = build.Build(root, "plain")
    env = run.base_env(b)
    spec = spec_of(name)
    bases = os.path.join(wdir, "bases")
    tmp = os.path.join(wdir, "prep-" + name)
    os.makedirs(bases, exist_ok=True)
    os.makedirs(tmp, exist_ok=True)
    img = os.path.join(bases, name + ".img")
    info = {"name": name, "error": None, "settled": False}
    try:
        if spec.get("packed"):
            build_packed(b, env, img, tmp, spec["packed"], spec["kb"])
        else:
            zoo.build_image(b, spec, img, tmp)
        if spec.get("punch"):
            info["punched"] = punch(b, env, img, tmp)
            info["linkdir"] = linkdir(b, env, img, tmp)
        r = run.run([b.tool("e2fsck"), "-fn", img], env=env, timeout=300)
        py = fsckpair.pycheck(img)
        if r.rc != 0 or py[0]:
            info["settled"] = True
            info["settle_reason"] = "e2fsck -fn rc=%s pyext4=%s" % (r.rc, py[0])
            run.run([b.tool("e2fsck"), "-fy", img], env=env, timeout=300)
        # resize2fs wants a freshly checked filesystem
        r = run.run([b.tool("e2fsck"), "-fy", img], env=env, timeout=300)
        py = fsckpair.pycheck(img)
        if r.rc != 0 or py[0]:
            info["error"] = "base image not consistent after e2fsck -fy: rc=%s pyext4=%s %s" % (
                r.rc, py, r.text[-300:])
            return info
        r = run.run([b.tool("resize2fs"), "-P", img], env=env, timeout=300)
        m = re.search(r"Estimated minimum size of the filesystem: (\d+)", r.text)
        if r.rc != 0 or not m:
            info["error"] = "resize2fs -P failed rc=%s: %s" % (r.rc, (r.text + r.etext)[-300:])
            return info
        info["min"] = int(m.group(1))
        geo, bk, dig, ph = observe(img)
        info.update(geo)
        info["used_frac"] = round(1.0 - geo["free"] / float(geo["blocks"]), 3)
        info["objects"] = len(dig)
        with open(os.path.join(bases, name + ".pre.pkl"), "wb") as f:
            pickle.dump({"geo": geo, "backup": bk, "digest": dig, "phys": ph}, f)
        info["len"] = os.path.getsize(img)
    except Exception as e:
        import traceback
        info["error"] = "%s: %s" % (e, traceback.format_exc()[-500:])
    finally:
        shutil.rmtree(tmp, ignore_errors=True)
    return info


# ------------------------------------------------------------------ case generation

def units(rng, blocks, bs):
    x = rng.random()
    if x < .12:
        return "%dK" % (blocks * bs // 1024)
    if x < .17:
        return "%ds" % (blocks * bs // 512)
    return str(blocks)


def candidates(info, rng):
    cur, bpg, fdb, mn, ratio = info["blocks"], info["bpg"], info["first_data"], info["min"], info["ratio"]
    feats = info["features"]
    hi = cur * 4
    lo = max(mn, cur // 2)
    need_f = "bigalloc" in feats
    stable = "stable_inodes" in feats
    out = {k: [] for k in ("min", "boundary", "random", "convert", "refuse", "same", "chain", "gdtgrow",
                           "force")}

    def case(kind, size=None, flags=(), note=""):
        fl = (["-f"] if need_f and kind != "refuse" else []) + list(flags)
        return {"spec": info["name"], "kind": kind, "size": size, "flags": fl, "note": note}

    if not stable or mn >= cur:
        out["min"].append(case("min", None, ["-M"], "-M"))
    for d, nm in ((0, "P"), (1, "P+1"), (bpg - 1, "P+bpg-1")):
        t = mn + d
        if t != cur and not (stable and t < cur):
            out["min"].append(case("min", str(t), note=nm))
    steps = sorted(set([-1, 0, 1] + ([-ratio, ratio] if ratio > 1 else [])))
    g = 1
    while fdb + g * bpg <= hi + 1:
        for d in steps:
            t = fdb + g * bpg + d
            if lo <= t <= hi and t != cur and not (stable and t < cur):
                out["boundary"].append(case("boundary", units(rng, t, info["bs"]), note="g%d%+d" % (g, d)))
        g += 1
    for _ in range(40):
        x = rng.random()
        if x < .15:
            t = rng.randint(mn, max(mn, lo))
        elif x < .4:
            t = rng.randint(lo, hi)
        elif x < .7:
            t = rng.randint(lo, max(lo, cur))
        elif x < .85:
            t = cur + rng.randint(-min(cur - lo, 40), 40)
        else:
            t = int(cur * 2 ** rng.uniform(-1, 2))
        t = min(max(t, mn), hi)
        if t != cur and not (stable and t < cur):
            out["random"].append(case("random", units(rng, t, info["bs"]), note="rnd"))
    if "64bit" in feats:
        out["convert"].append(case("convert", None, ["-s"], "to32"))
        out["same"].append(case("same", None, ["-b"], "already64"))
    elif "extent" in feats:
        out["convert"].append(case("convert", None, ["-b"], "to64"))
        out["same"].append(case("same", None, ["-s"], "already32"))
    else:
        out["refuse"].append(case("refuse", None, ["-b"], "to64-without-extents"))
    out["same"].append(case("same", str(cur), note="same-size"))
    if "resize_inode" not in feats and "meta_bg" not in feats:
        # no reserved descriptor blocks: growing the descriptor table displaces bitmaps / inode tables
        for _ in range(12):
            out["gdtgrow"].append(case("gdtgrow", str(rng.randint(2 * cur, hi)), note="gdtgrow"))
    conv = ["-s"] if "64bit" in feats else (["-b"] if "extent" in feats else None)
    for _ in range(12):
        x = rng.random()
        if x < .45 and not stable and mn < cur - 8:
            t = rng.randint(mn, cur - 1)
            c = case("chain", str(t), note="shrink")
        elif x < .8 or conv is None:
            t = rng.randint(cur + 1, hi)
            c = case("chain", str(t), note="grow")
        else:
            t = cur
            c = case("chain", None, conv, note="to32" if conv == ["-s"] else "to64")
        y = rng.random()
        if stable or y < .3:
            th = {"size": str(max(t, cur) * 2), "flags": [], "note": "double"}
        elif y < .6:
            th = {"size": str(cur) if t != cur else str(cur + cur // 2), "flags": [], "note": "back"}
        elif y < .8:
            th = {"size": None, "flags": ["-M"], "note": "M"}
        else:
            th = {"size": str(rng.randint(max(mn, min(t, cur) // 2), hi)), "flags": [], "note": "rnd"}
        if need_f:
            th["flags"] = ["-f"] + th["flags"]
        c["then"] = th
        c["note"] += ">" + th["note"]
        out["chain"].append(c)
    if not need_f and mn > fdb + 64:
        for _ in range(3):
            t = mn - rng.randint(1, max(1, min(mn // 4, mn - fdb - 32)))
            if t < cur:
                out["refuse"].append(case("refuse", str(t), note="below-minimum"))
    if not stable and mn > fdb + 64 and mn <= cur:
        # -f overrides the minimum-size estimate: the run may succeed (then everything is judged as
        # usual - the allocator works in its tightest mode) or fail, but never quietly lose anything
        for _ in range(4):
            t = mn - rng.randint(1, max(1, min(mn // 6, mn - fdb - 32)))
            if t < cur:
                out["force"].append(case("force", str(t), ["-f"] if not need_f else [], note="forced-below-P"))
    pk = spec_of(info["name"]).get("packed")
    if pk:
        for d in (1, 0, 2, pk["bpg"] + 1):
            out["force"].append(case("force", str(pk["keep"] * pk["bpg"] + d), ["-f"], note="packed-to-%d+%d" % (pk["keep"], d)))
    if stable and cur > mn + 8:
        out["refuse"].append(case("refuse", str(rng.randint(mn, cur - 1)), note="stable_inodes-shrink"))
    if need_f:
        out["refuse"].append(case("refuse", str(cur + bpg), note="bigalloc-without-f"))
    return out


QUOTA = [("boundary", .25), ("random", .16), ("min", .18), ("convert", .10), ("chain", .08),
         ("refuse", .08), ("gdtgrow", .05), ("same", .04), ("force", .06)]

def req_blocks(size, bs):
    if size is None:
        return None
    if size.endswith("K"):
        return int(size[:-1]) * 1024 // bs
    if size.endswith("s"):
        return int(size[:-1]) * 512 // bs
    return int(size)


def direction(c, info):
    rb = req_blocks(c["size"], info["bs"])
    if rb is None:
        return None
    return "grow" if rb >= info["blocks"] else "shrink"


def plan(seed, infos, total):
    rng = run.rng_for(seed, "C08-plan")
    names = sorted(infos)
    cands = {}
    for n in names:
        cands[n] = candidates(infos[n], run.rng_for(seed, "C08-cand", n))
        for k in cands[n]:
            rng.shuffle(cands[n][k])
    cases = []
    # the engineered "packed" images exist for their forced shrinks: always run them
    for n in names:
        if spec_of(n).get("packed"):
            cases += [c for c in cands[n]["force"] if c["note"].startswith("packed")]
            cands[n]["force"] = [c for c in cands[n]["force"] if not c["note"].startswith("packed")]
    for kind, frac in QUOTA:
        want = max(1, int(round(total * frac)))
        order = names[:]
        rng.shuffle(order)
        got = 0
        while got < want:
            progressed = False
            for n in order:
                if got >= want:
                    break
                if cands[n][kind]:
                    cases.append(cands[n][kind].pop())
                    got += 1
                    progressed = True
            if not progressed:
                break
    # fill up / trim to the budget with boundary+random cases
    order = names[:]
    while len(cases) < total:
        rng.shuffle(order)
        progressed = False
        for n in order:
            for kind in ("boundary", "random"):
                if cands[n][kind] and len(cases) < total:
                    cases.append(cands[n][kind].pop())
                    progressed = True
        if not progressed:
            break
    cases = cases[:total]
    for i, c in enumerate(cases):
        c["id"] = i
        c["traced"] = False
        c["extend"] = "harness"
    # a fraction of the untraced grows let resize2fs extend the image file itself
    for c in cases:
        if direction(c, infos[c["spec"]]) == "grow" and rng.random() < .25:
            c["extend"] = "tool"
    return cases


TAG_WEIGHT = {"itmove": 6, "renum": 5, "filemove": 4, "g+": 2, "g-": 2, "conv": 3, "chain": 3,
              "refused": 1, "noop": 1}


def select_traced(results, ntraced):
    """Choose the cases to repeat under the tracer by what the untraced run was observed to do
    (resize2fs is deterministic): greedy weighted cover of mechanisms (inode tables moved,
    inodes renumbered, file blocks moved, groups added / removed, conversion, chains),
    operations, feature classes and specs; a tag's weight decays each time it is covered."""
    pool = []
    for r in results:
        if r.get("harness") or r.get("inconclusive") or not r.get("steps"):
            continue
        tags = set(["spec:" + r["case"]["spec"], "fc:" + r["fclass"]])
        if len(r["steps"]) > 1:
            tags.add("chain")
        for sr in r["steps"]:
            tags.add("op:" + sr["op"])
            if sr["outcome"] in ("refused", "noop"):
                tags.add(sr["outcome"])
            d = sr.get("did") or {}
            for k, t in (("itables_moved", "itmove"), ("renumbered", "renum"), ("moved_files", "filemove"),
                         ("to64", "conv")):
                if d.get(k):
                    tags.add(t)
            if d.get("gdelta", 0) > 0:
                tags.add("g+")
            if d.get("gdelta", 0) < 0:
                tags.add("g-")
        pool.append((r["case"], tags))
    weight = {}
    chosen = []
    while pool and len(chosen) < ntraced:
        best = None
        for i, (c, tags) in enumerate(pool):
            sc = sum(weight.setdefault(t, float(TAG_WEIGHT.get(t, 2 if t[:3] in ("op:", "fc:") else 1)))
                     for t in tags)
            if best is None or sc > best[0]:
                best = (sc, i)
        c, tags = pool.pop(best[1])
        for t in tags:
            weight[t] *= .85 if t in TAG_WEIGHT else .5
        chosen.append(c)
    return chosen


# ------------------------------------------------------------------ one case

def w_case(arg):
    root, wdir, case, info, so = arg
    try:
        return run_case(root, wdir, case, info, so)
    except Exception as e:
        import traceback
        return {"id": case.get("id"), "case": case, "harness": "%s: %s" % (e, traceback.format_exc()[-700:]),
                "viol": [], "steps": []}


def run_case(root, wdir, case, info, so):
    """A case is one resize2fs run, or (kind 'chain') two runs in sequence, each judged in
    full; the second starts from the result of the first."""
    b = build.Build(root, "plain")
    env = run.base_env(b)
    name = case["spec"]
    cdir = os.path.join(wdir, "case%d" % case["id"])
    os.makedirs(cdir, exist_ok=True)
    res = {"id": case["id"], "case": case, "viol": [], "inconclusive": None, "harness": None,
           "fclass": fclass(info["features"]), "files": {}, "steps": []}
    try:
        with open(os.path.join(wdir, "bases", name + ".pre.pkl"), "rb") as f:
            pre = pickle.load(f)
        st = {"base": os.path.join(wdir, "bases", name + ".img"), "pre": pre, "min": info["min"]}
        steps = [{"size": case["size"], "flags": case["flags"], "kind": case["kind"]}]
        if case.get("then"):
            steps.append(dict(case["then"], kind="chain2"))
        for si, step in enumerate(steps):
            D = os.path.join(cdir, "d%d.img" % si)
            sr = resize_once(b, env, so, cdir, D, name, step, st, case, si)
            res["steps"].append(sr)
            for k in ("inconclusive", "harness"):
                if sr.get(k):
                    res[k] = sr[k]
            res["viol"] += sr.pop("viol")
            res["files"].update(sr.pop("files"))
            nxt = sr.pop("next", None)
            if res["inconclusive"] or res["harness"] or res["viol"] or nxt is None:
                break
            st = nxt
        return res
    finally:
        shutil.rmtree(cdir, ignore_errors=True)


def resize_once(b, env, so, cdir, D, name, step, st, case, si):
    pre = st["pre"]
    g1 = pre["geo"]
    bs, cur, bpg, ratio = g1["bs"], g1["blocks"], g1["bpg"], g1["ratio"]
    base = st["base"]
    fc = fclass(g1["features"])
    rb = req_blocks(step["size"], bs)
    kind = step["kind"]
    if "-M" in step["flags"] or kind == "min":
        op = "min"
    elif "-b" in step["flags"]:
        op = "to64"
    elif "-s" in step["flags"]:
        op = "to32"
    else:
        op = "grow" if rb >= cur else "shrink"
    sr = {"op": op, "kind": kind, "viol": [], "files": {}, "outcome": None, "nontrivial": None,
          "step": si, "fclass": fc}
    traced = case["traced"]
    want = max(cur, rb or 0, (st["min"] + bpg) if (op == "min" and st["min"]) else 0) * bs
    argv = [b.tool("resize2fs")] + step["flags"] + [D] + ([step["size"]] if step["size"] else [])
    cmd = "%sresize2fs %s" % ("(step 2 of a chain, after %s) " % case["note"] if si else "",
                              " ".join(step["flags"] + ["IMG(%s)" % name] + ([step["size"]] if step["size"] else [])))
    e = env
    pre_copy = trace = None
    if traced:
        pre_copy = os.path.join(cdir, "pre%d.img" % si)
        trace = os.path.join(cdir, "trace%d.bin" % si)
        e = dict(env)
        e.update(iotrace.env_for(so, trace, [D]))
    for attempt in (0, 1):
        run.copy_sparse(base, D)
        if case.get("extend") != "tool" and os.path.getsize(D) < want:
            os.truncate(D, want)
        if trace:
            run.copy_sparse(D, pre_copy)
            if os.path.exists(trace):
                os.unlink(trace)
        r = run.run(argv, env=e, timeout=300 * (attempt + 1))
        if not r.timed_out:
            break
    if r.timed_out:
        sr["inconclusive"] = "resize2fs timed out twice: %s" % cmd
        return sr
    out = r.text + r.etext
    sr["rc"], sr["sig"] = r.rc, r.sig
    sr["msg"] = " | ".join(l for l in out.replace(D, "IMG").splitlines() if l.strip()
                           and not l.startswith("resize2fs 1."))[-300:]
    started = ("Resizing the filesystem on" in out) or ("Converting the filesystem" in out)
    m_now = re.search(r"is now (\d+) \((\d+)k\) blocks long", out)

    def viol(key, what):
        sr["viol"].append((key + " " + fc, what))

    recs = None
    if traced:
        recs = iotrace.parse(trace)
        why = []
        if not iotrace.selfcheck(pre_copy, recs, D, why=why):
            sr["harness"] = "iotrace self-check failed (trace incomplete): %s; %s" % (why, cmd)
            return sr
        sr["trace"] = {"records": len(recs)}

    if r.sig:
        viol("C08 %s killed-by-signal %d" % (op, r.sig), "%s: %s" % (cmd, sr["msg"]))
        sr["outcome"] = "signal"
        return sr

    if r.rc != 0:
        same = fs_bytes_identical(base, D, cur * bs)
        if recs is not None:
            sr["trace"]["writes"] = sum(1 for x in recs if iotrace.is_modifying(x))
        if not started:
            sr["outcome"] = "refused"
            sr["refusal_expected"] = kind == "refuse"
            if not same:
                try:
                    dig2 = observe(D, False)[2]
                    extra = "tree digest %s; " % ("unchanged" if dig2 == pre["digest"] else "CHANGED")
                except Exception as ex:
                    extra = "unreadable now (%s); " % ex
                viol("C08 refused-but-modified", "%s exit %s without announcing the resize but the "
                     "filesystem bytes changed; %s%s" % (cmd, r.rc, extra, sr["msg"]))
            return sr
        sr["outcome"] = "aborted"
        if not same:
            with open(D, "rb") as f:
                f.seek(1024 + 58)
                state = struct.unpack("<H", f.read(2))[0]
            sr["abort_state"] = state
            if not state & EXT2_ERROR_FS:
                viol("C08 %s aborted-without-error-flag" % op, "%s failed (exit %s) after modifying the "
                     "filesystem and s_state=%#x lacks EXT2_ERROR_FS; %s" % (cmd, r.rc, state, sr["msg"]))
        return sr

    # ---- exit 0
    sr["outcome"] = "ok" if m_now else "noop"
    rf = run.run([b.tool("e2fsck"), "-fn", D], env=env, timeout=300)
    if rf.timed_out:
        sr["inconclusive"] = "e2fsck -fn timed out"
        return sr
    if rf.rc != 0:
        viol("C08 %s e2fsck-fn %s" % (op, first_problem(rf.text + rf.etext, D)),
             "%s exit 0, then e2fsck -fn exit %s: %s" % (cmd, rf.rc,
                                                       (rf.text + rf.etext).replace(D, "IMG")[-500:]))
    pyk, pyd = fsckpair.pycheck(D)
    if "ORACLE-CRASH" in pyk:
        sr["harness"] = "pyext4 crashed on the result of %s: %s" % (cmd, pyd)
        return sr
    if pyk:
        viol("C08 %s pyext4 %s" % (op, ",".join(pyk[:3])),
             "%s exit 0 (e2fsck -fn exit %s) but the independent checker finds %s" % (cmd, rf.rc, pyd))
    try:
        geo2, bk2, dig2, ph2 = observe(D)
    except Exception as ex:
        viol("C08 %s tree-differs unreadable" % op, "independent reader fails on the result of %s: %r"
             % (cmd, ex))
        return sr
    sr["post"] = {"blocks": geo2["blocks"], "groups": geo2["groups"]}
    # size
    if m_now:
        rep_n = int(m_now.group(1))
        sr["reported"] = rep_n
        bad = None
        if geo2["blocks"] != rep_n:
            bad = "superblock says %d blocks, resize2fs reported %d" % (geo2["blocks"], rep_n)
        elif op in ("to64", "to32") and rep_n != cur:
            bad = "conversion changed the size %d -> %d" % (cur, rep_n)
        elif rb is not None and not (rep_n <= rb and rb - rep_n < bpg + ratio):
            bad = "requested %d blocks, reported %d (blocks_per_group %d)" % (rb, rep_n, bpg)
        if bad:
            viol("C08 %s size-mismatch" % op, "%s: %s" % (cmd, bad))
        sr["exact_request"] = rb is not None and rep_n == rb
        sr["trimmed"] = rb is not None and rep_n != rb
    elif geo2["blocks"] != cur:
        viol("C08 %s size-mismatch" % op, "%s reported nothing to do but the size went %d -> %d" % (
            cmd, cur, geo2["blocks"]))
    if os.path.getsize(D) < geo2["blocks"] * bs:
        viol("C08 %s image-file-shorter-than-filesystem" % op, "%s: file %d bytes < %d blocks of %d" % (
            cmd, os.path.getsize(D), geo2["blocks"], bs))
    # tree
    if dig2 != pre["digest"]:
        attrs = digest_diff(pre["digest"], dig2)
        viol("C08 %s tree-differs %s" % (op, attrs[0] if attrs else "?"),
             "%s: attributes %s; %s" % (cmd, attrs, T.diff_digests(pre["digest"], dig2)[:4]))
    # what the run did (for evidence / non-triviality), from the independent reader
    ph1 = pre["phys"]
    moved = sum(1 for p, v in ph1.items() if p in ph2 and ph2[p][1] != v[1])
    renum = sum(1 for p, v in ph1.items() if p in ph2 and ph2[p][0] != v[0])
    it1, it2 = g1["itables"], geo2["itables"]
    itm = sum(1 for g in range(min(len(it1), len(it2))) if it1[g] != it2[g])
    gdelta = geo2["groups"] - g1["groups"]
    sr["did"] = {"moved_files": moved, "renumbered": renum, "itables_moved": itm, "gdelta": gdelta,
                 "to64": ("64bit" in geo2["features"]) != ("64bit" in g1["features"])}
    if moved or itm or gdelta or sr["did"]["to64"]:
        sr["nontrivial"] = "%s|%s%s|g%s|mv%d|it%d|rn%d" % (
            name, "2:" if si else "", op, "+" if gdelta > 0 else "-" if gdelta < 0 else "0", bool(moved),
            bool(itm), bool(renum))
    # crash-point clause
    if recs is not None:
        fcr = flag_check(pre_copy, recs, bs, pre["backup"] | bk2)
        sr["trace"].update({k: fcr[k] for k in ("writes", "syncs", "prefixes", "strong", "first_flag",
                                                "first_mod", "final_sb_rewrite_at", "flagged_prefixes",
                                                "max_dirty_blocks")})
        v = fcr["violation"]
        if v:
            viol("C08 flag-missing-at-prefix %s" % v["phase"],
                 "%s: after trace record %d block %d differs from the pre-image while the on-disk "
                 "primary superblock has s_state=%#x (no EXT2_ERROR_FS); final superblock rewrite "
                 "starts at record %d\n%s" % (cmd, v["record"], v["block"], v["s_state"],
                                              fcr["final_sb_rewrite_at"], excerpt(recs, v["record"])))
            sr["files"]["trace-excerpt-step%d.txt" % si] = excerpt(recs, v["record"], 30).encode()
        elif fcr["strong"] not in (None, "ok"):
            at = fcr["first_mod"]
            viol("C08 flag-not-durable-before-first-modification",
                 "%s: %s (flag write at record %s, first real modification at record %s, block %s)\n%s"
                 % (cmd, fcr["strong"], fcr["first_flag"], at, fcr.get("first_mod_block"),
                    excerpt(recs, at)))
            sr["files"]["trace-excerpt-step%d.txt" % si] = excerpt(recs, at, 30).encode()
    # state for a following step: this result is the next pre-image
    sr["next"] = {"base": D, "min": None,
                  "pre": {"geo": geo2, "backup": bk2, "digest": pre["digest"], "phys": ph2}}
    return sr


# ------------------------------------------------------------------ main

def account_trace(rep, c, sr, wr, px):
    t = sr.get("trace")
    if not t:
        return
    rep.count("traced_runs")
    rep.count("traced_op_" + sr["op"])
    rep.add("traced_specs", c["spec"])
    d = sr.get("did") or {}
    for k in ("itables_moved", "renumbered", "moved_files"):
        if d.get(k):
            rep.count("traced_runs_with_" + k)
    if "prefixes" not in t:
        return
    rep.count("traced_runs_flag_rule_evaluated")
    rep.count("trace_prefixes_examined", t["prefixes"])
    rep.count("trace_prefixes_with_real_modification_and_flag", t["flagged_prefixes"])
    wr.append(t["writes"])
    px.append(t["prefixes"])
    rep.add("strong_form", str(t["strong"]))
    if len(rep.samples) < 5 and t["prefixes"] > 20 and (d.get("moved_files") or d.get("itables_moved")):
        rep.sample({"spec": c["spec"], "args": c["flags"] + [c["size"]], "then": c.get("then"),
                    "step": sr["step"], "op": sr["op"], "did": d, "trace": t,
                    "reported": sr.get("reported")})


def main(tier, seed, replay=None, scale=1.0):
    rep = report.Report(
        "C08", tier, seed, "exploration",
        rule="one case = one resize2fs run (kind 'chain': two runs in sequence, both judged) on a copy of "
             "a tree-built, freshly checked image; a run is non-trivial when it exits 0 and, judged by "
             "the independent reader, changed the group count, moved an inode table, changed the "
             "physical placement of at least one file's blocks or converted 32<->64 bit; distinct by "
             "(spec, first/second step, operation, sign of the group-count change, files moved?, inode "
             "tables moved?, inodes renumbered?).  Traced runs additionally have every write prefix "
             "examined for the EXT2_ERROR_FS rule")
    b = build.get_build("plain")
    total, ntraced = BUDGET[tier]
    total = max(12, int(total * scale))
    ntraced = max(4, int(ntraced * scale))
    rcase = None
    if replay:
        rcase = json.load(open(os.path.join(replay, "case.json")))["case"]["case"]
        names = [rcase["spec"]]
    else:
        names = QUICK_SPECS if tier == "quick" else THOROUGH_SPECS
    with run.Work("C08") as w:
        try:
            so = iotrace.compile_shim(w.dir)
        except iotrace.IOTraceError as e:
            rep.harness_error(str(e))
            return rep.finish()
        infos = {}
        for inf in run.pmap(w_prep, [(b.root, n, w.dir) for n in names]):
            if inf["error"]:
                rep.harness_error("base image %s: %s" % (inf["name"], inf["error"]))
                continue
            infos[inf["name"]] = inf
            if inf["settled"]:
                rep.count("base_images_settled_with_e2fsck_fy")
                rep.add("settled_images", "%s (%s)" % (inf["name"], inf["settle_reason"]))
            if inf["used_frac"] >= .6:
                rep.add("images_at_least_60pct_full", inf["name"])
        if not infos:
            return rep.finish()
        if rcase:
            rcase = dict(rcase)
            rcase["id"] = 0
            cases = [rcase]
        else:
            cases = plan(seed, infos, total)
        items = [(b.root, w.dir, c, infos[c["spec"]], so) for c in cases]
        items.sort(key=lambda it: -it[3]["len"])          # large images first (longest jobs)
        results = run.pmap(w_case, items)
        results.sort(key=lambda r: r["id"] if r.get("id") is not None else -1)
        if not rcase:
            # second phase: repeat ntraced of the cases under the tracer, chosen by what they did
            again = []
            for c in select_traced(results, ntraced):
                c2 = dict(c, traced=True, id=c["id"] + 1000000, extend="harness", repeat_of=c["id"])
                again.append((b.root, w.dir, c2, infos[c2["spec"]], so))
            results += run.pmap(w_case, again)
        wr = []
        px = []
        for r in results:
            c = r["case"]
            if r.get("harness"):
                rep.harness_error("case %s %s: %s" % (c.get("spec"), c.get("note"), r["harness"]))
                rep.case(None)
                continue
            if r.get("inconclusive"):
                rep.note_inconclusive(r["inconclusive"])
                rep.case(None)
                continue
            rerun = c.get("repeat_of") is not None
            if not rerun:
                rep.count("spec_" + c["spec"])
                rep.count("kind_" + c["kind"])
                rep.add("feature_classes", r["fclass"])
                if c.get("extend") == "tool":
                    rep.count("grow_with_tool_extending_the_file")
            for sr in r["steps"]:
                op = sr["op"]
                if rerun:
                    rep.count("traced_repeat_runs")
                    account_trace(rep, c, sr, wr, px)
                    continue
                rep.case(sr.get("nontrivial"))
                rep.count("resize2fs_runs")
                rep.count("op_" + op)
                rep.count("outcome_" + str(sr["outcome"]))
                if sr["step"]:
                    rep.count("second_steps_of_chains")
                if sr["outcome"] == "refused":
                    rep.count("refused")
                    rep.add("refusal_reasons", re.sub(r"\d+", "N", re.sub(r"\S*/resize2fs: ", "",
                                                                         sr.get("msg", "")))[-90:])
                    if not sr.get("refusal_expected"):
                        rep.count("refused_unplanned")
                if sr["outcome"] == "aborted":
                    rep.add("aborted_runs", "%s %s: %s" % (c["spec"], c["note"], sr.get("msg", "")[-120:]))
                d = sr.get("did")
                if d:
                    rep.add("group_count_deltas", d["gdelta"])
                    if d["moved_files"]:
                        rep.count("runs_that_moved_file_blocks")
                        rep.count("files_with_moved_blocks", d["moved_files"])
                    if d["itables_moved"]:
                        rep.count("runs_that_moved_inode_tables")
                    if d["renumbered"]:
                        rep.count("runs_that_renumbered_inodes")
                        rep.count("inodes_renumbered", d["renumbered"])
                    if d["to64"]:
                        rep.count("runs_that_changed_64bit")
                    if sr.get("exact_request"):
                        rep.count("size_exactly_as_requested")
                    elif sr.get("trimmed"):
                        rep.count("size_trimmed_by_tool")
                account_trace(rep, c, sr, wr, px)
            for key, what in r["viol"]:
                rep.violation(key, what, replay={"case": c}, files=dict(r.get("files") or {}))
        if wr:
            rep.extra["writes_per_trace"] = {"min": min(wr), "max": max(wr), "sum": sum(wr)}
            rep.extra["prefixes_per_trace"] = {"min": min(px), "max": max(px)}
        rep.extra["images"] = {n: {"blocks": i["blocks"], "bs": i["bs"], "groups": i["groups"],
                                   "min": i["min"], "used_frac": i["used_frac"], "objects": i["objects"],
                                   "class": fclass(i["features"]), "punched": i.get("punched")}
                               for n, i in sorted(infos.items())}
    rep.assumptions = [
        "deterministic environment of run.base_env (fixed fake time, RESIZE2FS_FORCE_LAZY_ITABLE_INIT=1)",
        "backup superblocks / backup descriptor blocks (pyext4 placement, pre- and post-geometry) are "
        "not 'modifications' for the flag rule; the primary descriptor blocks, reserved GDT blocks and "
        "everything else are",
        "the final rewrite of the primary superblock = the last run of consecutive writes into bytes "
        "1024..2047; prefixes inside that run are not judged",
        "a run that fails after announcing the resize is 'aborted' (must leave EXT2_ERROR_FS), not a refusal",
        "offline resize only; image files on tmpfs; sizes up to 4x of 4-64 MiB images",
        "base images whose mke2fs/debugfs output is not consistent are settled once with e2fsck -fy "
        "(listed in settled_images); all bases get a final e2fsck -fy (freshly checked)",
    ]
    return rep.finish(min_nontrivial=0 if replay else 2)
