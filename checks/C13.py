"""C13 - read-only invocations never modify the device.

For every (image state, read-only invocation) pair the state image is copied to a fresh file,
its SHA-256, size, data/hole map, inode identity and mtime are recorded (also for an external
journal device, an undo file or an e2image file where the invocation involves one), the tool
of the plain build is run, and the snapshot is taken again.  A stratified quarter of the pairs
(all of them in the thorough tier) additionally run under `strace -f -y`, and every successful
write-class system call is attributed to a file through the fd annotation of strace: this
witness does not depend on any code of the traced program, and it also sees writes that put
identical bytes back.

Image states are derived from the committed corpus with the plain build's tools (journal
needing recovery - internal, external, with revoke records, uncommitted tail, damaged log;
orphan list; orphan file with entries; MMP block in fsck/active state; stale quota usage;
error flags; destroyed primary superblock; seeded byte corruption of the first 64 KiB and of
used blocks; combinations).  The pristine corpus image of every base used is a state too and
serves as the baseline that decides which pairs are non-trivial.
"""
import json
import math
import os
import re
import shutil
import struct
import time

from vf import build, run, report, zoo, fswatch

BUDGET = {"quick": 30, "thorough": 600}      # image states (each runs every invocation)
STRACE_EVERY = {"quick": 4, "thorough": 1}   # pair is straced iff (state+inv+seed) % N == 0
BATCH = 64                                   # states materialised at a time
WATCHDOG = 120
# bases every run uses: MMP, quota, orphan file, many small groups (explicit -b), and two
# groups of standard geometry (e2fsck finds the backup superblock by itself)
REQUIRED_BASES = ["ext4_mmp", "ext4_quota", "ext4_orphanfile", "ext4_64groups", "ext4_1k_wide"]

KINDS = ["journal_commit", "orphan_list", "corrupt_head", "error_fs", "sb_destroyed",
         "corrupt_used", "journal_ext", "quota_stale", "orphan_file", "mmp_fsck",
         "journal_nocommit", "corrupt_head", "mmp_active", "journal_corrupt", "journal_revoke",
         "corrupt_used", "combo_journal_error", "combo_journal_orphan"]

KEYWORDS = ["journal", "recover", "orphan", "backup", "mmp", "checksum", "csum", "corrupt",
            "invalid", "illegal", "error", "warning", "inconsisten", "not clean", "skipping",
            "mismatch", "bad ", "superblock", "quota", "short read", "fix?", "clear?"]
KW_RE = re.compile("|".join(re.escape(k) for k in KEYWORDS), re.I)

RULE = ("pair = (image state, read-only invocation); a pair is non-trivial iff the tool ended "
        "with a non-zero exit status or a signal, or it printed (stdout or stderr) at least one "
        "line that contains one of the words %s (case-insensitive) and that the same invocation "
        "does not print for the pristine corpus image the state was derived from; distinct by "
        "(invocation, state kind, exit status, set of those words)" % "/".join(
            k.strip() for k in KEYWORDS))

# ---------------------------------------------------------------------------------------
# superblock (raw, independent of libext2fs)

COMPAT_HAS_JOURNAL, COMPAT_ORPHAN_FILE = 0x4, 0x1000
INCOMPAT_RECOVER, INCOMPAT_JOURNAL_DEV, INCOMPAT_MMP, INCOMPAT_CSUM_SEED = 0x4, 0x8, 0x100, 0x2000
RO_QUOTA, RO_METADATA_CSUM, RO_ORPHAN_PRESENT = 0x100, 0x400, 0x10000


def read_sb(path):
    with open(path, "rb") as f:
        f.seek(1024)
        sb = f.read(1024)
    if len(sb) < 1024:
        return None

    def u16(o):
        return struct.unpack_from("<H", sb, o)[0]

    def u32(o):
        return struct.unpack_from("<I", sb, o)[0]
    d = {"magic_ok": u16(56) == 0xEF53, "inodes": u32(0), "blocks": u32(4) | (u32(0x150) << 32),
         "first_data_block": u32(20), "bs": 1024 << (u32(24) & 31), "bpg": u32(32),
         "ipg": u32(40), "state": u16(58), "compat": u32(92), "incompat": u32(96),
         "ro_compat": u32(100), "uuid": sb[104:120], "journal_inum": u32(224),
         "last_orphan": u32(232), "mmp_block": struct.unpack_from("<Q", sb, 0x168)[0],
         "checksum_seed": u32(0x270), "orphan_file_inum": u32(0x280)}
    if not (d["incompat"] & 0x80):          # 64bit
        d["blocks"] = u32(4)
    d["ngroups"] = (math.ceil((d["blocks"] - d["first_data_block"]) / d["bpg"])
                    if d["bpg"] else 0)
    d["backup"] = d["first_data_block"] + d["bpg"]
    if d["incompat"] & INCOMPAT_CSUM_SEED:
        d["csum_seed"] = d["checksum_seed"]
    else:
        d["csum_seed"] = fswatch.crc32c(0xFFFFFFFF, d["uuid"])
    d["uuid"] = d["uuid"].hex()
    return d


# ---------------------------------------------------------------------------------------
# state construction (deterministic: everything random comes from the spec)

class StateError(Exception):
    pass


TOOLNAMES = ["e2fsck", "debugfs", "dumpe2fs", "tune2fs", "resize2fs", "e2image", "e2freefrag",
             "e2undo", "mke2fs"]


class Tools:
    """The plain build's binaries, copied into the run's work directory so that a concurrent
    rebuild of another tree (which prunes the shared build cache) cannot pull them away in
    the middle of a run."""

    def __init__(self, bindir):
        self.bindir = bindir

    def tool(self, name):
        return os.path.join(self.bindir, name)

    @classmethod
    def install(cls, b, bindir, env):
        for t in TOOLNAMES:
            shutil.copy2(b.tool(t), os.path.join(bindir, t))
        os.symlink("tune2fs", os.path.join(bindir, "e2label"))      # e2label is argv[0]-driven
        conf = os.path.join(bindir, "mke2fs.conf")
        shutil.copy(env["MKE2FS_CONFIG"], conf)
        env["MKE2FS_CONFIG"] = conf
        return cls(bindir)


def _dbg(b, env, img, cmds, sdir, write=True, timeout=WATCHDOG):
    script = os.path.join(sdir, "cmd-%s.txt" % os.path.basename(img))
    with open(script, "w") as f:
        f.write("\n".join(cmds) + "\n")
    argv = [b.tool("debugfs")] + (["-w"] if write else []) + ["-f", script, img]
    return run.run(argv, env=env, timeout=timeout)


def _regular_inodes(b, env, img, sdir):
    r = _dbg(b, env, img, ["ls -l /"], sdir, write=False)
    out = []
    for line in r.text.splitlines():
        p = line.split()
        if len(p) >= 3 and p[0].isdigit() and p[1].startswith("100"):
            out.append(int(p[0]))
    return sorted(set(out))


def _mutate(buf, off, rng, how=None):
    how = how or rng.choice(["flip", "zero", "rand", "ff", "zero-run"])
    if how == "flip":
        buf[off] ^= 1 << rng.randrange(8)
    elif how == "zero":
        buf[off] = 0
    elif how == "rand":
        buf[off] = rng.randrange(256)
    elif how == "ff":
        buf[off] = 0xFF
    else:
        n = min(rng.choice([4, 16, 64]), len(buf) - off)
        buf[off:off + n] = bytes(n)
    return how


def _journal(b, env, img, sdir, rng, sb, flavour, jdev=None):
    bs = sb["bs"]
    hi = min(sb["blocks"] - 1, 4000)
    lo = sb["first_data_block"] + 1

    def blist(n):
        return ",".join(str(x) for x in sorted(rng.sample(range(lo, hi), n)))

    def source(nblk):
        if rng.random() < 0.5:
            return "/dev/zero"
        p = os.path.join(sdir, "jsrc-%s-%d" % (os.path.basename(img), rng.randrange(1 << 30)))
        with open(p, "wb") as f:
            f.write(rng.randbytes(nblk * bs))
        return p
    jo = "jo"
    if rng.random() < 0.3:
        jo += " -c"
    if jdev:
        jo += " -f " + jdev
    n = rng.choice([1, 2, 3, 6])
    cmds = [jo, "jw -b %s %s" % (blist(n), source(n))]
    if flavour == "nocommit":
        m = rng.choice([1, 2, 4])
        cmds.append("jw -b %s -c %s" % (blist(m), source(m)))
    elif flavour == "revoke":
        a = blist(3)
        cmds = [jo, "jw -b %s %s" % (a, source(3)), "jw -r %s" % a.split(",")[0]]
        if rng.random() < 0.5:
            cmds.append("jw -b %s %s" % (blist(2), source(2)))
    elif rng.random() < 0.4:
        m = rng.choice([1, 5])
        cmds.append("jw -b %s %s" % (blist(m), source(m)))
    cmds.append("jc")
    r = _dbg(b, env, img, cmds, sdir)
    after = read_sb(img)
    if not after or not (after["incompat"] & INCOMPAT_RECOVER):
        raise StateError("needs_recovery not set after %r: %s" % (cmds, (r.text + r.etext)[-300:]))
    return cmds


def _attach_ext_journal(b, env, img, sdir, sb):
    jnl = img[:-4] + ".jnl"
    r = run.run([b.tool("tune2fs"), "-O", "^has_journal", img], env=env)
    if r.rc != 0:
        raise StateError("tune2fs -O ^has_journal: " + r.etext[-200:])
    with open(jnl, "wb") as f:
        f.truncate(2048 * sb["bs"])
    uuid = "11111111-2222-3333-4444-555555555555"
    r = run.run([b.tool("mke2fs"), "-q", "-F", "-O", "journal_dev", "-b", str(sb["bs"]),
                 "-U", uuid, jnl], env=env)
    if r.rc != 0:
        raise StateError("mke2fs journal_dev: " + r.etext[-200:])
    _dbg(b, env, img, ["feature has_journal", "ssv journal_dev 0x9999",
                       "ssv journal_uuid " + uuid], sdir)
    return jnl


def _orphan_list(b, env, img, sdir, rng):
    inos = _regular_inodes(b, env, img, sdir)
    if not inos:
        raise StateError("no regular file in /")
    chain = rng.sample(inos, min(len(inos), rng.choice([1, 2, 3])))
    cmds = []
    for i, ino in enumerate(chain):
        cmds.append("sif <%d> links_count 0" % ino)
        if i + 1 < len(chain):
            cmds.append("sif <%d> dtime %d" % (ino, chain[i + 1]))     # next orphan
    cmds.append("ssv last_orphan %d" % chain[0])
    _dbg(b, env, img, cmds, sdir)
    after = read_sb(img)
    if not after or after["last_orphan"] != chain[0]:
        raise StateError("last_orphan not set")
    return chain


def _orphan_file(b, env, img, sdir, rng, sb):
    _dbg(b, env, img, ["feature orphan_present"], sdir)
    after = read_sb(img)
    if not after or not (after["ro_compat"] & RO_ORPHAN_PRESENT):
        raise StateError("orphan_present not accepted")
    ino = sb["orphan_file_inum"]
    note = {"entries": 0}
    if rng.random() < 0.85:
        r = _dbg(b, env, img, ["bmap <%d> 0" % ino, "stat <%d>" % ino], sdir, write=False)
        m = re.search(r"^(\d+)\s*$", r.text, re.M)
        g = re.search(r"Generation:\s*(\d+)", r.text)
        inos = _regular_inodes(b, env, img, sdir)
        if m and g and inos:
            blk, gen, bs = int(m.group(1)), int(g.group(1)), sb["bs"]
            ents = rng.sample(inos, min(len(inos), rng.choice([1, 2, 5])))
            with open(img, "r+b") as f:
                f.seek(blk * bs)
                buf = bytearray(f.read(bs))
                for i, e in enumerate(ents):
                    struct.pack_into("<I", buf, 4 * i, e)
                valid = rng.random() < 0.7
                if valid:
                    crc = fswatch.crc32c(sb["csum_seed"], struct.pack("<I", ino))
                    crc = fswatch.crc32c(crc, struct.pack("<I", gen))
                    crc = fswatch.crc32c(crc, struct.pack("<Q", blk))
                    crc = fswatch.crc32c(crc, bytes(buf[:bs - 8]))
                    struct.pack_into("<I", buf, bs - 4, crc)
                f.seek(blk * bs)
                f.write(buf)
            note = {"entries": len(ents), "csum_valid": valid}
            if rng.random() < 0.5:
                _dbg(b, env, img, ["sif <%d> links_count 0" % e for e in ents], sdir)
    return note


def _mmp(img, rng, sb, flavour):
    if not sb["mmp_block"]:
        raise StateError("no MMP block")
    seq = 0xE24D4D50 if flavour == "fsck" else rng.randrange(1, 0xE24D4D4F)
    node = b"c13-other-node" if rng.random() < 0.7 else b""
    body = struct.pack("<IIQ64s32sHH", 0x004D4D50, seq, 1500000000, node, b"sdz9", 5, 0)
    body += bytes(904)
    crc = fswatch.crc32c(sb["csum_seed"], body) if (sb["ro_compat"] & RO_METADATA_CSUM) else 0
    if rng.random() < 0.15:
        crc ^= 0x10                                 # MMP block with a bad checksum
    with open(img, "r+b") as f:
        f.seek(sb["mmp_block"] * sb["bs"])
        f.write(body + struct.pack("<I", crc))
    return seq


def _error_fs(b, env, img, sdir, rng):
    st = rng.choice([2, 2, 0, 3])
    cmds = ["ssv state %d" % st]
    if rng.random() < 0.6:
        cmds += ["ssv error_count %d" % rng.randrange(1, 9), "ssv first_error_time 1400000000",
                 "ssv first_error_func ext4_c13", "ssv first_error_line 13",
                 "ssv last_error_time 1400000100", "ssv last_error_ino 12"]
    _dbg(b, env, img, cmds, sdir)
    after = read_sb(img)
    if not after or after["state"] != st:
        raise StateError("state not set")
    return cmds


def _corrupt_head(img, rng):
    n = rng.choice([1, 2, 4, 8, 16])
    done = []
    with open(img, "r+b") as f:
        buf = bytearray(f.read(65536))
        for _ in range(n):
            # half of the hits go to the superblock / group descriptor area
            off = rng.randrange(1024, 4096) if rng.random() < 0.5 else rng.randrange(len(buf))
            done.append((off, _mutate(buf, off, rng)))
        f.seek(0)
        f.write(buf)
    return done


def _corrupt_used(img, rng, gran=1024):
    used = []
    with open(img, "rb") as f:
        off = 0
        while True:
            chunk = f.read(1 << 20)
            if not chunk:
                break
            for i in range(0, len(chunk), gran):
                if chunk[i:i + gran].strip(b"\0"):
                    used.append(off + i)
            off += len(chunk)
    pick = rng.sample(used, min(len(used), rng.choice([1, 3, 8, 20])))
    done = []
    with open(img, "r+b") as f:
        for o in sorted(pick):
            f.seek(o)
            buf = bytearray(f.read(gran))
            for _ in range(rng.choice([1, 1, 4])):
                i = rng.randrange(len(buf))
                done.append((o + i, _mutate(buf, i, rng)))
            f.seek(o)
            f.write(buf)
    return done


def build_state(b, env, spec, corpus_img, sdir):
    """Materialise spec into sdir; returns dict(img, jnl, note)."""
    rng = run.rng_for(spec["seed"], "C13", "state", spec["idx"], spec["kind"], spec["base"])
    img = os.path.join(sdir, "s%d.img" % spec["idx"])
    run.copy_sparse(corpus_img, img)
    sb = read_sb(corpus_img)
    kind = spec["kind"]
    jnl = None
    note = None
    if kind == "pristine":
        pass
    elif kind in ("journal_commit", "journal_nocommit", "journal_revoke"):
        note = _journal(b, env, img, sdir, rng, sb, kind.split("_")[1])
    elif kind == "journal_ext":
        jnl = _attach_ext_journal(b, env, img, sdir, sb)
        note = _journal(b, env, img, sdir, rng, sb, "commit", jdev=jnl)
    elif kind == "journal_corrupt":
        before = os.path.join(sdir, "s%d.before" % spec["idx"])
        run.copy_sparse(img, before)
        note = _journal(b, env, img, sdir, rng, sb, "commit")
        changed = []
        with open(before, "rb") as f1, open(img, "rb") as f2:
            off = 0
            while True:
                x, y = f1.read(1024), f2.read(1024)
                if not y:
                    break
                if x != y and off >= 4096:
                    changed.append(off)
                off += 1024
        os.unlink(before)
        if not changed:
            raise StateError("journal write changed nothing beyond the superblock")
        hits = []
        with open(img, "r+b") as f:
            for o in rng.sample(changed, min(len(changed), rng.choice([1, 2]))):
                f.seek(o)
                buf = bytearray(f.read(1024))
                i = rng.randrange(0, 64) if rng.random() < 0.6 else rng.randrange(1024)
                hits.append((o + i, _mutate(buf, i, rng, rng.choice(["flip", "rand", "ff"]))))
                f.seek(o)
                f.write(buf)
        note = {"journal": note, "hits": hits}
    elif kind == "orphan_list":
        note = _orphan_list(b, env, img, sdir, rng)
    elif kind == "orphan_file":
        note = _orphan_file(b, env, img, sdir, rng, sb)
    elif kind in ("mmp_fsck", "mmp_active"):
        note = _mmp(img, rng, sb, kind.split("_")[1])
    elif kind == "quota_stale":
        src = os.path.join(sdir, "qsrc%d" % spec["idx"])
        with open(src, "wb") as f:
            f.write(rng.randbytes(rng.randrange(10000, 80000)))
        r = _dbg(b, env, img, ["write %s /c13-new-file" % src], sdir)
        if "Allocated inode" not in r.text:
            raise StateError("debugfs write failed: " + (r.text + r.etext)[-200:])
        note = r.text.strip().splitlines()[-1]
    elif kind == "error_fs":
        note = _error_fs(b, env, img, sdir, rng)
    elif kind == "sb_destroyed":
        with open(img, "r+b") as f:
            if rng.random() < 0.7:
                f.seek(1024)
                f.write(bytes(1024))
                note = "zeroed 1024..2047"
            else:
                f.seek(1024 + 56)
                f.write(b"\0\0")
                note = "magic cleared"
    elif kind == "corrupt_head":
        note = _corrupt_head(img, rng)
    elif kind == "corrupt_used":
        note = _corrupt_used(img, rng)
    elif kind == "combo_journal_error":
        note = [_error_fs(b, env, img, sdir, rng),
                _journal(b, env, img, sdir, rng, sb, "commit")]
    elif kind == "combo_journal_orphan":
        note = [_orphan_list(b, env, img, sdir, rng),
                _journal(b, env, img, sdir, rng, sb, "commit")]
    else:
        raise StateError("unknown kind " + kind)
    return {"img": img, "jnl": jnl, "note": note}


def _build_state_job(arg):
    root, env, spec, corpus_img, sdir = arg
    b = Tools(root)
    try:
        st = build_state(b, env, spec, corpus_img, sdir)
        st["ok"] = True
    except StateError as e:
        st = {"ok": False, "err": str(e)[:300]}
    except (OSError, ValueError) as e:
        st = {"ok": False, "err": "%s: %s" % (type(e).__name__, e)}
    st["spec"] = spec
    if st["ok"]:
        st["sha"] = run.sha256_file(st["img"])[:16]
    return st


def eligible(kind, info):
    if kind.startswith("journal") or kind.startswith("combo_journal"):
        return bool(info["compat"] & COMPAT_HAS_JOURNAL) and info["journal_inum"] != 0
    if kind == "orphan_file":
        return bool(info["compat"] & COMPAT_ORPHAN_FILE) and info["orphan_file_inum"] != 0
    if kind.startswith("mmp"):
        return bool(info["incompat"] & INCOMPAT_MMP)
    if kind == "quota_stale":
        return bool(info["ro_compat"] & RO_QUOTA)
    if kind == "sb_destroyed":
        # the backup is where e2fsck guesses it (8 * blocksize blocks per group) or anywhere
        return info["ngroups"] >= 2
    return True


# ---------------------------------------------------------------------------------------
# invocations

RO_SCRIPT = """params
stats
stats -h
ls -l /
ls -d /
pwd
stat <2>
stat <7>
stat <8>
stat <12>
stat <13>
ex <12>
ex <8>
ex <2>
blocks <12>
blocks <2>
filefrag -v /
htree_dump /
htree_dump <2>
ea_list <12>
ea_list <2>
ea_get <12> user.small
bmap <12> 0
bmap <2> 0
icheck 100 200 @BK@
ncheck 2 12 13
logdump -a
logdump -s
logdump -O
logdump -c
@JLOG@
ffb 4
ffb 1 1000
ffi
ffi / 0644
lsdel
imap <12>
imap /
dx_hash -h half_md4 foo
dx_hash -h tea bar
dirsearch / lost+found
testi <12>
testb 100
testb 1 10
freefrag
freefrag -c 64
dump_mmp
list_quota user
list_quota group
get_quota user 0
orphan_inodes
supported_features
inode_dump <12>
inode_dump -b <12>
inode_dump -e <12>
inode_dump -x <12>
block_dump 1
block_dump -f <12> 0
extent_open <12>
root
next
info
extent_close
cat <12>
dump <12> dump.out
dump -p <13> dump2.out
rdump / rd
dump_unused
"""

RO_SHORT = """stats -h
ls -l /
stat <2>
stat <8>
icheck 100
ncheck 12
logdump
ffb 1
testb 100
"""

# every command here modifies the filesystem when debugfs is started with -w; without -w
# each must be refused (or fail) and the device must stay as it is
W_SCRIPT = """mkdir /c13dir
write w.cmd /c13file
ln <12> /c13link
unlink /lost+found
rmdir /lost+found
rm /c13file
symlink /c13sym target
mknod /c13pipe p
sif <12> mode 0100600
sif <2> mtime 12345
ssv mtime 12345
ssv state 1
ssv last_orphan 0
set_bg 0 free_blocks_count 1
set_bg 0 checksum calc
freeb 100
setb 100
freei <12>
seti <12>
clri <13>
dirty
expand_dir /
punch <12> 0
fallocate <12> 0 10
zap_block 100
zap_block -f <12> 0
ea_set <12> user.c13 v
ea_rm <12> user.c13
copy_inode <12> <13>
undel <12> /c13undel
kill_file <12>
set_mmp_value seq 1
feature ^has_journal
feature orphan_present
set_current_time 20200101
extent_open <12>
delete_node
extent_close
jo
jw -b 100 /dev/zero
jc
jr
dirty
"""


def invocation_table(st):
    """name -> dict(tool, args, [setup], [capped], [roles])  (file names relative to the pair
    directory: t.img = the image, t.jnl = external journal device)."""
    bs, bk = str(st["bs"]), str(st["backup"])
    J = ["-j", "t.jnl"] if st.get("jnl") else []
    T = {
        "e2fsck -n": ("e2fsck", ["-n"] + J + ["t.img"]),
        "e2fsck -fn": ("e2fsck", ["-fn"] + J + ["t.img"]),
        "e2fsck -n -b": ("e2fsck", ["-n", "-b", bk, "-B", bs] + J + ["t.img"]),
        "debugfs ro-script": ("debugfs", ["-f", "ro.cmd", "t.img"]),
        "debugfs -c ro-script": ("debugfs", ["-c", "-f", "ro.cmd", "t.img"]),
        "debugfs write-cmds-without-w": ("debugfs", ["-f", "w.cmd", "t.img"]),
        "debugfs -b -s": ("debugfs", ["-b", bs, "-s", bk, "-f", "short.cmd", "t.img"]),
        "dumpe2fs": ("dumpe2fs", ["t.img"]),
        "dumpe2fs -h": ("dumpe2fs", ["-h", "t.img"]),
        "dumpe2fs -x": ("dumpe2fs", ["-x", "t.img"]),
        "dumpe2fs -b": ("dumpe2fs", ["-b", "t.img"]),
        "dumpe2fs -g": ("dumpe2fs", ["-g", "t.img"]),
        "dumpe2fs -f": ("dumpe2fs", ["-f", "t.img"]),
        "dumpe2fs -m": ("dumpe2fs", ["-m", "t.img"]),
        "dumpe2fs -o superblock": ("dumpe2fs", ["-o", "superblock=" + bk, "-o",
                                                "blocksize=" + bs, "t.img"]),
        "dumpe2fs -i": ("dumpe2fs", ["-i", "t.e2i"]),
        "tune2fs -l": ("tune2fs", ["-l", "t.img"]),
        "resize2fs -P": ("resize2fs", ["-P", "t.img"]),
        "resize2fs -P -f": ("resize2fs", ["-P", "-f", "t.img"]),
        "e2image -r": ("e2image", ["-r", "t.img", "d.raw"]),
        "e2image -Q": ("e2image", ["-Q", "t.img", "d.qcow"]),
        "e2image -ra": ("e2image", ["-ra", "t.img", "d.rawa"]),
        "e2image": ("e2image", ["t.img", "d.e2i"]),
        "e2freefrag": ("e2freefrag", ["t.img"]),
        "e2freefrag -c": ("e2freefrag", ["-c", "64", "t.img"]),
        "e2label": ("e2label", ["t.img"]),
        "e2undo -n": ("e2undo", ["-n", "t.undo", "t.img"]),
        # the same on an undo file whose recording run ended abnormally (header not marked finished;
        # a real replay would then mark the filesystem as needing a check) and with -f / -v
        "e2undo -n unfinished": ("e2undo", ["-n", "t.undo", "t.img"]),
        "e2undo -n -f unfinished": ("e2undo", ["-n", "-f", "t.undo", "t.img"]),
        "e2undo -n -v": ("e2undo", ["-n", "-v", "t.undo", "t.img"]),
        "mke2fs -n": ("mke2fs", ["-n", "-F", "t.img"]),
    }
    if st.get("jnl"):
        T["dumpe2fs journal-dev"] = ("dumpe2fs", ["t.jnl"])
    return T


CONTROLS = {
    # writing invocations: both witnesses have to notice them, or the harness is blind
    "CONTROL tune2fs -L": ("tune2fs", ["-L", "c13-control", "t.img"]),
    "CONTROL debugfs -w dirty": ("debugfs", ["-w", "-R", "dirty", "t.img"]),
    # rewrites the first KiB with its own content: only the mtime and strace witnesses can see it
    "CONTROL dd identical bytes": ("/usr/bin/dd", ["if=t.img", "of=t.img", "bs=1024", "count=1",
                                                   "conv=notrunc", "status=none"]),
}
CAPPED = ("debugfs ro-script", "debugfs -c ro-script", "dumpe2fs -x", "dumpe2fs")


def kw_lines(text):
    out = []
    seen = set()
    for line in text.splitlines():
        line = line.strip()[:200]
        if line and line not in seen and KW_RE.search(line):
            seen.add(line)
            out.append(line)
            if len(out) >= 400:
                break
    return out


def run_pair(root, env, st, inv, do_strace, pdir):
    """One pair.  st: dict(img, jnl, bs, backup).  Returns a small dict."""
    b = Tools(root)
    os.makedirs(pdir)
    res = {"inv": inv, "straced": bool(do_strace), "setup": None}
    try:
        timg = os.path.join(pdir, "t.img")
        run.copy_sparse(st["img"], timg)
        targets = {"img": timg}
        if st.get("jnl"):
            run.copy_sparse(st["jnl"], os.path.join(pdir, "t.jnl"))
            targets["jnl"] = os.path.join(pdir, "t.jnl")
        for name, text in (("ro.cmd", RO_SCRIPT), ("short.cmd", RO_SHORT), ("w.cmd", W_SCRIPT)):
            text = text.replace("@BK@", str(st["backup"]))
            text = text.replace("@JLOG@", "logdump -f t.jnl" if st.get("jnl") else "logdump -S")
            with open(os.path.join(pdir, name), "w") as f:
                f.write(text)
        os.mkdir(os.path.join(pdir, "rd"))
        table = dict(CONTROLS)
        table.update(invocation_table(st))
        tool, args = table[inv]
        # setup steps (not judged, not traced): produce the auxiliary file the invocation reads
        if inv.startswith("e2undo -n"):
            env_u = dict(env)
            if "unfinished" in inv:
                env_u["UNDO_IO_SIMULATE_UNFINISHED"] = "1"
            r = run.run([b.tool("tune2fs"), "-z", "t.undo", "-L", "c13-undo", "t.img"], env=env_u,
                        cwd=pdir, timeout=WATCHDOG)
            res["setup"] = "tune2fs -z rc=%s" % r.rc
            if not os.path.exists(os.path.join(pdir, "t.undo")):
                r = run.run([b.tool("e2fsck"), "-fy", "-z", "t.undo", "t.img"], env=env_u, cwd=pdir,
                            timeout=WATCHDOG)
                res["setup"] += "; e2fsck -fy -z rc=%s" % r.rc
            res["setup_ok"] = os.path.exists(os.path.join(pdir, "t.undo"))
            targets["undo"] = os.path.join(pdir, "t.undo")
        elif inv == "dumpe2fs -i":
            r = run.run([b.tool("e2image"), "t.img", "t.e2i"], env=env, cwd=pdir, timeout=WATCHDOG)
            res["setup"] = "e2image rc=%s" % r.rc
            res["setup_ok"] = os.path.exists(os.path.join(pdir, "t.e2i"))
            targets["e2i"] = os.path.join(pdir, "t.e2i")
        exe = tool if tool.startswith("/") else b.tool(tool)
        argv = [exe] + args
        trace = os.path.join(pdir, "trace.txt")
        if do_strace:
            argv = fswatch.strace_argv(trace, argv)
        before = {role: fswatch.snapshot(p) for role, p in targets.items()}
        capped = False
        if inv in CAPPED:
            r, capped = run.run_capped_pipe(argv, env=env, timeout=WATCHDOG, cap=8 << 20, cwd=pdir)
        else:
            r = run.run(argv, env=env, timeout=WATCHDOG, cwd=pdir, cap=2 << 20)
        after = {role: fswatch.snapshot(p) for role, p in targets.items()}
        res.update(rc=r.rc, sig=r.sig, timed_out=r.timed_out, capped=capped,
                   wall=round(r.wall, 2), outlen=len(r.out) + len(r.err))
        # the volume label of the corpus images is the base name ("ext4_quota"): keep it out of
        # the keyword matching
        text = (r.text + "\n" + r.etext).replace(root + "/", "").replace(pdir + "/", "")
        text = text.replace(st["spec"]["base"][:16], "LABEL")
        res["kw"] = kw_lines(text)
        res["tail"] = (r.text[-500:] + "\n--stderr--\n" + r.etext[-500:])
        diffs = {}
        for role in targets:
            d = fswatch.diff_snap(before[role], after[role])
            if d:
                diffs[role] = d
        if "img" in diffs and not res["setup"] and after["img"] is not None:
            try:
                first, n = fswatch.first_difference(st["img"], timg)
                if first is not None:
                    diffs["img"].append(("where", "first differing byte %d (block %d at bs=%d), "
                                         "%d differing KiB" % (first, first // st["bs"],
                                                               st["bs"], n)))
            except OSError:
                pass
        res["diffs"] = diffs
        res["sizes"] = {role: (s["size"] if s else None) for role, s in before.items()}
        if do_strace:
            t = fswatch.parse_trace(trace, targets, pdir)
            res["trace"] = t
            if diffs or t.get("n_target_writes"):
                try:
                    with open(trace, "r", errors="replace") as f:
                        res["trace_text"] = f.read(200000)
                except OSError:
                    pass
    finally:
        shutil.rmtree(pdir, ignore_errors=True)
    return res


def _pair_job(arg):
    root, env, st, inv, do_strace, pdir = arg
    t0 = time.time()
    try:
        res = run_pair(root, env, st, inv, do_strace, pdir)
        if (res.get("timed_out") and not res["diffs"] and
                not (res.get("trace") or {}).get("n_target_writes")):
            # a timeout is re-run once before it is called a hang (a run that was killed after
            # it had modified the target is judged as it is)
            res = run_pair(root, env, st, inv, do_strace, pdir + "-again")
            res["first_timed_out"] = True
    except Exception as e:          # harness trouble must not look like "held"
        res = {"inv": inv, "crash": "%s: %s" % (type(e).__name__, e)}
    res["state"] = st["spec"]
    res["total"] = round(time.time() - t0, 2)
    return res


# ---------------------------------------------------------------------------------------

def choose_bases(tier, seed, n):
    """Corpus images this run derives its states from."""
    rng = run.rng_for(seed, "C13", "plan")
    names = zoo.corpus_names("thorough")
    pool = [x for x in zoo.corpus_names(tier) if x not in REQUIRED_BASES]
    required = [x for x in REQUIRED_BASES if x in names]
    nb = len(names) if tier == "thorough" and n >= 100 else max(len(required) + 1, min(8, n // 3))
    extra = rng.sample(pool, max(0, min(len(pool), nb - len(required))))
    bases = required + sorted(extra)
    return bases


def plan_states(seed, n, bases, binfo):
    rng = run.rng_for(seed, "C13", "states")
    specs = [{"idx": i, "base": bname, "kind": "pristine", "seed": seed}
             for i, bname in enumerate(bases)]
    k = 0
    start = rng.randrange(len(KINDS))
    while len(specs) < max(n, len(bases) + 2):
        kind = KINDS[(start + k) % len(KINDS)]
        k += 1
        el = [x for x in bases if eligible(kind, binfo[x])]
        if not el:
            if k > 10 * len(KINDS) + n:
                break
            continue
        specs.append({"idx": len(specs), "base": rng.choice(el), "kind": kind, "seed": seed})
    return specs


def _unpack_job(arg):
    name, d = arg
    return zoo.corpus_image(name, d)


def main(tier, seed, replay=None, scale=1.0):
    rep = report.Report("C13", tier, seed, "exploration", rule=RULE)
    plain = build.get_build("plain")
    env = run.base_env(plain)
    if shutil.which("strace", path=env["PATH"]) is None:
        rep.harness_error("strace not found")
        return rep.finish()
    n = max(6, int(BUDGET[tier] * scale))
    every = STRACE_EVERY[tier]
    with run.Work("C13") as w:
        cdir, sdir, pdir = w.sub("corpus"), w.sub("states"), w.sub("pairs")
        tools = Tools.install(plain, w.sub("bin"), env)

        rcase = None
        if replay:
            rcase = json.load(open(os.path.join(replay, "case.json")))["case"]
            bases = [rcase["spec"]["base"]]
        else:
            bases = choose_bases(tier, seed, n)
        paths = dict(zip(bases, run.pmap(_unpack_job, [(x, cdir) for x in bases])))
        binfo = {x: read_sb(paths[x]) for x in bases}
        for x in bases:
            if not binfo[x] or not binfo[x]["magic_ok"]:
                rep.harness_error("corpus image %s has no superblock" % x)
                return rep.finish()
        if replay:
            specs = [rcase["spec"]]
            if rcase["spec"]["kind"] != "pristine":     # baseline first
                specs.insert(0, {"idx": 900000, "base": bases[0], "kind": "pristine",
                                 "seed": rcase["spec"]["seed"]})
        else:
            specs = plan_states(seed, n, bases, binfo)

        def make_states(chunk):
            jobs = [(tools.bindir, env, s, paths[s["base"]], sdir) for s in chunk]
            out = []
            for st in run.pmap(_build_state_job, jobs):
                if not st["ok"]:
                    rep.count("state_build_failed")
                    rep.add("state_build_failures", "%s/%s: %s" % (st["spec"]["kind"],
                                                                 st["spec"]["base"], st["err"]))
                    continue
                st["bs"] = binfo[st["spec"]["base"]]["bs"]
                st["backup"] = binfo[st["spec"]["base"]]["backup"]
                out.append(st)
            return out

        def pair_jobs(states, only_inv=None, force_strace=False):
            jobs = []
            for st in states:
                for j, inv in enumerate(invocation_table(st)):
                    if only_inv and inv != only_inv:
                        continue
                    tr = force_strace or ((st["spec"]["idx"] + j + seed) % every == 0)
                    jobs.append((tools.bindir, env, st, inv, tr,
                                 os.path.join(pdir, "p%d-%d" % (st["spec"]["idx"], j))))
            return jobs

        # ---- controls: a writing invocation must trip both witnesses ------------------
        ctl_base = [x for x in bases if not (binfo[x]["incompat"] & INCOMPAT_MMP)][0]
        ctl_state = make_states([{"idx": 100000, "base": ctl_base, "kind": "pristine",
                                  "seed": seed}])
        mtime_works = True
        if not ctl_state:
            rep.harness_error("cannot build the control state")
        else:
            for j, cinv in enumerate(CONTROLS):
                r = _pair_job((tools.bindir, env, ctl_state[0], cinv, True,
                               os.path.join(pdir, "ctl%d" % j)))
                t = r.get("trace") or {}
                cls = {c for c, _ in (r.get("diffs") or {}).get("img", [])}
                rep.extra.setdefault("controls", {})[cinv] = {
                    "snapshot_classes": sorted(cls), "trace_target_writes": t.get("n_target_writes"),
                    "trace_target_open_rw": t.get("target_open_rw"), "rc": r.get("rc")}
                if not t.get("n_target_writes") or not t.get("target_open_rw"):
                    rep.harness_error("control %r: strace witness saw no write to the target "
                                      "(%s)" % (cinv, r.get("crash") or r.get("tail", "")[-200:]))
                if cinv == "CONTROL tune2fs -L" and "bytes" not in cls:
                    rep.harness_error("control %r: snapshot witness saw no byte change" % cinv)
                if cinv == "CONTROL dd identical bytes":
                    mtime_works = cls == {"mtime"}
                    if cls - {"mtime"}:
                        rep.harness_error("control %r changed the file: %s" % (cinv, cls))
            os.unlink(ctl_state[0]["img"])
        rep.extra["mtime_witness_effective"] = mtime_works

        # ---- the pairs -------------------------------------------------------------
        baseline = {}
        seen_keys = set()
        nviol_files = [0]
        totals = {"straced": 0, "nontarget": 0, "target_open_seen": 0}
        slow = [(0.0, "")] * 5
        sampled = set()
        rep.max_samples = 10

        def judge(states, results):
            for r in results:
                spec = r["state"]
                inv, kind, base = r["inv"], spec["kind"], spec["base"]
                if r.get("crash"):
                    rep.harness_error("pair %s on state %d crashed: %s" % (inv, spec["idx"],
                                                                           r["crash"]))
                    continue
                tool = inv.split()[0]
                if kind == "pristine" and not replay:
                    baseline[(base, inv)] = set(r["kw"])
                elif kind == "pristine":
                    baseline.setdefault((base, inv), set(r["kw"]))
                novel = [l for l in r["kw"] if l not in baseline.get((base, inv), ())]
                words = sorted({m.group(0).lower().strip() for l in novel
                                for m in KW_RE.finditer(l)})
                rcs = "sig%d" % r["sig"] if r["sig"] else "rc%s" % r["rc"]
                nontriv = None
                if r["sig"] or r["rc"] != 0 or novel:
                    nontriv = "%s|%s|%s|%s" % (inv, kind, rcs, "+".join(words))
                rep.case(nontriv)
                rep.count("pairs")
                rep.count("pairs_nontrivial" if nontriv else "pairs_trivial")
                rep.count("tool_" + tool)
                rep.count("state_" + kind)
                rep.count("exit_" + rcs)
                rep.add("invocations", inv)
                rep.add("bases", base)
                rep.add("state_images", "%s/%s/%s" % (base, kind, spec["idx"]))
                if r.get("capped"):
                    rep.count("output_capped")
                if r.get("setup") is not None:
                    rep.count("setup_ok" if r.get("setup_ok") else "setup_failed")
                if r["timed_out"]:
                    rep.note_inconclusive("timeout (twice) %s on %s/%s" % (inv, base, kind))
                elif r.get("first_timed_out"):
                    rep.count("timeout_then_ok")
                if r["total"] > slow[0][0]:
                    slow[0] = (r["total"], "%s on %s/%s (tool itself %.2fs)" %
                               (inv, base, kind, r["wall"]))
                    slow.sort()
                if nontriv and novel and kind != "pristine" and kind not in sampled:
                    sampled.add(kind)
                    rep.sample({"invocation": inv, "state": "%s/%s" % (base, kind), "exit": rcs,
                                "new_lines": novel[:3], "straced": r["straced"]})
                t = r.get("trace")
                if r["straced"]:
                    totals["straced"] += 1
                    rep.count("straced_pairs")
                    rep.count("straced_" + tool)
                    if r["timed_out"]:
                        pass            # strace was killed by the watchdog; inconclusive anyway
                    elif not t or t.get("missing") or not t["calls"]:
                        rep.harness_error("strace recorded nothing for %s (state %d): %s" %
                                          (inv, spec["idx"], r["tail"][-200:]))
                        t = None
                if t:
                    totals["nontarget"] += t["nontarget_writes"]
                    rep.count("trace_syscalls_parsed", t["calls"])
                    rep.count("trace_lines_unparsed", t["unparsed"])
                    rep.count("trace_write_syscalls_nontarget", t["nontarget_writes"])
                    rep.count("trace_target_open_readonly", t["target_open_ro"])
                    rep.count("trace_target_open_rw_INFO", t["target_open_rw"])
                    rep.count("trace_target_open_rw_refused_INFO", t["target_open_rw_failed"])
                    rep.count("trace_target_write_attempt_failed_INFO",
                              t["n_target_write_failed"])
                    rep.count("trace_target_write_syscalls", t["n_target_writes"])
                    if t["pids"] > 1:
                        rep.count("straced_pairs_multithreaded")
                    if t["target_open_ro"] or t["target_open_rw"]:
                        totals["target_open_seen"] += 1
                    for role in t["target_open_rw_roles"]:
                        rep.add("tools_opening_target_rw_INFO", "%s (%s)" % (inv, role))
                    for f in t["nontarget_files"]:
                        rep.add("nontarget_files_written", f)
                    if r["outlen"] and not t["nontarget_writes"]:
                        rep.harness_error("tool printed %d bytes but strace saw no write call "
                                          "(%s)" % (r["outlen"], inv))
                # ---- verdict
                case = {"spec": spec, "inv": inv}
                files = {"output-tail.txt": r["tail"].encode()}
                if r.get("trace_text"):
                    files["strace.txt"] = r["trace_text"].encode()
                roles = set(r["diffs"])
                if t:
                    roles |= {role for role, _ in t["target_writes"]}
                for role in sorted(roles):
                    d = r["diffs"].get(role, [])
                    cls = {c for c, _ in d}
                    tw = [l for ro, l in (t["target_writes"] if t else []) if ro == role]
                    det = "; ".join("%s: %s" % x for x in d)
                    state_desc = "%s/%s (state %d)" % (base, kind, spec["idx"])
                    if cls & {"replaced", "size", "bytes", "holes"}:
                        key = "C13 target-modified %s file=%s state=%s" % (inv, role, kind)
                        what = ("%s changed the %s of %s: %s" %
                                (inv, role, state_desc, det))
                    elif tw or "mtime" in cls:
                        key = "C13 write-syscall-identical-bytes %s" % inv
                        if role != "img":
                            key += " file=%s" % role
                        what = ("%s issued a write to the %s of %s; bytes, size and hole map "
                                "ended up identical (%s)" % (inv, role, state_desc,
                                                              det or "seen by strace only"))
                    else:
                        continue
                    if tw:
                        what += " | strace: " + " || ".join(tw[:4])
                    rep.count("violating_pairs")
                    if key in seen_keys:
                        continue
                    seen_keys.add(key)
                    f2 = dict(files)
                    src = next((s for s in states if s["spec"]["idx"] == spec["idx"]), None)
                    if src and nviol_files[0] < 3 and os.path.exists(src["img"]):
                        f2["state.img"] = src["img"]
                        nviol_files[0] += 1
                    rep.violation(key, what, replay=case, files=f2)

        if replay:
            states = make_states(specs)
            judge(states, run.pmap(_pair_job, pair_jobs(states, rcase["inv"], True)))
            return rep.finish(min_nontrivial=0)

        for lo in range(0, len(specs), BATCH):
            states = make_states(specs[lo:lo + BATCH])
            for st in states:
                rep.count("states_built")
                rep.add("state_content_sha", st["sha"])
            jobs = pair_jobs(states)
            # pristine states come first in specs, so their pairs are judged (and become the
            # baseline) before any derived state of a later position in the same batch
            results = run.pmap(_pair_job, jobs)
            order = sorted(range(len(results)),
                           key=lambda i: (results[i]["state"]["kind"] != "pristine", i))
            judge(states, [results[i] for i in order])
            for st in states:
                for p in (st["img"], st.get("jnl")):
                    if p and os.path.exists(p):
                        os.unlink(p)

        rep.extra["slowest_pairs_s"] = [list(x) for x in reversed(slow)]
        if rep.counters.get("state_build_failed", 0) * 5 > len(specs):
            rep.harness_error("%d of %d states could not be built" %
                              (rep.counters["state_build_failed"], len(specs)))
        if totals["straced"] and not totals["nontarget"]:
            rep.harness_error("strace saw no write system call at all in %d traced runs" %
                              totals["straced"])
        if totals["straced"] and not totals["target_open_seen"]:
            rep.harness_error("strace never saw the target being opened (path matching broken?)")
        if not totals["straced"]:
            rep.harness_error("no pair was traced")
    rep.assumptions = [
        "targets are regular files on tmpfs (no block-device ioctls such as BLKDISCARD)",
        "strace witness on %s of the pairs; the before/after snapshot (SHA-256, size, hole map, "
        "inode, mtime) on all of them" % ("all" if every == 1 else "1/%d" % every),
        "setup steps that create the undo file / e2image file are not judged",
        "debugfs is driven by scripts; 'open -w', 'close', 'init_filesys' are not part of a "
        "read-only session and are not issued"]
    return rep.finish()
