"""C12 - an undo file restores the exact previous bytes.

Three phases, all judged by raw bytes and by vf/undofmt.py (an independent parser of the
undo file layout with its own crc32c); e2undo's messages are never used for a verdict.

 1. chains    1-5 recorded runs (mke2fs/tune2fs/resize2fs/e2fsck/debugfs -z U) appended to
              one undo file, on zoo images built by the tree under test or on a device of
              seeded random bytes, some at a byte offset inside the device; then
              `e2undo -n` (must write nothing), optionally undo-of-undo (`e2undo -z U2 U`,
              `e2undo U2` -> post-chain state), finally `e2undo U D`: exit 0 and
              D[:orig_len] == bytes before the first recorded run.
 2. abnormal  last recording run ends with UNDO_IO_SIMULATE_UNFINISHED=1 or is SIGKILLed
              after its k-th modifying syscall on the device / the undo file
              (shim/killafter.c): e2undo (with -f only if it refused for a reason the
              parser confirms: superblock copy != device superblock) must restore everything
              except the primary superblock's s_state (+ s_checksum) and must clear VALID_FS.
 3. damage    single-bit flips in small undo files: header, superblock copy, key blocks, data
              and slack; outcome must be "refused and device untouched" (the only outcome
              accepted inside checksummed ranges) or "restored exactly"; foreign / stale undo
              files must be refused; `e2undo -n` on damaged files must not write.

Violation keys name the located cause, not the seed: for a chain whose restore mismatches, the
shortest failing prefix is searched by re-running prefixes and the key carries the culprit
tool, whether that run wrote without touching its -z file, the offset class (none / aligned /
unaligned to the undo block size), who changed hdr.fs_block_size within the chain, and whether
the differing bytes are confined to the primary superblock.  A chain reports one root cause
(plus any `-n` finding); image-file truncation by resize2fs is keyed separately and bytes
beyond the truncation point are attributed to it.  A killed run whose undo file still says
FINISHED (no new block was recorded before the kill, so the flag reset at reopen never reached
the disk) is restored exactly and only counted (abend_killed_run_left_finished_flag).
"""
import hashlib
import json
import os
import shutil
import struct
import subprocess

from vf import build, run, report, zoo, undofmt
from vf.gen import trees

VERIF = os.path.dirname(os.path.dirname(os.path.abspath(__file__)))
BUDGET = {"quick": {"chains": 60, "abend": 40, "damage": 1500, "pool": 4},
          "thorough": {"chains": 1500, "abend": 600, "damage": 60000, "pool": 8}}
QUICK_BASES = ["ext2_1k", "ext3_1k", "ext4_1k", "ext4_nocsum", "ext4_2k_i512", "ext4_noflex",
               "ext2_4k", "ext4_inline", "ext4_metabg"]
KINDS = ["img", "mkfs", "img", "offmkfs", "img", "mkfs", "img", "offimg", "img", "mkfs", "tailmkfs"]
ABKINDS = ["img", "img", "mkfs", "img", "undo", "img", "offimg", "mkfs"]
NORMAL_RC = {"mke2fs": (0,), "tune2fs": (0,), "resize2fs": (0,), "debugfs": (0,),
             "e2fsck": (0, 1, 2, 3), "e2undo": (0,)}


# ------------------------------------------------------------------ small helpers

READ_CAP = 160 << 20     # a tool may extend the image file wildly (sparse); never slurp that


def _read(path):
    with open(path, "rb") as f:
        return f.read(READ_CAP)


def _sha(b):
    return hashlib.sha256(b).hexdigest()


def diff_ranges(a, b, n, limit=12):
    """Byte ranges [s, e) where a[:n] and b[:n] differ (a or b shorter than n counts as a
    difference up to n).  Returns (first ranges, number of ranges, differing bytes)."""
    out = []
    total = 0
    m = min(len(a), len(b), n)
    step = 4096
    for o in range(0, m, step):
        e = min(m, o + step)
        if a[o:e] == b[o:e]:
            continue
        for j in range(o, e):
            if a[j] != b[j]:
                total += 1
                if out and out[-1][1] == j:
                    out[-1][1] = j + 1
                else:
                    out.append([j, j + 1])
    if m < n:
        out.append([m, n])
        total += n - m
    return out[:limit], len(out), total


def changed_blocks(a, b, n, bs=1024):
    m = min(len(a), len(b), n)
    s = set()
    big = 64 * bs
    for o in range(0, m, big):
        e = min(m, o + big)
        if a[o:e] == b[o:e]:
            continue
        for p in range(o, e, bs):
            if a[p:p + bs] != b[p:p + bs]:
                s.add(p // bs)
    for p in range(m - m % bs, n, bs):
        s.add(p // bs)
    return s


def sb_info(buf, off):
    sb = buf[off + 1024:off + 2048]
    if len(sb) < 1024 or struct.unpack_from("<H", sb, 56)[0] != 0xEF53:
        return None
    g = lambda fmt, o: struct.unpack_from(fmt, sb, o)[0]
    return {"blocks": g("<I", 4), "first_data": g("<I", 20), "log_bs": g("<I", 24),
            "bpg": g("<I", 32), "ipg": g("<I", 40), "state": g("<H", 58),
            "isize": g("<H", 88), "compat": g("<I", 92), "incompat": g("<I", 96),
            "rocompat": g("<I", 100), "uuid": sb[104:120].hex()}


def spec_model(spec):
    a = spec["args"].split()
    typ = a[a.index("-t") + 1] if "-t" in a else "ext4"
    m = {"bs": 1024, "journal": typ in ("ext3", "ext4"), "csum": typ == "ext4",
         "flex": typ == "ext4", "extent": typ == "ext4", "b64": typ == "ext4", "quota": False,
         "isize": 256, "kb": spec["kb"], "bigalloc": False}
    if "-b" in a:
        m["bs"] = int(a[a.index("-b") + 1])
    if "-I" in a:
        m["isize"] = int(a[a.index("-I") + 1])
    for i, x in enumerate(a):
        if x == "-O":
            for f in a[i + 1].split(","):
                on = not f.startswith("^")
                f = f.lstrip("^")
                key = {"has_journal": "journal", "metadata_csum": "csum", "flex_bg": "flex",
                       "extent": "extent", "64bit": "b64", "quota": "quota",
                       "bigalloc": "bigalloc"}.get(f)
                if key:
                    m[key] = on
    return m


# ------------------------------------------------------------------ step generators

def g_tune2fs(rng, m, n):
    c = []
    if m["journal"]:
        c += [("jrnl_off", ["-O", "^has_journal"], 3)]
    else:
        c += [("jrnl_on", ["-O", "has_journal"] + (["-J", "size=1"] if rng.random() < .5 else []), 3)]
    if m["csum"]:
        c += [("csum_off", ["-O", "^metadata_csum"], 4)]
    else:
        c += [("csum_on", ["-O", "metadata_csum"], 4)]
    c += [("uuid", ["-U", "c12c12c1-0000-4000-8000-%012x" % rng.getrandbits(48)], 3),
          ("label", ["-L", "c12-%d" % n], 2)]
    if not m["flex"] and m["isize"] in (128, 256) and m["isize"] * 2 <= m["bs"]:
        c += [("isize", ["-I", str(m["isize"] * 2)], 3)]
    if not m["extent"]:
        c += [("extent_on", ["-O", "extent"], 2)]
    if not m["quota"]:
        c += [("quota_on", rng.choice([["-Q", "usrquota"], ["-O", "quota"]]), 2)]
    else:
        c += [("quota_off", ["-O", "^quota"], 2)]
    c += [("mntopts", ["-E", "mount_opts=nodelalloc"], 1), ("counts", ["-c", "7", "-C", "3"], 1),
          ("reserved", ["-m", "1"], 1), ("errors", ["-e", "remount-ro"], 1)]
    if not m["csum"]:
        c += [("uninit_bg", ["-O", rng.choice(["uninit_bg", "^uninit_bg"])], 1)]
    op, args, _ = rng.choices(c, weights=[w for _, _, w in c])[0]
    upd = {"jrnl_off": ("journal", False), "jrnl_on": ("journal", True),
           "csum_off": ("csum", False), "csum_on": ("csum", True),
           "extent_on": ("extent", True), "quota_on": ("quota", True),
           "quota_off": ("quota", False)}
    if op in upd:
        m[upd[op][0]] = upd[op][1]
    if op == "isize":
        m["isize"] *= 2
    return {"tool": "tune2fs", "op": op, "args": args}


def g_resize2fs(rng, m, st):
    r = rng.random()
    flags = ["-f"] if rng.random() < .5 else []
    if r < .6:
        newkb = int(m["kb"] * rng.choice([1.1, 1.25, 1.5, 2.0])) + rng.choice([0, 0, 3, 1024])
        newkb = max(newkb, (st["dev_len"] - st["offset"] + 1023) // 1024)   # never below the file
        st["dev_len"] = max(st["dev_len"], st["offset"] + newkb * 1024)
        step = {"tool": "resize2fs", "op": "grow", "flags": flags, "size": "%dK" % newkb,
                "extend": st["offset"] + newkb * 1024}
        m["kb"] = newkb
        return step
    if r < .75:
        newkb = int(m["kb"] * rng.choice([.55, .7, .85, .95]))
        m["kb"] = newkb
        return {"tool": "resize2fs", "op": "shrink", "flags": flags, "size": "%dK" % newkb}
    if m["b64"]:
        m["b64"] = False
        return {"tool": "resize2fs", "op": "to32", "flags": flags + ["-s"], "size": None}
    m["b64"] = True
    return {"tool": "resize2fs", "op": "to64", "flags": flags + ["-b"], "size": None}


def g_e2fsck(rng, m):
    fl = ["-f", "-y"]
    op = "fy"
    if rng.random() < .3:
        fl.append("-D")
        op += "D"
    if rng.random() < .3:
        fl += ["-E", "discard"]
        op += "+discard"
    return {"tool": "e2fsck", "op": op, "flags": fl}


def g_debugfs(rng, m, n):
    d = "/c12_%d" % n
    host = {}
    lines = ["mkdir " + d]
    nf = rng.randint(1, 4)
    for i in range(nf):
        host["h%d" % i] = [rng.randrange(1000), rng.choice([100, 3000, 20000, 70000, 200000])]
        lines.append("write @H/h%d %s/f%d" % (i, d, i))
    maxblk = max(64, min(m["kb"] * 1024 // m["bs"] - 1, 6000))
    ops = [
        lambda: "punch %s/f0 %d %d" % (d, rng.randint(0, 3), rng.randint(3, 30)),
        lambda: "rm %s/f%d" % (d, rng.randrange(nf)),
        lambda: "zap_block -f %s/f0 %d" % (d, rng.randint(0, 2)),
        lambda: "zap_block -f %s/f0 -p 0x5a -o 16 -l 64 0" % d,
        lambda: "zap_block -p 0xa5 -o %d -l %d %d" % (rng.randrange(0, 900), rng.randint(1, 100),
                                                       rng.randint(1, maxblk)),
        lambda: "sif %s/f0 mtime 0x5a000000" % d,
        lambda: "sif <2> atime 0x5a000001",
        lambda: "ea_set %s/f0 user.c12 %s" % (d, "v" * rng.choice([3, 60, 300])),
        lambda: "ssv mnt_count %d" % rng.randint(1, 30),
        lambda: "set_bg 0 itable_unused %d" % rng.randint(0, 9),
        lambda: "symlink %s/sl /some/target/%s" % (d, "t" * rng.choice([5, 70, 200])),
        lambda: "mknod %s/p p" % d,
        lambda: "link %s/f0 %s/hl" % (d, d),
        lambda: "fallocate %s/f0 0 %d" % (d, rng.randint(10, 300)),
        lambda: "kill_file %s/f%d" % (d, rng.randrange(nf)),
        lambda: "freeb %d 3" % rng.randint(1, maxblk),
        lambda: "setb %d 2" % rng.randint(1, maxblk),
        lambda: "mkdir %s/sub%d" % (d, rng.randrange(5)),
        lambda: "dirty",
    ]
    for _ in range(rng.randint(2, 7)):
        lines.append(rng.choice(ops)())
    return {"tool": "debugfs", "op": "script", "script": lines, "host": host}


def g_mke2fs(rng, devbytes, offset, n, tail=0, small=False):
    typ = rng.choice(["ext2", "ext3", "ext4", "ext4", "ext4"])
    bs = rng.choice([1024, 1024, 1024, 2048, 4096, 4096] + ([65536] if devbytes >= (8 << 20) and
                                                             rng.random() < .5 else []))
    m = {"bs": bs, "journal": typ != "ext2", "csum": typ == "ext4", "flex": typ == "ext4",
         "extent": typ == "ext4", "b64": typ == "ext4", "quota": False, "isize": 256,
         "bigalloc": False}
    args = ["-t", typ, "-b", str(bs), "-U", "c12c12c1-1111-4000-8000-%012x" % rng.getrandbits(48),
            "-E", "hash_seed=c12c12c1-2222-4000-8000-%012x" % rng.getrandbits(48)]
    ext = []
    feats = []
    if typ == "ext4":
        r = rng.random()
        if r < .2:
            feats.append("^metadata_csum")
            m["csum"] = False
        elif r < .3:
            feats.append("^flex_bg")
            m["flex"] = False
        elif r < .4 and bs <= 4096:
            feats.append("bigalloc")
            args += ["-C", str(bs * 16)]
            m["bigalloc"] = True
        elif r < .5:
            feats.append("inline_data")
        elif r < .6:
            feats.append("quota")
            m["quota"] = True
        elif r < .7:
            feats.append("^resize_inode")
    if typ != "ext2" and rng.random() < .3:
        feats.append("^has_journal")
        m["journal"] = False
    if rng.random() < .3 and bs <= 4096:
        isz = rng.choice([128, 256, 512])
        args += ["-I", str(isz)]
        m["isize"] = isz
    if feats:
        args += ["-O", ",".join(feats)]
    r = rng.random()
    if r < .35:
        ext.append("lazy_itable_init=0")
    elif r < .6:
        ext.append("lazy_itable_init=1")
    if rng.random() < .2:
        ext.append("lazy_journal_init=0")
    if rng.random() < .2:
        args += ["-m", "0"]
    if rng.random() < .2:
        args += ["-N", str(rng.choice([32, 200, 1000]))]
    if offset:
        ext.append("offset=%d" % offset)
    if ext:
        args[args.index("-E") + 1] += "," + ",".join(ext)
    blocks = None
    avail = (devbytes - offset - tail) // bs
    if offset or tail or rng.random() < .25:
        blocks = avail if (offset or tail) else max(64, int(avail * rng.choice([.5, .75, .9])))
    tree = None
    if rng.random() < (.4 if not small else .7) and avail * bs >= (1 << 20):
        tree = rng.randrange(1 << 30)
    m["kb"] = (blocks if blocks else avail) * bs // 1024
    return {"tool": "mke2fs", "op": "mkfs", "args": args, "blocks": blocks, "tree": tree}, m


def g_step(rng, m, st, n, allow):
    w = {"tune2fs": 5, "debugfs": 4, "e2fsck": 3, "resize2fs": 3, "mke2fs": 1}
    tools = [t for t in allow]
    t = rng.choices(tools, weights=[w[x] for x in tools])[0]
    if t == "tune2fs":
        return g_tune2fs(rng, m, n)
    if t == "debugfs":
        return g_debugfs(rng, m, n)
    if t == "e2fsck":
        return g_e2fsck(rng, m)
    if t == "resize2fs":
        return g_resize2fs(rng, m, st)
    oldbs = m["bs"]
    step, m2 = g_mke2fs(rng, st["dev_len"], 0, n)
    if rng.random() < .7 and m2["bs"] != oldbs:
        # mostly keep the block size: a chain that changes it is a (separately keyed) defect class
        a = step["args"]
        a[a.index("-b") + 1] = str(oldbs)
        if "-C" in a:
            a[a.index("-C") + 1] = str(oldbs * 16)
        if step["blocks"]:
            step["blocks"] = step["blocks"] * m2["bs"] // oldbs
        if "-I" in a and int(a[a.index("-I") + 1]) > oldbs:
            a[a.index("-I") + 1] = "256"
        m2["bs"] = oldbs
    m.clear()
    m.update(m2)
    return step


ALL_TOOLS = ["tune2fs", "debugfs", "e2fsck", "resize2fs", "mke2fs"]


def gen_chain(seed, idx, bases, phase="chain"):
    """Deterministic chain descriptor.  bases: sorted list of zoo spec names available."""
    rng = run.rng_for(seed, "C12", phase, idx)
    if phase == "pool":
        kind = "mini" if idx % 4 != 3 else "minimkfs"
    elif phase == "abend":
        kind = ABKINDS[idx % len(ABKINDS)]
    else:
        kind = KINDS[idx % len(KINDS)]
    ch = {"phase": phase, "seed": seed, "idx": idx, "kind": kind, "offset": 0, "tail": 0,
          "base": None, "corrupt": None, "explicit_o": False, "prep": None}
    st = {"offset": 0, "dev_len": 0}
    steps = []
    if kind in ("img", "offimg", "undo"):
        ch["base"] = rng.choice(bases)
        spec = zoo.spec_by_name(ch["base"])
        m = spec_model(spec)
        if kind == "offimg":
            ch["offset"] = rng.choice([1024, 4096, 65536, 524288, 1536])
            ch["tail"] = rng.choice([0, 4096, 12345])
            ch["explicit_o"] = rng.random() < .5
        st["offset"] = ch["offset"]
        st["dev_len"] = ch["offset"] + spec["kb"] * 1024 + ch["tail"]
        nsteps = rng.choice([1, 2, 2, 3, 3, 4, 5]) if kind == "img" else rng.choice([1, 1, 2])
        allow = ALL_TOOLS if kind == "img" else ["tune2fs", "debugfs", "e2fsck"]
        if rng.random() < .3:
            ch["corrupt"] = rng.choice(["zero_bbitmap", "zero_ibitmap", "clobber_itable"])
            steps.append(g_e2fsck(rng, m) if rng.random() < .7 else g_step(rng, m, st, 0, allow))
        while len(steps) < nsteps:
            steps.append(g_step(rng, m, st, len(steps), allow))
    elif kind in ("mkfs", "offmkfs"):
        size = rng.choice([1 << 20, 2 << 20, 4 << 20, 8 << 20, (8 << 20) + 5120, 16 << 20,
                           (3 << 20) + 1536])
        if kind == "offmkfs":
            ch["offset"] = rng.choice([4096, 524288, 32768, 31744, 66560, 1024, 20480])
            ch["tail"] = rng.choice([0, 0, 8192, 777])
            ch["explicit_o"] = rng.random() < .5
            size = max(size, 2 << 20)
        ch["dev_size"] = size
        st["offset"] = ch["offset"]
        st["dev_len"] = size
        first, m = g_mke2fs(rng, size, ch["offset"], 0, ch["tail"])
        steps.append(first)
        nsteps = rng.choice([1, 2, 3, 3, 4, 5]) if kind == "mkfs" else rng.choice([1, 2])
        allow = ALL_TOOLS if kind == "mkfs" else ["tune2fs", "debugfs", "e2fsck"]
        while len(steps) < nsteps:
            steps.append(g_step(rng, m, st, len(steps), allow))
    elif kind == "tailmkfs":
        # a device whose length is not a multiple of mke2fs's 32 KiB undo block: the first run
        # wipes the end of the device (a short last undo record); later runs of the chain write
        # into that tail again
        size = rng.choice([2, 4, 8, 16]) * (1 << 20) + rng.choice([5120, 20480, 1024, 31744, 12288])
        ch["dev_size"] = size
        st["dev_len"] = size
        first, m = g_mke2fs(rng, size, 0, 0, 0)
        first["blocks"] = None                    # the filesystem covers the whole device
        m["kb"] = (size // m["bs"]) * m["bs"] // 1024
        steps.append(first)
        for n in range(rng.choice([1, 1, 2])):
            r = rng.random()
            if r < 0.4:
                again, m = g_mke2fs(rng, size, 0, len(steps), 0)
                again["blocks"] = None
                m["kb"] = (size // m["bs"]) * m["bs"] // 1024
                steps.append(again)
            else:
                nblk = size // m["bs"]
                last = nblk - 1
                lines = ["zap_block -p 0x%02x %d" % (rng.randrange(1, 255), b)
                         for b in sorted(set([last, max(1, last - rng.randrange(0, 6))]))]
                steps.append({"tool": "debugfs", "op": "scatter", "script": lines, "host": {}})
            if rng.random() < 0.4:
                steps.append(g_step(rng, m, st, len(steps), ["tune2fs", "debugfs", "e2fsck"]))
    elif kind == "mini":
        # small 1k-block filesystem made by an unrecorded mke2fs; undo blocks are then 1 KiB
        size = rng.choice([1536, 2048, 3072]) * 1024
        ch["dev_size"] = size
        st["dev_len"] = size
        prep, m = g_mke2fs(rng, size, 0, 0, small=True)
        i = prep["args"].index("-b")
        prep["args"][i + 1] = "1024"
        if "-C" in prep["args"]:
            j = prep["args"].index("-C")
            prep["args"][j + 1] = "16384"
        m["bs"] = 1024
        m["kb"] = size // 1024
        prep["blocks"] = None
        ch["prep"] = prep
        for n in range(rng.choice([2, 3, 3])):
            steps.append(g_step(rng, m, st, n, ["tune2fs", "debugfs", "e2fsck", "tune2fs"]))
        if rng.random() < .75:
            # many scattered single-block writes -> many keys -> more than one key block
            nblk = size // 1024
            stride = rng.choice([2, 3, 5])
            cnt = rng.randint(50, 140)
            start = rng.randint(40, max(41, nblk - cnt * stride - 1))
            lines = ["zap_block -p 0x%02x %d" % (rng.randrange(1, 255), start + i * stride)
                     for i in range(cnt) if start + i * stride < nblk]
            steps.insert(rng.randrange(len(steps) + 1),
                         {"tool": "debugfs", "op": "scatter", "script": lines, "host": {}})
    elif kind == "minimkfs":
        size = rng.choice([1024, 1536]) * 1024
        ch["dev_size"] = size
        st["dev_len"] = size
        first, m = g_mke2fs(rng, size, 0, 0, small=True)
        steps.append(first)
        steps.append(g_tune2fs(rng, m, 1))
    ch["steps"] = steps
    ch["undo_undo"] = phase == "chain" and rng.random() < .3
    if phase == "abend":
        keep = [s_ for s_ in steps[:-1] if (s_["tool"], s_["op"]) not in
                (("resize2fs", "shrink"), ("tune2fs", "isize"))]
        ch["steps"] = steps = keep + steps[-1:]
        ch["ab_mode"] = rng.choice(["sim", "kill", "kill", "kill"])
        ch["ab_watch"] = "undo" if rng.random() < .25 else "dev"
        ch["ab_kfrac"] = rng.random()
        ch["ab_kpick"] = rng.choice(["first", "last", "rand", "rand", "rand", "rand"])
    return ch


# ------------------------------------------------------------------ execution

class Ctx:
    def __init__(self, root, wdir, bases_dir):
        self.b = build.Build(root, "plain")
        self.env = run.base_env(self.b)
        self.w = wdir
        self.bases_dir = bases_dir
        os.makedirs(wdir, exist_ok=True)
        self.D = os.path.join(wdir, "dev")
        self.U = os.path.join(wdir, "undo")
        self.U2 = os.path.join(wdir, "undo2")
        self.H = os.path.join(wdir, "host")
        os.makedirs(self.H, exist_ok=True)
        self.n = 0

    def dspec(self, ch, D=None):
        D = D or self.D
        return D + ("?offset=%d" % ch["offset"] if ch["offset"] else "")


def step_argv(cx, ch, step, U, D=None):
    b = cx.b
    D = D or cx.D
    t = step["tool"]
    if t == "tune2fs":
        return [b.tool(t), "-z", U] + step["args"] + [cx.dspec(ch, D)]
    if t == "resize2fs":
        return [b.tool(t), "-z", U] + step["flags"] + [cx.dspec(ch, D)] + \
            ([step["size"]] if step["size"] else [])
    if t == "e2fsck":
        return [b.tool(t), "-z", U] + step["flags"] + [cx.dspec(ch, D)]
    if t == "debugfs":
        cx.n += 1
        sf = os.path.join(cx.w, "script%d" % cx.n)
        for name, (s, size) in step["host"].items():
            p = os.path.join(cx.H, name)
            with open(p, "wb") as f:
                f.write(trees.pattern(s, size))
        with open(sf, "w") as f:
            f.write("\n".join(l.replace("@H", cx.H) for l in step["script"]) + "\n")
        return [b.tool(t), "-w", "-z", U, "-f", sf, cx.dspec(ch, D)]
    if t == "mke2fs":
        a = [b.tool(t), "-q", "-F"] + (["-z", U] if U else []) + step["args"]
        if step.get("tree") is not None:
            cx.n += 1
            td = os.path.join(cx.w, "tree%d" % cx.n)
            shutil.rmtree(td, ignore_errors=True)
            import random
            trees.make_tree(td, random.Random(step["tree"]), profile="tiny", special=False,
                            xattrs=False)
            a += ["-d", td]
        a.append(D)
        if step.get("blocks"):
            a.append(str(step["blocks"]))
        return a
    if t == "e2undo":
        return [b.tool(t), "-z", U] + e2undo_opts(ch) + [step["src"], D]
    raise ValueError(t)


def e2undo_opts(ch):
    return ["-o", str(ch["offset"])] if ch["offset"] and ch["explicit_o"] else []


def prepare_device(cx, ch):
    """Create the device file for the chain; returns True on success."""
    rng = run.rng_for(ch["seed"], "C12", "dev", ch["phase"], ch["idx"])
    if ch["base"]:
        src = os.path.join(cx.bases_dir, ch["base"] + ".img")
        if not ch["offset"] and not ch["tail"]:
            run.copy_sparse(src, cx.D)
        else:
            with open(cx.D, "wb") as f:
                f.write(rng.randbytes(ch["offset"]))
                f.write(_read(src))
                f.write(rng.randbytes(ch["tail"]))
    else:
        with open(cx.D, "wb") as f:
            f.write(rng.randbytes(ch["dev_size"]))
        if ch["prep"]:
            r = run.run(step_argv(cx, ch, ch["prep"], None), env=cx.env, timeout=120)
            if r.rc != 0:
                return False
    if ch["corrupt"]:
        apply_corruption(cx.D, ch["offset"], ch["corrupt"], rng)
    return True


def apply_corruption(D, off, kind, rng):
    with open(D, "r+b") as f:
        head = f.read(off + 2048)
        si = sb_info(head, off)
        if not si:
            return False
        bs = 1024 << si["log_bs"]
        f.seek(off + (si["first_data"] + 1) * bs)
        bb, ib, it = struct.unpack("<III", f.read(12))
        if not all(0 < x < si["blocks"] for x in (bb, ib, it)):
            return False
        if kind == "zero_bbitmap":
            f.seek(off + bb * bs)
            f.write(b"\0" * bs)
        elif kind == "zero_ibitmap":
            f.seek(off + ib * bs)
            f.write(b"\0" * bs)
        else:
            f.seek(off + (it + rng.randint(0, 2)) * bs + rng.randrange(0, bs - 256))
            f.write(rng.randbytes(200))
    return True


def classify_offset(ch, u):
    if not ch["offset"]:
        return "none"
    if u is not None and u.block_size and ch["offset"] % u.block_size == 0:
        return "aligned-to-undo-block"
    return "unaligned-to-undo-block"


def parse_undo(path, verify=True):
    try:
        if not os.path.exists(path) or os.path.getsize(path) == 0:
            return None
        return undofmt.parse_file(path, verify_data=verify)
    except undofmt.UndoError:
        return None


def allowed_marking(before, fs_off):
    """Byte offsets that e2undo's 'needs check' marking may change: primary superblock
    s_state and (metadata_csum) s_checksum."""
    si = sb_info(before, fs_off)
    if not si:
        return set(), None
    sbo = fs_off + 1024
    al = {sbo + 58, sbo + 59}
    if si["rocompat"] & 0x400:
        al |= set(range(sbo + 1020, sbo + 1024))
    return al, si


def describe_mismatch(cur, before, orig_len, u, fs_off, trunc_at, allowed=None):
    """None if cur[:orig_len] == before (up to the `allowed` byte offsets), else a dict that
    locates the differing ranges: against the undo file's recorded ranges, the primary
    superblock, and the point where the image file was truncated by a run (if it was)."""
    if allowed is None and cur[:orig_len] == before:
        return None
    rg, n, tot = diff_ranges(cur, before, orig_len, limit=1 << 30)
    if allowed is not None:
        rg = [r for r in rg if r[1] - r[0] > 8 or not all(x in allowed for x in range(r[0], r[1]))]
    if not rg:
        return None
    rec = sorted((a, a + s) for a, s, _ in u.recorded()) if u else []
    inside = outside = 0
    for s, e in rg[:2000]:
        if any(a < e and s < b for a, b in rec):
            inside += 1
        else:
            outside += 1
    lo, hi = fs_off + 1024, fs_off + 2048
    return {"ranges": rg[:12], "nranges": len(rg), "bytes": sum(e - s for s, e in rg),
            "in_recorded": inside, "outside_recorded": outside,
            "sb_only": all(lo <= s and e <= hi for s, e in rg),
            "beyond_trunc_only": trunc_at is not None and all(s >= trunc_at for s, e in rg),
            "trunc_at": trunc_at, "len_now": len(cur), "orig_len": orig_len}


def hdr_bs_change(records):
    """records: per run {normal, wrote, fsbs}.  Who changed hdr.fs_block_size (the unit of
    every key's block number) after the first recording run?"""
    prev = None
    who = "none"
    for r in records:
        bs = r.get("fsbs")
        if not bs:
            continue
        if prev is not None and bs != prev and who == "none":
            who = "a-run-that-failed-and-wrote-nothing" if (not r["normal"] and not r["wrote"]) \
                else "a-writing-run"
        prev = bs
    return who


def mm_where(mm):
    if mm["beyond_trunc_only"]:
        return "beyond-truncation"
    if mm["sb_only"]:
        return "primary-superblock"
    return "places other than only the primary superblock"


TRUNC_KEY = ("C12 %s: a run (resize2fs to a size below the image file's) truncated the image file; "
             "original bytes beyond the new end are lost to e2undo")


def judge_restore(cx, ch, U, before, orig_len, mode, opts=None, tag="", trunc_at=None):
    """Run e2undo U D and judge the device.  mode: 'exact' (last recording run ended
    normally) or 'abnormal'.  Returns (violations [(key, what)], info)."""
    b = cx.b
    viol = []
    info = {"forced": False, "refused": False}
    u = parse_undo(U, verify=os.path.getsize(U) < (3 << 20) if os.path.exists(U) else False)
    pre = _read(cx.D)
    offc = classify_offset(ch, u)
    if u is None or u.num_keys == 0 or u.block_size == 0:
        # nothing recorded: the device must not have been modified at all
        info["empty"] = True
        mm = describe_mismatch(pre, before, orig_len, None, ch["offset"], trunc_at)
        if mm:
            info["mismatch"] = mm
        return viol, info
    info["undo"] = u.summary()
    opts = opts if opts is not None else e2undo_opts(ch)
    r = run.run([b.tool("e2undo")] + opts + [U, cx.D], env=cx.env, timeout=120)
    if r.timed_out:
        info["timeout"] = True
        return viol, info
    cur = _read(cx.D)
    info["rc"] = r.rc
    fs_off = ch["offset"]
    unfinished = not u.finished
    if mode == "exact":
        if r.rc != 0 or r.sig:
            viol.append(("C12 %se2undo failed (rc=%s sig=%s) on the undo file of normally ended "
                         "runs; offset=%s" % (tag, r.rc, r.sig, offc),
                         "device %s; undo=%s; err=%s" %
                         ("unchanged" if cur == pre else "changed", u.summary(), r.etext[-300:])))
        mm = describe_mismatch(cur, before, orig_len, u, fs_off, trunc_at)
        if mm:
            info["mismatch"] = mm
        return viol, info
    # abnormal end
    if (r.rc != 0 or r.sig) and cur == pre:
        info["refused"] = True
        dev_sb = pre[fs_off + 1024:fs_off + 2048]
        why = []
        if u.sb is not None and u.sb != dev_sb:
            why.append("sb-mismatch")
        if u.problems:
            why.append("undo-file-inconsistent:" + u.problems[0])
        info["refusal_explained"] = why
        if not why:
            viol.append(("C12 %sabnormal end: e2undo refused an undo file that is consistent and "
                         "matches the device (rc=%s)" % (tag, r.rc), r.etext[-300:]))
        r = run.run([b.tool("e2undo"), "-f"] + opts + [U, cx.D], env=cx.env, timeout=120)
        info["forced"] = True
        info["rc_forced"] = r.rc
        cur = _read(cx.D)
        marked_expected = True
    else:
        marked_expected = unfinished
    if (r.rc != 0 or r.sig) and not u.problems:
        viol.append(("C12 %sabnormal end: e2undo%s exit status %s (sig %s) on a consistent undo "
                     "file" % (tag, " -f" if info["forced"] else "", r.rc, r.sig), r.etext[-300:]))
    allowed, si = allowed_marking(before, fs_off) if marked_expected else (set(), None)
    mm = describe_mismatch(cur, before, orig_len, u, fs_off, trunc_at, allowed=allowed)
    if mm:
        info["mismatch"] = mm
    if mode == "abnormal" and not marked_expected:
        info["finished_flag_stale"] = True
    if marked_expected and si is not None:
        now = sb_info(cur, fs_off)
        if now is None:
            info["marked"] = None
        else:
            info["marked"] = not (now["state"] & 1)
            if now["state"] & 1:
                viol.append(("C12 abnormal end: filesystem not marked as needing a check after "
                             "e2undo of an unfinished undo file; offset=%s" %
                             ("yes" if fs_off else "none"),
                             "%s s_state=0x%x before=0x%x undo=%s rc=%s" %
                             (tag, now["state"], si["state"], u.summary(), r.rc)))
    return viol, info


def run_chain(cx, ch, nsteps=None, pool_dir=None, final=True):
    """Execute a chain descriptor.  Returns a result dict (small)."""
    res = {"idx": ch["idx"], "kind": ch["kind"], "viol": [], "steps": [], "inconclusive": None,
           "nontrivial": None, "undo": None, "evid": {}}
    if not prepare_device(cx, ch):
        res["inconclusive"] = "device preparation failed"
        return res
    before = _read(cx.D)
    orig_len = len(before)
    prev = before
    steps = ch["steps"] if nsteps is None else ch["steps"][:nsteps]
    wrote_sets = []
    last_u_touch_normal = True
    uhash = None
    min_len = orig_len
    fsbs = set()
    for i, step in enumerate(steps):
        if step.get("extend") and os.path.getsize(cx.D) < step["extend"]:
            os.truncate(cx.D, step["extend"])
        argv = step_argv(cx, ch, step, cx.U)
        r = run.run(argv, env=cx.env, timeout=180)
        if r.timed_out:
            res["inconclusive"] = "timeout in %s:%s" % (step["tool"], step["op"])
            return res
        cur = _read(cx.D)
        chg = changed_blocks(prev, cur, orig_len)
        normal = (r.sig == 0 and r.rc in NORMAL_RC[step["tool"]])
        uh = _sha(_read(cx.U)) if os.path.exists(cx.U) else None
        touched = uh != uhash
        uhash = uh
        if touched:
            last_u_touch_normal = normal
        u = parse_undo(cx.U, verify=False)
        min_len = min(min_len, len(cur))
        if u and touched:
            fsbs.add(u.fs_block_size)
        res["steps"].append({"tool": step["tool"], "op": step["op"], "rc": r.rc, "sig": r.sig,
                             "normal": normal, "wrote": len(chg), "touched_undo": touched,
                             "keys": u.num_keys if u else 0,
                             "fsbs": u.fs_block_size if u else None,
                             "msg": (r.etext or r.text)[-160:] if not normal else ""})
        if chg:
            wrote_sets.append((i, step["tool"], chg))
        prev = cur
    post = prev
    u = parse_undo(cx.U, verify=os.path.exists(cx.U) and os.path.getsize(cx.U) < (3 << 20))
    res["undo"] = u.summary() if u else None
    res["fsbs"] = sorted(fsbs)
    trunc_at = min_len if min_len < orig_len else None
    if u and u.problems and last_u_touch_normal and u.num_keys and u.block_size:
        res["viol"].append(("C12 chain: undo file of normally ended runs is inconsistent per "
                            "independent parser (%s)" % u.problems[0], str(u.summary())))
    # non-trivial rule
    writers = [(t, s) for _, t, s in wrote_sets]
    overlap = False
    for a in range(len(writers)):
        for c in range(a + 1, len(writers)):
            if writers[a][1] & writers[c][1]:
                overlap = True
    if len(writers) >= 2 and overlap and u and u.num_keys:
        res["nontrivial"] = json.dumps([ch["kind"], ch["base"], ch["offset"],
                                        [(s["tool"], s["op"]) for s in res["steps"] if s["wrote"]]])
    if not final:
        res["post"] = post
        res["before"] = before
        return res
    mode = "exact" if last_u_touch_normal else "abnormal"
    res["mode"] = mode
    # e2undo -n must not write anything
    if u and u.num_keys:
        hU = _sha(_read(cx.U))
        r = run.run([cx.b.tool("e2undo"), "-n"] + e2undo_opts(ch) + [cx.U, cx.D], env=cx.env,
                    timeout=120)
        res["evid"]["dryrun"] = 1
        if _read(cx.D) != post:
            res["viol"].append(("C12 e2undo -n modified the device (intact undo file)",
                                "rc=%s" % r.rc))
        if _sha(_read(cx.U)) != hU:
            res["viol"].append(("C12 e2undo -n modified the undo file", "rc=%s" % r.rc))
    if pool_dir and u and u.finished and not u.problems and mode == "exact":
        os.makedirs(pool_dir, exist_ok=True)
        shutil.copy(cx.U, os.path.join(pool_dir, "U"))
        run.copy_sparse(cx.D, os.path.join(pool_dir, "Dpost"))
        with open(os.path.join(pool_dir, "before"), "wb") as f:
            f.write(before)
    if ch.get("undo_undo") and mode == "exact" and u and u.num_keys:
        offc = classify_offset(ch, u)
        r1 = run.run([cx.b.tool("e2undo"), "-z", cx.U2] + e2undo_opts(ch) + [cx.U, cx.D],
                     env=cx.env, timeout=120)
        mid = _read(cx.D)
        res["evid"]["undo_undo"] = 1
        mm1 = describe_mismatch(mid, before, orig_len, u, ch["offset"], trunc_at)
        if r1.rc != 0 or (mm1 and not mm1["beyond_trunc_only"]):
            res["viol"].append(("C12 undo-of-undo: e2undo -z U2 U did not restore the original "
                                "(rc %s); offset=%s; image file truncated by an earlier run=%s; "
                                "differing bytes in %s" %
                                ("0" if r1.rc == 0 else "non-zero", offc,
                                 "yes" if trunc_at is not None else "no",
                                 mm_where(mm1) if mm1 else "nothing"),
                                "rc=%s %s err=%s" % (r1.rc, mm1, r1.etext[-200:])))
        else:
            u2 = parse_undo(cx.U2)
            r2 = run.run([cx.b.tool("e2undo")] + e2undo_opts(ch) + [cx.U2, cx.D], env=cx.env,
                         timeout=120)
            back = _read(cx.D)
            if r2.rc != 0 or back[:len(post)] != post:
                mm2 = describe_mismatch(back, post, len(post), u2, ch["offset"], None)
                res["viol"].append(("C12 undo-of-undo: e2undo U2 did not bring back the post-chain "
                                    "state (rc %s); offset=%s; differing bytes in %s" %
                                    ("0" if r2.rc == 0 else "non-zero", offc,
                                     mm_where(mm2) if mm2 else "nothing"),
                                    "rc=%s %s undo2=%s" % (r2.rc, mm2, u2.summary() if u2 else None)))
            else:
                res["evid"]["undo_undo_ok"] = 1
        # the final judgement starts from the post-chain state again
        if _read(cx.D) != post:
            with open(cx.D, "wb") as f:
                f.write(post)
    v, info = judge_restore(cx, ch, cx.U, before, orig_len, mode, tag="chain: ",
                            trunc_at=trunc_at)
    res["viol"] += v
    res["info"] = {k: info[k] for k in info if k != "mismatch"}
    if info.get("timeout"):
        res["inconclusive"] = "e2undo timeout"
    if info.get("mismatch"):
        res["mismatch"] = info["mismatch"]
    return res


def culprit_of(root, wdir, bases_dir, ch):
    """A chain's restore mismatched: find the shortest failing prefix (its last step is the
    culprit) by re-running prefixes.  Prefixes whose only mismatch lies beyond a file
    truncation are reported separately (returns p, result, truncation_seen)."""
    n = len(ch["steps"])
    trunc = False
    for p in range(1, n + 1):
        sub = os.path.join(wdir, "min%d" % p)
        cx = Ctx(root, sub, bases_dir)
        c2 = dict(ch)
        c2["undo_undo"] = False
        r = run_chain(cx, c2, nsteps=p)
        shutil.rmtree(sub, ignore_errors=True)
        if r.get("mismatch"):
            if r["mismatch"]["beyond_trunc_only"]:
                trunc = True
                continue
            return p, r, trunc
    return n, None, trunc


def mismatch_key(ch, res, p, mode):
    step = ch["steps"][p - 1]
    mm = res["mismatch"]
    offc = "none"
    if ch["offset"]:
        ub = (res.get("undo") or {}).get("block_size") or 0
        offc = "aligned-to-undo-block" if ub and ch["offset"] % ub == 0 else \
            "unaligned-to-undo-block"
    sr = res["steps"][p - 1] if len(res.get("steps") or []) >= p else {}
    unrec = sr.get("wrote") and not sr.get("touched_undo")
    extra = ""
    if sr.get("sig"):
        extra += "; culprit run died with signal %d" % sr["sig"]
    ub = (res.get("undo") or {}).get("block_size") or 0
    if p >= 2 and ub >= 1024:
        kprev = res["steps"][p - 2].get("keys") or 0
        if kprev and kprev % (ub // 16 - 1) == 0 and sr.get("touched_undo"):
            extra += "; culprit reopened an undo file whose last key block was exactly full"
    return ("C12 %s: device differs from the original after e2undo; culprit=%s%s; offset=%s; "
            "undo-header-fs-block-size-changed-by=%s; differing bytes in %s" %
            ("chain" if mode == "exact" else "chain with failed last run", step["tool"],
             " (wrote without touching its -z undo file)" if unrec else "", offc,
             hdr_bs_change(res.get("steps") or []), mm_where(mm))) + extra


def w_chain(arg):
    root, wroot, bases_dir, bases, seed, idx, pool_dir, phase = arg
    wdir = os.path.join(wroot, "%s%d" % (phase, idx))
    try:
        ch = gen_chain(seed, idx, bases, phase)
        cx = Ctx(root, wdir, bases_dir)
        res = run_chain(cx, ch, pool_dir=pool_dir)
        res["chain"] = ch
        if res.get("mismatch") and res["mismatch"]["beyond_trunc_only"]:
            res["viol"] = [v_ for v_ in res["viol"] if "e2undo -n" in v_[0]]
            res["viol"].append((TRUNC_KEY % "chain", "mismatch %s steps %s" % (
                res["mismatch"], [(s_["tool"], s_["op"], s_.get("size", "")) for s_ in ch["steps"]])))
        elif res.get("mismatch"):
            p, rmin, trunc = culprit_of(root, wdir, bases_dir, ch)
            use = rmin if rmin else res
            key = mismatch_key(ch, use, p, res.get("mode", "exact"))
            if trunc:
                res["viol"].append((TRUNC_KEY % "chain", "a prefix of this chain; steps %s" % (
                    [(s_["tool"], s_["op"], s_.get("size", "")) for s_ in ch["steps"]])))
            # one chain, one root cause: keep only the located mismatch (and -n findings)
            res["viol"] = [v_ for v_ in res["viol"] if "e2undo -n" in v_[0] or "truncated the image file" in v_[0]]
            res["viol"].append((key, "minimal failing prefix: %d of %d steps %s; mismatch %s; "
                                     "undo=%s" % (p, len(ch["steps"]),
                                                  [(s["tool"], s["op"], s.get("args") or
                                                    s.get("flags") or "", s.get("size", ""))
                                                   for s in ch["steps"][:p]],
                                                  use["mismatch"], use.get("undo"))))
        return res
    except Exception as e:      # harness problem, not a verdict
        import traceback
        return {"idx": idx, "kind": "?", "viol": [], "steps": [], "inconclusive": None,
                "nontrivial": None, "undo": None, "evid": {},
                "harness": "%s: %s" % (e, traceback.format_exc()[-600:])}
    finally:
        shutil.rmtree(wdir, ignore_errors=True)


# ------------------------------------------------------------------ abnormal end

def w_abend(arg):
    root, wroot, bases_dir, bases, seed, idx, so = arg
    wdir = os.path.join(wroot, "abend%d" % idx)
    res = {"idx": idx, "viol": [], "inconclusive": None, "nontrivial": None, "evid": {},
           "kind": "?"}
    try:
        ch = gen_chain(seed, idx, bases, "abend")
        res["chain"] = ch
        res["kind"] = ch["kind"]
        cx = Ctx(root, wdir, bases_dir)
        if not prepare_device(cx, ch):
            res["inconclusive"] = "device preparation failed"
            return res
        steps = ch["steps"]
        undo_kind = ch["kind"] == "undo"
        if undo_kind:
            # prefix recorded normally to U; the run that ends abnormally is `e2undo -z U2 U`
            for step in steps:
                if step.get("extend") and os.path.getsize(cx.D) < step["extend"]:
                    os.truncate(cx.D, step["extend"])
                r = run.run(step_argv(cx, ch, step, cx.U), env=cx.env, timeout=180)
                if r.timed_out:
                    res["inconclusive"] = "timeout"
                    return res
            u = parse_undo(cx.U)
            if not u or not u.num_keys or not u.finished:
                res["trivial"] = "prefix recorded nothing"
                return res
            before = _read(cx.D)
            final = {"tool": "e2undo", "op": "undo", "src": cx.U}
            prefix = []
            UX = cx.U2
        else:
            before = _read(cx.D)
            prefix, final = steps[:-1], steps[-1]
            UX = cx.U
        orig_len = len(before)
        min_len = orig_len
        records = []
        for step in prefix:
            if step.get("extend") and os.path.getsize(cx.D) < step["extend"]:
                os.truncate(cx.D, step["extend"])
            d0 = _read(cx.D)
            r = run.run(step_argv(cx, ch, step, UX), env=cx.env, timeout=180)
            if r.timed_out:
                res["inconclusive"] = "timeout"
                return res
            min_len = min(min_len, os.path.getsize(cx.D))
            up = parse_undo(UX, verify=False)
            records.append({"normal": r.sig == 0 and r.rc in NORMAL_RC[step["tool"]],
                            "wrote": _read(cx.D) != d0, "fsbs": up.fs_block_size if up else None,
                            "tool": step["tool"], "rc": r.rc})
        if final.get("extend") and os.path.getsize(cx.D) < final["extend"]:
            os.truncate(cx.D, final["extend"])
        mode = ch["ab_mode"]
        res["mode"] = mode
        uh0 = _sha(_read(UX)) if os.path.exists(UX) and os.path.getsize(UX) else None
        dev0 = _read(cx.D)
        res["final"] = "%s:%s" % (final["tool"], final["op"])
        kinfo = None
        if mode == "sim":
            env = dict(cx.env)
            env["UNDO_IO_SIMULATE_UNFINISHED"] = "1"
            r = run.run(step_argv(cx, ch, final, UX), env=env, timeout=180)
        else:
            # dry run on copies to learn the number of kill points
            D2 = cx.D + ".dry"
            U2 = UX + ".dry"
            run.copy_sparse(cx.D, D2)
            if os.path.exists(UX):
                shutil.copy(UX, U2)
            elif ch["ab_watch"] == "undo":
                open(U2, "wb").close()
                open(UX, "wb").close()
            log = os.path.join(wdir, "klog")
            watch_dry = D2 if ch["ab_watch"] == "dev" else U2
            env = dict(cx.env)
            env.update({"LD_PRELOAD": so, "KILLAFTER_PATH": watch_dry, "KILLAFTER_N": "0",
                        "KILLAFTER_LOG": log})
            fin2 = dict(final)
            if undo_kind:
                shutil.copy(cx.U, cx.U + ".src")
                fin2["src"] = cx.U + ".src"
            r = run.run(step_argv(cx, ch, fin2, U2, D=D2), env=env, timeout=180)
            total = len(_read(log).splitlines()) if os.path.exists(log) else 0
            for p in (D2, U2):
                if os.path.exists(p):
                    os.unlink(p)
            if total == 0:
                res["trivial"] = "final run wrote nothing (rc=%s: %s)" % (r.rc, (r.etext or r.text)[-120:])
                return res
            k = {"first": 1, "last": total}.get(ch["ab_kpick"], 1 + int(ch["ab_kfrac"] * total) % total)
            kinfo = {"k": k, "total": total, "watch": ch["ab_watch"]}
            env = dict(cx.env)
            env.update({"LD_PRELOAD": so, "KILLAFTER_N": str(k),
                        "KILLAFTER_PATH": cx.D if ch["ab_watch"] == "dev" else UX})
            r = run.run(step_argv(cx, ch, final, UX), env=env, timeout=180)
            if r.sig != 9:
                res["inconclusive"] = "kill point %d/%d not reached (rc=%s sig=%s)" % (k, total, r.rc, r.sig)
                return res
        if r.timed_out:
            res["inconclusive"] = "timeout"
            return res
        res["kill"] = kinfo
        min_len = min(min_len, os.path.getsize(cx.D))
        uh1 = _sha(_read(UX)) if os.path.exists(UX) and os.path.getsize(UX) else None
        untouched = uh1 == uh0 and _read(cx.D) != dev0
        u = parse_undo(UX)
        records.append({"normal": False, "wrote": _read(cx.D) != dev0,
                        "fsbs": u.fs_block_size if u else None, "tool": final["tool"], "rc": r.rc})
        res["records"] = records
        if u is None or not u.num_keys:
            # nothing recorded yet: nothing may have been written
            mm = describe_mismatch(_read(cx.D), before, orig_len, None, ch["offset"],
                                   min_len if min_len < orig_len else None)
            if mm and not mm["beyond_trunc_only"]:
                res["viol"].append((
                    "C12 abnormal end (%s wrote without touching its -z undo file): device differs "
                    "from the original beyond s_state/s_checksum after e2undo; offset=%s; "
                    "differing bytes in %s" % (final["tool"], classify_offset(ch, u), mm_where(mm)),
                    "mode %s final run %s:%s nothing recorded; mismatch %s" %
                    (mode, final["tool"], final["op"], mm)))
            res["trivial"] = "no keys recorded"
            return res
        res["undo"] = u.summary()
        if u.finished and mode == "sim" and r.rc in NORMAL_RC[final["tool"]] and uh1 != uh0:
            res["viol"].append(("C12 UNDO_IO_SIMULATE_UNFINISHED run left a finished undo file",
                                str(u.summary())))
        v, info = judge_restore(cx, ch, UX, before, orig_len, "abnormal",
                                tag="(%s, %s) " % (mode if mode == "sim" else "kill@" + ch["ab_watch"],
                                                   final["tool"]),
                                trunc_at=min_len if min_len < orig_len else None)
        if info.get("mismatch"):
            # a wrong restore also defeats the marking; report the root cause only
            v = [v_ for v_ in v if "not marked as needing a check" not in v_[0]]
        res["viol"] += v
        res["info"] = {k_: info[k_] for k_ in info if k_ != "mismatch"}
        if info.get("timeout"):
            res["inconclusive"] = "e2undo timeout"
        if info.get("finished_flag_stale"):
            res["evid"]["killed_run_left_finished_flag"] = 1
        if info.get("mismatch"):
            mm = info["mismatch"]
            if mm["beyond_trunc_only"]:
                res["viol"].append((TRUNC_KEY % "abnormal end", "mismatch %s" % mm))
            else:
                res["viol"].append((
                    "C12 abnormal end (%s%s): device differs from the original beyond s_state/"
                    "s_checksum after e2undo; offset=%s; undo-header-fs-block-size-changed-by=%s; "
                    "differing bytes in %s" %
                    (final["tool"],
                     " wrote without touching its -z undo file" if untouched else "",
                     classify_offset(ch, u), hdr_bs_change(records), mm_where(mm)),
                    "mode %s final run %s:%s mismatch %s kill=%s forced=%s undo=%s" %
                    (mode, final["tool"], final["op"], mm, kinfo, info.get("forced"), u.summary())))
        res["nontrivial"] = json.dumps([ch["kind"], ch["base"], res["final"], mode,
                                        kinfo["watch"] if kinfo else None,
                                        kinfo["k"] if kinfo else None])
        return res
    except Exception as e:
        import traceback
        res["harness"] = "%s: %s" % (e, traceback.format_exc()[-600:])
        return res
    finally:
        shutil.rmtree(wdir, ignore_errors=True)


# ------------------------------------------------------------------ damage sweep

def w_damage(arg):
    root, wroot, pool_dir, tag, positions, dry_every = arg
    b = build.Build(root, "plain")
    env = run.base_env(b)
    wdir = os.path.join(wroot, "dmg-" + tag)
    os.makedirs(wdir, exist_ok=True)
    out = []
    try:
        Ugood = bytearray(_read(os.path.join(pool_dir, "U")))
        post = _read(os.path.join(pool_dir, "Dpost"))
        before = _read(os.path.join(pool_dir, "before"))
        hpost = _sha(post)
        u = undofmt.Undo(bytes(Ugood))
        Ud = os.path.join(wdir, "U")
        Dc = os.path.join(wdir, "D")
        fresh = False
        for n, bit in enumerate(positions):
            if not fresh:
                with open(Dc, "wb") as f:
                    f.write(post)
                fresh = True
            byte = bit >> 3
            Ugood[byte] ^= 1 << (bit & 7)
            with open(Ud, "wb") as f:
                f.write(Ugood)
            Ugood[byte] ^= 1 << (bit & 7)
            region = u.region_at(byte)
            dry = None
            if dry_every and n % dry_every == 0:
                hU = _sha(_read(Ud))
                r0 = run.run([b.tool("e2undo"), "-n", Ud, Dc], env=env, timeout=60)
                dry = "ok"
                if os.path.getsize(Dc) != len(post) or _sha(_read(Dc)) != hpost:
                    dry = "device-modified"
                    fresh = False
                    with open(Dc, "wb") as f:
                        f.write(post)
                    fresh = True
                elif _sha(_read(Ud)) != hU:
                    dry = "undo-modified"
            r = run.run([b.tool("e2undo"), Ud, Dc], env=env, timeout=60)
            if os.path.getsize(Dc) > 4 * len(post) + (1 << 20):
                # a wild write far beyond the device end: do not try to read it
                out.append((bit, region, "other", r.rc if not r.sig else -r.sig, dry))
                os.unlink(Dc)
                fresh = False
                continue
            cur = _read(Dc)
            if r.timed_out:
                out.append((bit, region, "timeout", None, dry))
                fresh = False
                continue
            if cur == post:
                dev = "unchanged"
            else:
                fresh = False
                dev = "restored" if cur[:len(before)] == before else "other"
            out.append((bit, region, dev, r.rc if not r.sig else -r.sig, dry))
        return out
    finally:
        shutil.rmtree(wdir, ignore_errors=True)


def w_foreign(arg):
    root, wroot, pool_a, pool_b, tag = arg
    """Apply pool_a's undo file to pool_b's device (b == a: to the already-undone state)."""
    b = build.Build(root, "plain")
    env = run.base_env(b)
    wdir = os.path.join(wroot, "foreign-" + tag)
    os.makedirs(wdir, exist_ok=True)
    try:
        U = os.path.join(pool_a, "U")
        dev = _read(os.path.join(pool_b, "before" if pool_a == pool_b else "Dpost"))
        ua = undofmt.parse_file(U)
        same_sb = ua.sb == dev[1024:2048]
        Dc = os.path.join(wdir, "D")
        with open(Dc, "wb") as f:
            f.write(dev)
        r = run.run([b.tool("e2undo"), U, Dc], env=env, timeout=60)
        changed = os.path.getsize(Dc) != len(dev) or _read(Dc) != dev
        return {"rc": r.rc, "sig": r.sig, "changed": changed, "same_sb": same_sb,
                "stale": pool_a == pool_b}
    finally:
        shutil.rmtree(wdir, ignore_errors=True)


def plan_positions(u, rng, budget, exhaustive, cap):
    """Bit positions (file bit offsets) to damage in one undo file."""
    by = {}
    for a, b_, k in u.regions:
        by.setdefault(k, []).append((a, b_))
    groups = {"hdr": by.get("hdr", []), "sb": by.get("sb", []), "key": by.get("key", []),
              "data": by.get("data", []),
              "slack": sum((by.get(k, []) for k in ("hdr_slack", "sb_slack", "data_slack", "slack")), [])}

    def nbits(rs):
        return sum((b_ - a) * 8 for a, b_ in rs)

    def pick(rs, n):
        tot = nbits(rs)
        if tot == 0 or n <= 0:
            return []
        if n >= tot:
            return [a * 8 + i for a, b_ in rs for i in range((b_ - a) * 8)]
        chosen = set()
        while len(chosen) < n:
            x = rng.randrange(tot)
            for a, b_ in rs:
                sz = (b_ - a) * 8
                if x < sz:
                    chosen.add(a * 8 + x)
                    break
                x -= sz
        return sorted(chosen)

    pos = []
    full = sum(nbits(groups[g]) for g in ("hdr", "sb", "key"))
    if exhaustive and full <= cap:
        for g in ("hdr", "sb", "key"):
            pos += pick(groups[g], nbits(groups[g]))
        left = min(cap, budget) - len(pos)
        if left > 0:
            pos += pick(groups["data"], left * 2 // 3) + pick(groups["slack"], left // 3)
        return pos, True
    budget = min(budget, cap)
    share = {"hdr": .25, "sb": .12, "key": .35, "data": .18, "slack": .10}
    for g, s in share.items():
        pos += pick(groups[g], int(budget * s))
    return pos, False


# ------------------------------------------------------------------ bases / shim

def w_base(arg):
    root, name, dst, work = arg
    b = build.Build(root, "plain")
    try:
        zoo.build_image(b, zoo.spec_by_name(name), dst, work)
        return name, None
    except Exception as e:
        return name, str(e)[:300]


def build_shim(work):
    so = work.path("killafter.so")
    src = os.path.join(VERIF, "shim", "killafter.c")
    r = subprocess.run(["gcc", "-shared", "-fPIC", "-O1", "-o", so, src, "-ldl"],
                       stdout=subprocess.PIPE, stderr=subprocess.STDOUT)
    if r.returncode != 0:
        return None, r.stdout.decode("utf-8", "replace")[-400:]
    return so, None


# ------------------------------------------------------------------ main

RULE = ("chains of 1-5 recorded runs appended to one undo file; non-trivial chain = >= 2 runs "
        "each changed >= 1 block of the device and at least one 1 KiB block was changed by two "
        "different runs (measured by comparing device bytes around every run), distinct by "
        "(kind, base image, offset, sequence of writing tool:op); non-trivial abnormal end = an "
        "unfinished undo file with >= 1 key that e2undo was run on, distinct by (image, tool:op, "
        "mode, watched file, kill point); damaged undo files are counted as evaluations only")


def main(tier, seed, replay=None, scale=1.0):
    if replay:
        tier = json.load(open(os.path.join(replay, "case.json"))).get("tier", tier)
    rep = report.Report("C12", tier, seed, "exploration", rule=RULE)
    b = build.get_build("plain")
    bud = {k: max(2, int(v * scale)) for k, v in BUDGET[tier].items()}
    names = QUICK_BASES if tier == "quick" else \
        [s["name"] for s in zoo.SPECS if s["kb"] <= 32768 and s["name"] != "ext4_mmp"]
    with run.Work("C12") as work:
        bases_dir = work.sub("bases")
        wroot = work.sub("w")
        rcase = None
        if replay:
            rcase = json.load(open(os.path.join(replay, "case.json")))["case"]
            need = gen_chain(rcase["seed"], rcase["idx"], sorted(names), rcase["phase"])["base"] \
                if rcase["phase"] in ("chain", "abend") else None
            build_names = [need] if need else []
        else:
            build_names = names
        got = run.pmap(w_base, [(b.root, n, os.path.join(bases_dir, n + ".img"), bases_dir)
                                for n in build_names])
        for n, err in got:
            if err:
                rep.harness_error("base image %s: %s" % (n, err))
        bases = sorted(names)
        so, err = build_shim(work)
        if not so:
            rep.harness_error("shim build failed: " + err)
            return rep.finish()
        if rcase:
            return do_replay(rep, b, work, wroot, bases_dir, bases, so, rcase)

        # ---- phase 1: chains
        items = [(b.root, wroot, bases_dir, bases, seed, i, None, "chain")
                 for i in range(bud["chains"])]
        for res in run.pmap(w_chain, items):
            absorb_chain(rep, res, seed, "chain")

        # ---- phase 2: abnormal ends
        items = [(b.root, wroot, bases_dir, bases, seed, i, so) for i in range(bud["abend"])]
        for res in run.pmap(w_abend, items):
            absorb_abend(rep, res, seed)

        # ---- phase 3: damage sweep over a pool of small undo files
        pool_root = work.sub("pool")
        pitems = [(b.root, wroot, bases_dir, bases, seed, i, os.path.join(pool_root, "p%d" % i),
                   "pool") for i in range(bud["pool"] * 2)]
        pool = []
        for it, res in zip(pitems, run.pmap(w_chain, pitems)):
            absorb_chain(rep, res, seed, "pool")
            pd = it[6]
            if os.path.exists(os.path.join(pd, "U")) and not res["viol"]:
                u = undofmt.parse_file(os.path.join(pd, "U"))
                if u.num_keys >= 2 and os.path.getsize(os.path.join(pd, "U")) <= (2 << 20):
                    pool.append((it[5], pd, u))
        # prefer files with more key blocks first, keep the configured number
        pool.sort(key=lambda x: (-len(x[2].keyblocks), x[0]))
        pool = pool[:bud["pool"]]
        if len(pool) < 1:
            rep.harness_error("damage pool is empty")
        else:
            rng = run.rng_for(seed, "C12", "damage")
            per = bud["damage"] // len(pool)
            ditems = []
            meta = []
            left = bud["damage"]
            for pi, (pidx, pd, u) in enumerate(pool):
                pos, exh = plan_positions(u, rng, per, tier == "thorough", left)
                left -= len(pos)
                if exh:
                    rep.count("damage_files_exhaustive_hdr_sb_key")
                rep.add("pool_files", {"pool_idx": pidx, "block_size": u.block_size,
                                       "keys": u.num_keys, "key_blocks": len(u.keyblocks)})
                for c in range(0, len(pos), 64):
                    ditems.append((b.root, wroot, pd, "%d-%d" % (pidx, c), pos[c:c + 64], 5))
                    meta.append(pidx)
                if left <= 0:
                    break
            for pidx, outs in zip(meta, run.pmap(w_damage, ditems)):
                for bit, region, dev, rc, dry in outs:
                    absorb_damage(rep, seed, pidx, bit, region, dev, rc, dry)
            fitems = []
            for i, (pidx, pd, u) in enumerate(pool):
                fitems.append((b.root, wroot, pd, pd, "s%d" % pidx))
                other = pool[(i + 1) % len(pool)]
                if other[1] != pd:
                    fitems.append((b.root, wroot, pd, other[1], "f%d-%d" % (pidx, other[0])))
            for it, fr in zip(fitems, run.pmap(w_foreign, fitems)):
                rep.case(None)
                kind = "stale" if fr["stale"] else "foreign"
                if fr["same_sb"]:
                    rep.count("foreign_skipped_same_superblock")
                    continue
                rep.count("%s_undo_files" % kind)
                if fr["changed"] or fr["rc"] == 0:
                    _viol(rep, "C12 %s undo file (superblock differs from the device) was not "
                                  "refused: rc=%s device %s" %
                                  (kind, fr["rc"], "changed" if fr["changed"] else "unchanged"),
                                  str(fr), replay={"phase": "foreign", "seed": seed, "idx": 0,
                                                   "tag": it[4]})
                else:
                    rep.count("%s_refused_untouched" % kind)
    rep.assumptions = [
        "devices are regular files on tmpfs; kill -9 keeps every completed write (no power-loss model)",
        "chains are drawn without knowledge of the filesystem state: runs that a tool refuses are "
        "counted (runs_refused_*) and simply do not contribute",
        "undo block sizes are those the tools choose (1k/2k/4k = fs block size, 32k and 512k for "
        "mke2fs); tdb_data_size is not set directly (no io driver here)",
        "a run counts as ended normally when its exit status is the tool's success status "
        "(e2fsck: 0-3); otherwise the abnormal-end rule is applied to the restore",
        "needs-check marking is demanded only when the undo file itself says unfinished (or e2undo "
        "had to be forced); a killed run that recorded no new block leaves the FINISHED flag of the "
        "previous run on disk - such cases must restore exactly and are counted, not flagged",
        "the image file is a regular file: resize2fs may truncate it (keyed separately)",
    ]
    return rep.finish()


def _viol(rep, key, what, replay=None):
    """rep.violation, but print at most 3 unlisted violations per key (all are counted)."""
    per = rep.extra.setdefault("violations_per_key", {})
    per[key] = per.get(key, 0) + 1
    if per[key] <= 3 or rep.match_known(key):
        return rep.violation(key, what, replay=replay)
    rep.count("violations_not_printed_same_key")
    return True


def absorb_chain(rep, res, seed, phase):
    case = {"phase": phase, "seed": seed, "idx": res["idx"]}
    if res.get("harness"):
        rep.harness_error("chain %s: %s" % (res["idx"], res["harness"]))
        return
    rep.case(res["nontrivial"])
    rep.count("%s_chains" % phase)
    rep.count("chains_kind_" + res["kind"])
    if res["inconclusive"]:
        rep.note_inconclusive("%s %d: %s" % (phase, res["idx"], res["inconclusive"]))
    tools = set()
    for s in res["steps"]:
        if s["wrote"] and s["touched_undo"]:
            rep.count("runs_recorded_" + s["tool"])
            rep.add("ops", "%s:%s" % (s["tool"], s["op"]))
            tools.add(s["tool"])
        elif s["wrote"]:
            rep.count("runs_wrote_without_touching_undo_" + s["tool"])
        else:
            rep.count("runs_refused_or_noop_" + s["tool"])
            import re
            rep.add("refusal_messages", re.sub(r"\S*/\S+", "<path>", s["msg"])[-90:])
    rep.add("tool_sets", sorted(tools))
    u = res.get("undo")
    if u:
        rep.add("undo_block_sizes", u["block_size"])
        rep.add("fs_offsets", u["fs_offset"])
        rep.count("undo_keys_total", u["num_keys"])
        rep.add("keys_per_undo_file", u["num_keys"])
        if u["key_blocks"] >= 2:
            rep.count("undo_files_with_2plus_key_blocks")
        if not u["finished"]:
            rep.count("chains_with_unfinished_undo_file")
    for k, v in res.get("evid", {}).items():
        rep.count("chains_" + k, v)
    if res.get("mode"):
        rep.count("restore_mode_" + res["mode"])
    info = res.get("info") or {}
    if info.get("rc") == 0 and not res.get("mismatch") and not res["viol"]:
        rep.count("chains_restored_exactly")
    if res["nontrivial"]:
        rep.sample({"chain": res["idx"], "kind": res["kind"],
                    "steps": ["%s:%s rc=%s wrote=%d keys=%d" % (s["tool"], s["op"], s["rc"],
                                                              s["wrote"], s["keys"])
                              for s in res["steps"]], "undo": u})
    seen = set()
    for key, what in res["viol"]:
        if key in seen:
            continue
        seen.add(key)
        _viol(rep, key, what, replay=case)


def absorb_abend(rep, res, seed):
    case = {"phase": "abend", "seed": seed, "idx": res["idx"]}
    if res.get("harness"):
        rep.harness_error("abend %s: %s" % (res["idx"], res["harness"]))
        return
    rep.case(res["nontrivial"])
    rep.count("abend_cases")
    if res["inconclusive"]:
        rep.note_inconclusive("abend %d: %s" % (res["idx"], res["inconclusive"]))
    if res.get("trivial"):
        rep.count("abend_trivial")
        rep.add("abend_trivial_reasons", res["trivial"][:100])
    if res["nontrivial"]:
        rep.count("abend_mode_" + res["mode"])
        rep.add("abend_final_runs", res["final"])
        k = res.get("kill")
        if k:
            rep.add("kill_points", "%s %d/%d" % (k["watch"], k["k"], k["total"]))
            rep.count("abend_kill_watch_" + k["watch"])
        info = res.get("info") or {}
        if info.get("forced"):
            rep.count("abend_refused_then_forced")
            rep.add("abend_refusal_reasons", info.get("refusal_explained"))
        if info.get("marked"):
            rep.count("abend_marked_needs_check")
        if info.get("marked") is None:
            rep.count("abend_no_filesystem_to_mark")
        if not res["viol"]:
            rep.count("abend_restored")
        for k_, v_ in res.get("evid", {}).items():
            rep.count("abend_" + k_, v_)
        u = res.get("undo")
        if u:
            rep.add("undo_block_sizes", u["block_size"])
        if len(rep.samples) < 6 and k:
            rep.sample({"abend": res["idx"], "final": res["final"], "kill": k, "undo": u,
                        "info": info})
    seen = set()
    for key, what in res["viol"]:
        if key not in seen:
            seen.add(key)
            _viol(rep, key, what, replay=case)


def absorb_damage(rep, seed, pidx, bit, region, dev, rc, dry):
    rep.case(None)
    rep.count("damaged_files")
    rep.count("damage_region_" + region)
    case = {"phase": "damage", "seed": seed, "idx": pidx, "bit": bit}
    if dev == "timeout":
        rep.note_inconclusive("e2undo timeout on damaged file")
        return
    if dry is not None:
        rep.count("damaged_dryruns")
        if dry != "ok":
            _viol(rep, "C12 e2undo -n on a damaged undo file (%s): %s" % (region, dry),
                          "bit %d" % bit, replay=case)
    refused = rc != 0 and dev == "unchanged"
    restored = rc == 0 and dev == "restored"
    if refused:
        rep.count("damage_refused_untouched")
        return
    if restored and region not in undofmt.MUST_REFUSE:
        rep.count("damage_outside_checksums_restored")
        return
    _viol(rep, "C12 damage in %s: e2undo exit %s and device %s" %
                  (region, "0" if rc == 0 else "non-zero", dev),
                  "bit %d (byte %d) rc=%s" % (bit, bit >> 3, rc), replay=case)


def do_replay(rep, b, work, wroot, bases_dir, bases, so, c):
    ph = c["phase"]
    if ph in ("chain", "pool"):
        res = w_chain((b.root, wroot, bases_dir, bases, c["seed"], c["idx"], None, ph))
        print(json.dumps({k: v for k, v in res.items() if k not in ("post", "before")},
                         indent=1, default=str)[:6000])
        absorb_chain(rep, res, c["seed"], ph)
    elif ph == "abend":
        res = w_abend((b.root, wroot, bases_dir, bases, c["seed"], c["idx"], so))
        print(json.dumps(res, indent=1, default=str)[:6000])
        absorb_abend(rep, res, c["seed"])
    elif ph == "damage":
        pd = work.sub("pool-replay")
        res = w_chain((b.root, wroot, bases_dir, bases, c["seed"], c["idx"], pd, "pool"))
        absorb_chain(rep, res, c["seed"], "pool")
        if os.path.exists(os.path.join(pd, "U")):
            u = undofmt.parse_file(os.path.join(pd, "U"))
            print("undo file:", u.summary(), "region:", u.region_at(c["bit"] >> 3))
            for out in w_damage((b.root, wroot, pd, "replay", [c["bit"]], 1)):
                print("damage result:", out)
                absorb_damage(rep, c["seed"], c["idx"], *out)
    else:
        rep.harness_error("cannot replay phase %s alone; re-run the check with seed %s" %
                          (ph, c["seed"]))
    return rep.finish(min_nontrivial=0)
