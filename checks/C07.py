"""C07 - mke2fs produces a consistent filesystem for every accepted configuration.

A seeded covering sampler walks the mke2fs option lattice (pairwise coverage of option
values first, then random fill) crossed with device sizes placed at geometry boundaries by
vf/mkgeom.py (own arithmetic: one group, a last group of 1..overhead+50 blocks, group counts
around a descriptor-block boundary, meta_bg boundaries, large sparse devices).  For every
configuration mke2fs (plain build of the tree under test) is run on a sparse file:

  exit != 0 -> "refused", no claim.
  exit == 0 -> (a) e2fsck -fn exits 0, (b) the independent checker vf/pyext4 finds nothing,
               (c) an independent parse shows the requested geometry/features/identity took
               effect, (d) superblock and descriptor backups live exactly where the format
               prescribes and agree with the primary.

Plus: `mke2fs -n` must not change a byte of the target; two runs with identical inputs, -U,
-E hash_seed= and fake time must give byte-identical images.
"""
import hashlib
import json
import os
import re
import shutil
import struct
import time
import uuid as _uuid

from vf import build, run, report, mkgeom
from vf.gen import trees
from vf.pyext4 import image as I
from vf.pyext4 import check as C

BUDGET = {"quick": (300, 20, 20), "thorough": (8000, 120, 120)}
UUID = "6b33f586-a183-4383-921d-30ab132db9bf"
HASH_SEED = "e1deb3c3-d7b8-4c3a-9c2f-8b1b8f3d2a11"
MAX_BYTES = 64 << 30
MAX_GROUPS = 3000           # keeps e2fsck / pyext4 time per case bounded
MAX_INODES = 400000
TREES = ["tiny0", "tiny1", "std0"]
TREE_NEED = {"tiny": 6 << 20, "std": 24 << 20}      # free bytes wanted before -d is tried
OFFSET_FILL = bytes((i * 37 + 11) & 0xFF for i in range(4096))

# ---------------------------------------------------------------------------------------------
# the option lattice.  First value of every factor is its default ("option not given").

FEATURE_FACTORS = [
    ("has_journal", [None, "off", "on"]), ("resize_inode", [None, "off"]),
    ("sparse_super2", [None, "on"]), ("meta_bg", [None, "on"]), ("flex_bg", [None, "off", "on"]),
    ("64bit", [None, "on", "off"]), ("metadata_csum", [None, "off", "on"]), ("uninit_bg", [None, "on"]),
    ("metadata_csum_seed", [None, "on", "off"]), ("inline_data", [None, "on"]), ("ea_inode", [None, "on"]),
    ("quota", [None, "on"]), ("project", [None, "on"]), ("orphan_file", [None, "on", "off"]),
    ("mmp", [None, "on"]), ("large_dir", [None, "on"]), ("dir_index", [None, "off"]),
    ("extent", [None, "off", "on"]), ("huge_file", [None, "off"]), ("dir_nlink", [None, "off"]),
    ("extra_isize", [None, "off"]), ("sparse_super", [None, "off"]), ("stable_inodes", [None, "on"]),
    ("encrypt", [None, "on"]), ("filetype", [None, "off"]),
]
FEATURE_NAMES = [n for n, _ in FEATURE_FACTORS]

SIZE_CLASSES = ["mid", "one_group", "tiny_last", "desc_boundary", "metabg_boundary", "large"]

FACTORS = [
    ("t", ["ext4", "ext3", "ext2"]),
    ("b", [1024, 2048, 4096]),
    ("size", SIZE_CLASSES),
    ("C", [None, 4, 16]),
    ("I", [None, 128, 256, 512, 1024]),
    ("ino", [None, "i4096", "i16384", "i65536", "N64", "N1000", "Nmany"]),
] + [("f:" + n, v) for n, v in FEATURE_FACTORS] + [
    ("J", [None, "min", "2min", "16"]),
    ("g", [None, 256, 512, 1024, 2048, "max"]),
    ("G", [None, 1, 2, 4, 16, 64, 256]),
    ("raid", [None, "s4w8", "s16w64", "s7", "w12"]),
    ("offset", [None, 512, 1024, 4096, 1048576]),
    ("nbsb", [None, 0, 1, 2]),
    ("resize", [None, "x2", "x10", "x5000"]),
    ("lazy", [None, 0, 1]),
    ("owner", [None, "1000:1000", "65534:100000", "self"]),
    ("packed", [None, 1]),
    ("orph", [None, "64k", "2M"]),        # -E orphan_file_size= (only with the orphan_file feature)
    ("m", [None, "0", "1", "10.5", "50"]),
    ("L", [None, "lbl", "sixteen-chars-lbl", "a-label-longer-than-sixteen"]),
    ("r", [None, "1", "0", "rev0"]),
    ("d", [None, "tiny0", "tiny1", "std0"]),
    ("prefill", [None, "a5"]),          # not an option: stale device content instead of zeros
]
FACTOR_VALUES = dict(FACTORS)
ALWAYS = ("t", "b", "size")          # factors that have no "not given" value
RARE = {("r", "0"): 0.03, ("r", "rev0"): 0.3}      # values that (nearly) always lead to a refusal
PREFILL_MAX = 96 << 20
MKE2FS_TIMEOUT = 150


def default_cfg():
    return {k: v[0] for k, v in FACTORS}


def nondefault(cfg):
    return sorted(k for k, v in FACTORS if k not in ALWAYS and cfg.get(k) is not None)


def option_tuple(cfg):
    """distinctness class of a configuration: every option value + the size class"""
    return json.dumps([[k, cfg.get(k)] for k, _ in FACTORS])


def pairs_of(cfg):
    items = [(k, cfg.get(k)) for k, _ in FACTORS]
    out = []
    for i in range(len(items)):
        for j in range(i + 1, len(items)):
            out.append((items[i], items[j]))
    return out


def all_pairs():
    out = set()
    for i in range(len(FACTORS)):
        for j in range(i + 1, len(FACTORS)):
            for a in FACTORS[i][1]:
                for b in FACTORS[j][1]:
                    out.add(((FACTORS[i][0], a), (FACTORS[j][0], b)))
    return out


def random_cfg(rng, force=(), max_nondefault=None):
    cfg = default_cfg()
    for k in ALWAYS:
        cfg[k] = rng.choice(FACTOR_VALUES[k])
    cfg["size"] = rng.choice(["mid", "mid", "one_group", "tiny_last", "tiny_last", "desc_boundary",
                              "desc_boundary", "metabg_boundary", "large"])
    cap = max_nondefault if max_nondefault is not None else rng.choice([2, 4, 6, 8, 10, 12])
    names = [k for k, _ in FACTORS if k not in ALWAYS]
    rng.shuffle(names)
    for k in names[:cap]:
        vals = FACTOR_VALUES[k][1:]
        v = rng.choice(vals)
        if (k, v) in RARE and rng.random() > RARE[(k, v)]:
            v = None
        cfg[k] = v
    for k, v in force:
        cfg[k] = v
    return cfg


def repair(cfg, rng, conf):
    """Steer a sampled configuration away from combinations that are refused for documented
    reasons (a fraction is left alone so that refusals stay exercised).  Steering only: what
    mke2fs makes of the result is judged, not assumed."""
    if rng.random() < 0.12:
        return cfg
    f = lambda n: cfg.get("f:" + n)
    base = mkgeom.base_features(conf, cfg["t"], 1 << 20, cfg["b"])

    def will_have(n):
        if f(n) == "on":
            return True
        if f(n) == "off":
            return False
        return n in base
    if cfg["r"] == "rev0":
        # revision 0: no features, no journal, 128-byte inodes
        for n in FEATURE_NAMES:
            cfg["f:" + n] = None
        cfg.update({"t": "ext2", "C": None, "J": None, "G": None, "resize": None, "nbsb": None, "packed": None})
        if cfg["I"] not in (None, 128):
            cfg["I"] = None
        if cfg["size"] == "metabg_boundary":
            cfg["size"] = "desc_boundary"
        return cfg
    if cfg["size"] == "metabg_boundary":
        cfg["f:meta_bg"] = "on"
    if f("extent") == "off" and will_have("64bit"):
        cfg["f:64bit"] = "off"
    if f("extent") == "off":
        cfg["C"] = None
    if (cfg["C"] or f("64bit") == "on") and not will_have("extent"):
        cfg["f:extent"] = "on"
    if (f("inline_data") == "on" or f("project") == "on") and cfg["I"] == 128:
        cfg["I"] = 256
    if f("orphan_file") == "on" and not will_have("has_journal") and not cfg["J"]:
        cfg["f:has_journal"] = "on"
    if f("metadata_csum_seed") == "on" and not will_have("metadata_csum"):
        cfg["f:metadata_csum"] = "on"
    if f("meta_bg") == "on":
        cfg["f:resize_inode"] = "off"
        cfg["resize"] = None
    if f("sparse_super") == "off":
        cfg["f:resize_inode"] = "off"
        cfg["resize"] = None
    if cfg["G"] is not None and not will_have("flex_bg"):
        if f("flex_bg") == "off":
            cfg["G"] = None
        else:
            cfg["f:flex_bg"] = "on"
    if cfg["nbsb"] is not None and f("sparse_super2") != "on":
        cfg["f:sparse_super2"] = "on"
    if cfg["C"] and cfg["g"] in (256,):
        pass
    return cfg


# ---------------------------------------------------------------------------------------------
# what a configuration asks for (mirror of the documented option semantics)

def feature_edits(cfg):
    """the -O list in a fixed order"""
    out = []
    if cfg.get("C"):
        out.append("bigalloc")
    for n in FEATURE_NAMES:
        v = cfg.get("f:" + n)
        if v == "on":
            out.append(n)
            if n == "meta_bg" and cfg.get("f:resize_inode") is None:
                pass
        elif v == "off":
            out.append("^" + n)
    return out


def journal_mb(cfg):
    j = cfg.get("J")
    if j is None:
        return None
    minmb = max(1, 1024 * cfg["b"] // (1 << 20))
    if j == "min":
        return minmb
    if j == "2min":
        return 2 * minmb
    return max(int(j), minmb)


def g_value(cfg):
    g = cfg.get("g")
    if g is None:
        return 0
    if g == "max":
        return 8 * cfg["b"]
    return g


def raid_values(cfg):
    r = cfg.get("raid")
    if not r:
        return None, None
    m = re.match(r"^(?:s(\d+))?(?:w(\d+))?$", r)
    return (int(m.group(1)) if m.group(1) else None, int(m.group(2)) if m.group(2) else None)


def inode_request(cfg, blocks):
    """(-i ratio or None, -N count or None)"""
    v = cfg.get("ino")
    if v is None:
        return None, None
    if v[0] == "i":
        return int(v[1:]), None
    if v == "Nmany":
        isize = cfg["I"] or 256
        return None, max(64, blocks * cfg["b"] // (isize * 4))
    return None, int(v[1:])


def resize_blocks(cfg, blocks):
    v = cfg.get("resize")
    if not v:
        return None
    return min(blocks * int(v[1:]), (1 << 32) - 1)


class Want:
    """Everything the configuration asks for, derived without running anything."""

    def __init__(self, cfg, conf, blocks):
        bs = cfg["b"]
        self.bs = bs
        self.blocks = blocks
        self.rev0 = False
        types = mkgeom.profile_types(conf, cfg["t"], blocks, bs)
        feats = mkgeom.base_features(conf, cfg["t"], blocks, bs)
        self.base = set(feats)
        default_orphan = "orphan_file" in feats
        default_seed = "metadata_csum_seed" in feats
        edits = feature_edits(cfg)
        self.explicit_on = set(e for e in edits if not e.startswith("^"))
        self.explicit_off = set(e[1:] for e in edits if e.startswith("^"))
        mkgeom.edit_features(feats, ",".join(edits))
        if default_orphan and "has_journal" not in feats:
            feats.discard("orphan_file")
        if default_seed and "metadata_csum" not in feats:
            feats.discard("metadata_csum_seed")
        if blocks > 0xFFFFFFFF and "64bit" in feats:
            feats.discard("resize_inode")
        self.jmb = journal_mb(cfg)
        if self.jmb:
            feats.add("has_journal")
        self.ratio = 1
        if "bigalloc" in feats:
            self.ratio = cfg["C"] or 16
        csize = bs * self.ratio
        iratio, n = inode_request(cfg, blocks)
        self.iratio_given, self.n_given = iratio, n
        if iratio is None:
            iratio = int(mkgeom.profile_get(conf, types, "inode_ratio", "8192"))
            iratio = max(iratio, bs, csize)
        self.isize = cfg["I"] or int(mkgeom.profile_get(conf, types, "inode_size", "0")) or 128
        self.inodes_param = n if n else blocks * bs // iratio
        # -E resize=
        self.g = g_value(cfg)
        self.rsv_param = 0
        self.resize = resize_blocks(cfg, blocks)
        desc = 64 if "64bit" in feats else 32
        if self.resize:
            bpg = self.g or bs * 8
            dpb = bs // desc
            cur_db = mkgeom.ceil_div(mkgeom.ceil_div(blocks, bpg), dpb)
            rsv = mkgeom.ceil_div(mkgeom.ceil_div(self.resize, bpg), dpb) - cur_db
            rsv = min(rsv, bs // 4)
            if rsv > 0:
                feats.add("resize_inode")
                self.rsv_param = rsv
        if "project" in feats:
            pass
        if "metadata_csum" in feats and "uninit_bg" in feats:
            feats.discard("uninit_bg")
        if cfg.get("r") == "rev0":
            self.rev0 = True
            feats.clear()
            self.isize = 128
        self.backup_bgs = (0, 0)
        if "sparse_super2" in feats:
            nb = cfg.get("nbsb")
            nb = 2 if nb is None else nb
            self.backup_bgs = (1 if nb >= 1 else 0, 0xFFFFFFFF if nb >= 2 else 0)
        self.feats = feats
        self.flex = None
        if "flex_bg" in feats:
            self.flex = cfg["G"] if cfg["G"] is not None else int(mkgeom.profile_get(conf, types, "flex_bg_size", "16"))

    def plan(self):
        return mkgeom.plan(self.blocks, self.bs, self.ratio, self.g, self.feats, self.inodes_param,
                           self.isize, self.rsv_param, self.backup_bgs)


# ---------------------------------------------------------------------------------------------
# device sizes at geometry boundaries

def choose_blocks(cfg, conf, rng):
    """Returns (blocks, boundary label).  Own arithmetic only."""
    bs = cfg["b"]
    w0 = Want(cfg, conf, 1 << 20)
    ratio = w0.ratio
    g = w0.g
    bpg = min(g or bs * 8, 65528) * ratio
    fdb = 1 if bs * ratio == 1024 else 0
    dpb = bs // (64 if "64bit" in w0.feats else 32)
    max_blocks = MAX_BYTES // bs
    if "64bit" not in w0.feats:
        max_blocks = min(max_blocks, 0xFFFFFFFF)
    cls = cfg["size"]

    def inodes_for(blocks):
        return Want(cfg, conf, blocks).inodes_param

    def ov_last(groups):
        o = mkgeom.last_group_overhead(groups, bs, ratio, g, w0.feats, inodes_for, w0.isize,
                                       w0.rsv_param, w0.backup_bgs)
        return o if o is not None else 60

    def rnd_rem(groups):
        """a remainder that is comfortably kept"""
        lo = ov_last(groups) + 51
        if lo >= bpg:
            return bpg
        r = rng.randint(lo, bpg)
        if ratio > 1 and rng.random() < 0.8:
            r = max(ratio, r & ~(ratio - 1))
        return r

    def fit(groups):
        return fdb + groups * bpg <= max_blocks and groups <= MAX_GROUPS

    label = cls
    if cls == "one_group":
        kind = rng.choice(["full", "full-1", "half", "small"])
        if kind == "full":
            blocks = fdb + bpg
        elif kind == "full-1":
            blocks = fdb + bpg - ratio
        elif kind == "half":
            blocks = fdb + max(bpg // 2, min(bpg, 2100))
        else:
            blocks = fdb + min(bpg, ov_last(1) + rng.choice([50, 51, 60, 200, 2048]))
        label = "one_group:" + kind
    elif cls == "tiny_last":
        cand = [k for k in (2, 3, 4, 5, 6, 8, 10, 26, 28, 50) if fit(k)] or [2]
        k = rng.choice(cand)
        which = rng.choice(["1", "ov-1", "ov", "ov+1", "ov+49", "ov+50", "ov+51", "rand"])
        if cfg.get("_tiny"):             # directed configurations name the boundary themselves
            k, which = cfg["_tiny"]
            if not fit(k):
                k = max([c for c in cand if c <= k] or [2])
        ov = ov_last(k)
        r = {"1": 1, "ov-1": ov - 1, "ov": ov, "ov+1": ov + 1, "ov+49": ov + 49, "ov+50": ov + 50,
             "ov+51": ov + 51, "rand": rng.randint(1, ov + 52)}[which]
        r = max(1, min(r, bpg - 1))
        if ratio > 1:
            r = max(ratio, (r + ratio - 1) & ~(ratio - 1)) if which != "1" else ratio
        blocks = fdb + (k - 1) * bpg + r
        label = "tiny_last:" + which
    elif cls in ("desc_boundary", "metabg_boundary"):
        deltas = [-1, 0, 1] if cls == "desc_boundary" else [-1, 0, 1, 2]
        opts = [(m, d) for m in (1, 2, 3) for d in deltas if m * dpb + d >= 1 and fit(m * dpb + d)]
        if not opts:
            # default group size too big for the device budget: this class needs a -g
            return None, None
        m, d = rng.choice(opts)
        groups = m * dpb + d
        r = bpg if rng.random() < 0.4 else rnd_rem(groups)
        blocks = fdb + (groups - 1) * bpg + r
        label = "%s:%dx%+d" % (cls, m, d)
    elif cls == "large":
        target = rng.choice([4 << 30, 16 << 30, 48 << 30, 64 << 30]) // bs
        target = min(target, max_blocks)
        groups = max(2, min((target - fdb) // bpg, MAX_GROUPS))
        blocks = fdb + (groups - 1) * bpg + rnd_rem(groups)
        label = "large:%dG" % max(1, (blocks * bs) >> 30)
    else:
        top = max(2, min(64, (max_blocks - fdb) // bpg))
        groups = rng.randint(2, top)
        blocks = fdb + (groups - 1) * bpg + rnd_rem(groups)
    blocks = min(blocks, max_blocks)
    return blocks, label


def finish_cfg(cfg, conf, rng):
    """pick the device size and settle size-dependent option values; returns cfg or None"""
    blocks, label = choose_blocks(cfg, conf, rng)
    if blocks is None:
        if cfg["g"] is None or cfg["g"] == "max":
            cfg["g"] = rng.choice([256, 512, 1024])
            blocks, label = choose_blocks(cfg, conf, rng)
        if blocks is None:
            cfg["size"] = "mid"
            blocks, label = choose_blocks(cfg, conf, rng)
    cfg["blocks"] = blocks
    cfg["boundary"] = label
    w = Want(cfg, conf, blocks)
    if cfg.get("raid") == "sEDGE":
        # the stride that shifts the bitmaps of group 1 onto the very last block of the group
        # (placement without flex_bg: start = first block + inode table, shifted by stride * group
        # modulo the room behind it)
        try:
            pl = w.plan()
            # group 1 always carries a backup: its first free block lies behind superblock,
            # descriptors and reserved GDT; room behind the inode table = R, the edge is R - 1
            cfg["raid"] = "s%d" % max(2, pl.bpg - (1 + pl.desc_blocks + pl.rsv_gdt) - pl.itb - 1)
        except (mkgeom.Refused, AttributeError):
            cfg["raid"] = "s7"
    # keep the inode count (hence e2fsck / oracle time) bounded on big devices
    if w.inodes_param > MAX_INODES:
        ratio_needed = blocks * cfg["b"] // MAX_INODES
        r = 65536
        while r < ratio_needed:
            r *= 2
        r = min(r, 4 << 20)
        if blocks * cfg["b"] // r <= MAX_INODES * 2:
            cfg["ino"] = "i%d" % r
        else:
            cfg["ino"] = "N1000"
        w = Want(cfg, conf, blocks)
    nbytes = blocks * cfg["b"]
    if nbytes > PREFILL_MAX:
        cfg["prefill"] = None
    if w.jmb and w.jmb * (1 << 20) > nbytes // 3:
        cfg["J"] = None
    if "has_journal" in w.feats and not cfg["J"] and nbytes >= (2 << 30):
        cfg["J"] = "min"        # journal sizes stay small on big devices
    d = cfg.get("d")
    if d:
        try:
            pl = w.plan()
            free = (pl.blocks - pl.groups * (pl.itb + 2)) * cfg["b"] - (w.jmb or 0) * (1 << 20)
            if "has_journal" in w.feats and not w.jmb:
                free -= 64 << 20 if nbytes >= (1 << 30) else (16 << 20 if nbytes >= (128 << 20) else 4 << 20)
        except mkgeom.Refused:
            free = 0
        if free < TREE_NEED["tiny" if d.startswith("tiny") else "std"]:
            cfg["d"] = None
    return cfg


def argv_for(cfg, mke2fs, path, treedir, noaction=False):
    a = [mke2fs, "-q", "-F", "-t", cfg["t"], "-b", str(cfg["b"])]
    if noaction:
        a.append("-n")
    if cfg.get("C"):
        a += ["-C", str(cfg["C"] * cfg["b"])]
    if cfg.get("I"):
        a += ["-I", str(cfg["I"])]
    ir, n = inode_request(cfg, cfg["blocks"])
    if ir:
        a += ["-i", str(ir)]
    if n:
        a += ["-N", str(n)]
    ed = feature_edits(cfg)
    if ed:
        a += ["-O", ",".join(ed)]
    if cfg.get("J"):
        a += ["-J", "size=%d" % journal_mb(cfg)]
    if cfg.get("g"):
        a += ["-g", str(g_value(cfg))]
    if cfg.get("G") is not None:
        a += ["-G", str(cfg["G"])]
    e = ["hash_seed=" + HASH_SEED]
    s, wdt = raid_values(cfg)
    if s:
        e.append("stride=%d" % s)
    if wdt:
        e.append("stripe_width=%d" % wdt)
    if cfg.get("offset"):
        e.append("offset=%d" % cfg["offset"])
    if cfg.get("nbsb") is not None:
        e.append("num_backup_sb=%d" % cfg["nbsb"])
    rz = resize_blocks(cfg, cfg["blocks"])
    if rz:
        e.append("resize=%d" % rz)
    if cfg.get("lazy") is not None:
        e.append("lazy_itable_init=%d" % cfg["lazy"])
    if cfg.get("owner"):
        e.append("root_owner" if cfg["owner"] == "self" else "root_owner=" + cfg["owner"])
    if cfg.get("packed"):
        e.append("packed_meta_blocks=1")
    if cfg.get("orph") and cfg.get("f:orphan_file") == "on":
        e.append("orphan_file_size=" + cfg["orph"])
    if cfg.get("r") == "rev0":
        e.append("revision=0")
    a += ["-U", UUID, "-E", ",".join(e)]
    if cfg.get("m") is not None:
        a += ["-m", cfg["m"]]
    if cfg.get("L") is not None:
        a += ["-L", cfg["L"]]
    if cfg.get("r") in ("0", "1"):
        a += ["-r", cfg["r"]]
    if cfg.get("d"):
        a += ["-d", os.path.join(treedir, cfg["d"])]
    a += [path, str(cfg["blocks"])]
    return a


# ---------------------------------------------------------------------------------------------
# judging one created image

def norm_line(s, path):
    s = s.replace(path, "IMG")
    s = re.sub(r"\S*/(e2fsck|mke2fs)\b", r"\1", s)
    s = re.sub(r"\d+", "N", s)
    return s.strip()[:160]


def first_problem(text, path):
    for ln in text.split("\n"):
        t = ln.strip()
        if not t or t.startswith("Pass ") or t.startswith("e2fsck ") or re.match(r"^\S+: \d+/\d+ files", t):
            continue
        return norm_line(t, path)
    return "(no output)"


SB_COMPARE = ["s_inodes_count", "s_blocks_count_lo", "s_blocks_count_hi", "s_r_blocks_count_lo",
              "s_r_blocks_count_hi", "s_first_data_block", "s_log_block_size", "s_log_cluster_size",
              "s_blocks_per_group", "s_clusters_per_group", "s_inodes_per_group", "s_magic",
              "s_rev_level", "s_first_ino", "s_inode_size", "s_feature_compat", "s_feature_incompat",
              "s_feature_ro_compat", "s_uuid", "s_volume_name", "s_reserved_gdt_blocks", "s_desc_size",
              "s_first_meta_bg", "s_log_groups_per_flex", "s_backup_bgs", "s_journal_inum",
              "s_hash_seed", "s_def_hash_version", "s_raid_stride", "s_raid_stripe_width",
              "s_checksum_seed", "s_checksum_type", "s_mmp_block", "s_usr_quota_inum",
              "s_grp_quota_inum", "s_prj_quota_inum", "s_orphan_file_inum", "s_creator_os",
              "s_mkfs_time", "s_min_extra_isize", "s_want_extra_isize", "s_flags", "s_jnl_blocks",
              "s_encoding", "s_overhead_clusters"]


def check_backups(img, cfg, rng, out):
    """(d): every prescribed backup is there and agrees; nothing where none must be."""
    viol = []
    sb = img.sb
    groups = img.groups
    with_super = [g for g in range(1, groups) if img.bg_has_super(g)]
    sample = with_super
    if len(sample) > 24:
        keep = set(sample[:8] + sample[-4:])
        keep.update(rng.sample(sample, 12))
        sample = sorted(keep)
    prim_desc = img.group_descs()
    meta = sb.has_incompat("meta_bg")
    first_meta = sb.s_first_meta_bg if meta else img.gdt_blocks
    nsb = ngd = 0
    for g in sample:
        blk = img.sb_block(g)
        raw = img.blk(blk)[:1024]
        if struct.unpack_from("<H", raw, 56)[0] != 0xEF53:
            viol.append(("backup sb-missing", "group %d of %d must carry a superblock backup at block %d "
                         "but there is no magic" % (g, groups, blk)))
            continue
        nsb += 1
        try:
            bsb = I.Superblock(raw)
        except I.FormatError as e:
            viol.append(("backup sb-unparsable", "group %d: %s" % (g, e)))
            continue
        diff = [n for n in SB_COMPARE if getattr(bsb, n) != getattr(sb, n)]
        if diff:
            viol.append(("backup sb-differs " + ",".join(diff[:4]),
                         "backup superblock of group %d differs from the primary in %s" % (g, diff)))
        if sb.has_ro("metadata_csum") and not bsb.checksum_ok():
            viol.append(("backup sb-checksum", "backup superblock of group %d has a wrong checksum" % g))
        # old-style descriptor copies behind this backup
        nold = min(first_meta, img.gdt_blocks)
        for i in range(nold):
            loc = img.gdt_location(i, g)
            braw = img.blk(loc)
            bad = None
            for j in range(img.descs_per_block):
                gi = i * img.descs_per_block + j
                if gi >= groups:
                    break
                gd = I.GroupDesc(braw[j * img.desc_size:(j + 1) * img.desc_size], img.desc_size, img.is64)
                p = prim_desc[gi]
                if (gd.block_bitmap, gd.inode_bitmap, gd.inode_table) != \
                        (p.block_bitmap, p.inode_bitmap, p.inode_table):
                    bad = (gi, (gd.block_bitmap, gd.inode_bitmap, gd.inode_table),
                           (p.block_bitmap, p.inode_bitmap, p.inode_table))
                    break
            ngd += 1
            if bad:
                viol.append(("backup gdt-differs", "descriptor copy (block %d of the table) behind the backup "
                             "in group %d: group %d has %s, primary %s" % (i, g, bad[0], bad[1], bad[2])))
                break
    # groups that must not carry a superblock
    nneg = 0
    if not cfg.get("d"):
        without = [g for g in range(1, groups) if not img.bg_has_super(g)]
        pick = without[:4] + without[-2:] + (rng.sample(without, 4) if len(without) > 4 else [])
        for g in sorted(set(pick)):
            raw = img.blk(img.group_first_block(g))[:1024]
            nneg += 1
            if struct.unpack_from("<H", raw, 56)[0] == 0xEF53:
                viol.append(("backup sb-unexpected", "group %d of %d must not carry a superblock backup "
                             "but one is there" % (g, groups)))
    # meta_bg: three copies of each descriptor block
    nmeta = 0
    if meta:
        mgs = list(range(first_meta, img.gdt_blocks))
        if len(mgs) > 48:
            mgs = sorted(set(mgs[:16] + mgs[-8:] + rng.sample(mgs, 24)))
        dpb = img.descs_per_block
        for i in mgs:
            praw = img.blk(img.gdt_location(i, 0))
            n = min(dpb, groups - i * dpb)
            for which, g in ((1, i * dpb + 1), (2, i * dpb + dpb - 1)):
                if g >= groups:
                    continue
                loc = img.gdt_location(i, which)
                braw = img.blk(loc)
                nmeta += 1
                for j in range(n):
                    a = I.GroupDesc(braw[j * img.desc_size:(j + 1) * img.desc_size], img.desc_size, img.is64)
                    p = I.GroupDesc(praw[j * img.desc_size:(j + 1) * img.desc_size], img.desc_size, img.is64)
                    if (a.block_bitmap, a.inode_bitmap, a.inode_table) != \
                            (p.block_bitmap, p.inode_bitmap, p.inode_table):
                        viol.append(("backup metabg-gdt-differs",
                                     "meta group %d: descriptor copy in group %d (block %d) differs from "
                                     "the primary for group %d" % (i, g, loc, i * dpb + j)))
                        break
    out["backup_sb_checked"] = nsb
    out["backup_gdt_blocks_checked"] = ngd
    out["no_backup_checked"] = nneg
    out["metabg_copies_checked"] = nmeta
    return viol


def check_geometry(img, cfg, conf, path, out):
    """(c): the request took effect."""
    viol = []
    sb = img.sb
    bs = cfg["b"]
    w = Want(cfg, conf, cfg["blocks"])
    try:
        pl = w.plan()
    except mkgeom.Refused as e:
        pl = None
        out["model_refused_but_accepted"] = str(e)

    def bad(field, what):
        viol.append(("geometry " + field, what))

    if img.bs != bs:
        bad("block_size", "block size %d, requested %d" % (img.bs, bs))
    if "bigalloc" in w.feats:
        if img.ratio != w.ratio:
            bad("cluster_size", "cluster ratio %d, requested %d" % (img.ratio, w.ratio))
    elif sb.s_log_cluster_size != sb.s_log_block_size:
        bad("cluster_size", "log cluster size %d without bigalloc" % sb.s_log_cluster_size)
    if sb.s_rev_level != (0 if w.rev0 else 1):
        bad("rev_level", "revision %d" % sb.s_rev_level)
    if cfg.get("I") and sb.s_inode_size != cfg["I"]:
        bad("inode_size", "inode size %d, requested %d" % (sb.s_inode_size, cfg["I"]))
    # ---- features
    have = set(sb.features())
    expect = set(w.feats)
    if pl is not None and pl.meta_bg and "meta_bg" not in expect:
        # documented in the library: descriptors + reserved GDT blocks would eat 3/4 of a group
        expect.add("meta_bg")
        expect.discard("resize_inode")
        out["auto_meta_bg"] = 1
    if sb.blocks_count < 2048 and "has_journal" in expect and "has_journal" not in have:
        # "Filesystem too small for a journal"
        expect.discard("has_journal")
        expect.discard("orphan_file")
        out["journal_dropped_small"] = 1
    may_appear = {"large_file"}
    missing = sorted(expect - have)
    extra = sorted(have - expect - may_appear)
    if missing:
        bad("feature-missing " + ",".join(missing), "features %s requested (by -t %s / -O) but absent; "
            "have %s" % (missing, cfg["t"], sorted(have)))
    if extra:
        bad("feature-unrequested " + ",".join(extra), "features %s present but neither requested nor implied; "
            "requested %s" % (extra, sorted(expect)))
    # ---- blocks per group, block count, last group
    req = cfg["blocks"] & ~(img.ratio - 1)
    fdb = sb.s_first_data_block
    want_fdb = 1 if bs * img.ratio == 1024 else 0
    if fdb != want_fdb:
        bad("first_data_block", "first data block %d, expected %d" % (fdb, want_fdb))
    g = w.g
    if g and not (pl is not None and pl.bpg_adjusted):
        got = sb.s_clusters_per_group if "bigalloc" in w.feats else sb.s_blocks_per_group
        if got != g:
            bad("blocks_per_group", "%d per group, -g %d" % (got, g))
    if sb.s_blocks_per_group != sb.s_clusters_per_group * img.ratio:
        bad("blocks_per_group", "blocks per group %d != clusters per group %d * %d" %
            (sb.s_blocks_per_group, sb.s_clusters_per_group, img.ratio))
    bpg = sb.s_blocks_per_group
    rem = (req - fdb) % bpg
    final = sb.blocks_count
    if final == req:
        kept = True
    elif rem and final == req - rem:
        kept = False
        out["last_group_dropped"] = 1
    else:
        kept = None
        bad("blocks_count", "block count %d is neither the requested %d nor the request minus a short "
            "last group (%d)" % (final, req, req - rem))
    if pl is not None and kept is not None and rem and not pl.bpg_adjusted and pl.bpg == bpg:
        ov = pl.overhead1
        out["last_rem"] = rem
        out["last_overhead_model"] = ov
        if kept and rem < ov:
            bad("last-group-kept-too-small", "last group of %d blocks kept although its bookkeeping needs "
                "%d" % (rem, ov))
        elif kept and rem < ov + 50:
            bad("last-group-kept-below-50", "last group of %d blocks kept although it has fewer than 50 "
                "blocks beyond its bookkeeping (%d); such a group is to be dropped" % (rem, ov))
        if not kept and rem >= ov + 50:
            bad("last-group-dropped", "last group of %d blocks dropped although it has room for its "
                "bookkeeping (%d) and 50 blocks more" % (rem, ov))
        if kept == pl.dropped:
            out["trim_model_mismatch"] = 1
    if final * bs + (cfg.get("offset") or 0) > os.path.getsize(path):
        bad("beyond-device", "filesystem of %d blocks does not fit the %d byte device" %
            (final, os.path.getsize(path)))
    # ---- inode count
    groups = img.groups
    ipg = sb.s_inodes_per_group
    ipb = bs // sb.s_inode_size
    if w.n_given or w.iratio_given:
        n = w.inodes_param
        need = mkgeom.ceil_div(n, groups)
        lo = need - (7 if ipb < 8 else 0)
        lo = min(lo, 65536 - ipb)
        if pl is not None and pl.bpg_adjusted:
            lo = 0
        hi = max(8, mkgeom.ceil_div(need, ipb) * ipb) + 8 + mkgeom.ceil_div(12, groups)
        if ipg < lo:
            bad("inodes-too-few", "%d inodes per group in %d groups = %d, requested %s %d" %
                (ipg, groups, ipg * groups, "-N" if w.n_given else "-i ->", n))
        elif ipg > hi:
            bad("inodes-too-many", "%d inodes per group in %d groups = %d, requested %s %d" %
                (ipg, groups, ipg * groups, "-N" if w.n_given else "-i ->", n))
        out["inodes_checked"] = 1
    if pl is not None and (pl.groups, pl.ipg, pl.blocks, pl.bpg) != (groups, ipg, final, bpg):
        out["model_exact_mismatch"] = "model %s image %s" % ((pl.groups, pl.ipg, pl.blocks, pl.bpg),
                                                              (groups, ipg, final, bpg))
    # ---- journal
    if "has_journal" in have:
        if sb.s_journal_inum != 8:
            bad("journal_inum", "journal inode %d" % sb.s_journal_inum)
        else:
            ji = img.inode(8)
            if w.jmb:
                if ji.size != w.jmb << 20:
                    bad("journal_size", "journal i_size %d, -J size=%d" % (ji.size, w.jmb))
                mp, _ = img.block_map(ji)
                nblk = sum(c for _, _, c, _ in mp)
                if nblk * bs != w.jmb << 20:
                    bad("journal_size", "journal maps %d blocks, -J size=%d" % (nblk, w.jmb))
                out["journal_checked"] = 1
            if sb.s_jnl_blocks[16] != (ji.size & 0xFFFFFFFF):
                bad("journal_backup", "s_jnl_blocks size %d != journal i_size %d" % (sb.s_jnl_blocks[16], ji.size))
    # ---- reserved GDT blocks
    if w.rsv_param and "bigalloc" not in w.feats:
        if pl is not None and pl.meta_bg and "meta_bg" not in w.feats:
            out["resize_vs_auto_meta_bg"] = 1
        elif sb.s_reserved_gdt_blocks != w.rsv_param:
            bad("reserved_gdt_blocks", "%d reserved GDT blocks, -E resize=%d needs %d" %
                (sb.s_reserved_gdt_blocks, w.resize, w.rsv_param))
        else:
            out["resize_checked"] = 1
    # ---- flex_bg
    if w.flex is not None and "flex_bg" in have:
        if (1 << sb.s_log_groups_per_flex) != w.flex:
            bad("flex_bg_size", "log groups per flex %d, -G %d" % (sb.s_log_groups_per_flex, w.flex))
    s, wd = raid_values(cfg)
    if s is not None and sb.s_raid_stride != s:
        bad("raid_stride", "stride %d, requested %d" % (sb.s_raid_stride, s))
    if wd is not None and sb.s_raid_stripe_width != wd:
        bad("raid_stripe_width", "stripe width %d, requested %d" % (sb.s_raid_stripe_width, wd))
    if cfg.get("L") is not None:
        wantl = cfg["L"].encode()[:16].ljust(16, b"\0")
        if sb.s_volume_name != wantl:
            bad("label", "label %r, requested %r" % (sb.s_volume_name, cfg["L"]))
    if sb.s_uuid != _uuid.UUID(UUID).bytes:
        bad("uuid", "uuid %s" % sb.s_uuid.hex())
    if struct.pack("<4I", *sb.s_hash_seed) != _uuid.UUID(HASH_SEED).bytes:
        bad("hash_seed", "hash seed %s" % struct.pack("<4I", *sb.s_hash_seed).hex())
    pct = float(cfg["m"]) if cfg.get("m") is not None else 5.0
    rb = sb.s_r_blocks_count_lo | ((sb.s_r_blocks_count_hi << 32) if sb.has_incompat("64bit") else 0)
    if abs(rb - pct * final / 100.0) > 2.0:
        bad("reserved_blocks-" + ("high" if rb > pct * final / 100.0 else "low"),
            "%d reserved blocks of %d (%.3f%%), -m %s" % (rb, final, 100.0 * rb / final, pct))
    if cfg.get("owner"):
        if cfg["owner"] == "self":
            uid, gid = os.getuid(), os.getgid()
        else:
            uid, gid = [int(x) for x in cfg["owner"].split(":")]
        ri = img.inode(2)
        if (ri.uid, ri.gid) != (uid, gid):
            bad("root_owner", "root owned by %d:%d, requested %d:%d" % (ri.uid, ri.gid, uid, gid))
        out["owner_checked"] = 1
    if sb.has_compat("sparse_super2"):
        nb = cfg.get("nbsb")
        nb = 2 if nb is None else nb
        have_b = len([x for x in set(sb.s_backup_bgs) if x != 0])
        want_b = min(nb, groups - 1)
        if have_b != want_b:
            bad("num_backup_sb", "%d backup groups %s, num_backup_sb=%d with %d groups" %
                (have_b, list(sb.s_backup_bgs), nb, groups))
        elif any(x >= groups for x in sb.s_backup_bgs):
            bad("num_backup_sb", "backup group beyond the last group: %s" % (list(sb.s_backup_bgs),))
    out["groups"] = groups
    out["features"] = sorted(have)
    return viol


def evaluate(cfg, conf, path, e2fsck, env, rng):
    """Judge the image at `path` made for cfg.  Returns dict(viol=[(key, what)], ...)."""
    out = {"viol": []}
    off = cfg.get("offset") or 0
    target = path
    if off:
        # e2fsck judges a copy of the filesystem proper: its own `?offset=` route cannot read an
        # MMP block (the library reads that one without the channel offset)
        target = path + ".fs"
        copy_data_extents(path, target, off)
    r = run.run([e2fsck, "-fn", target], env=env, timeout=300)
    if off:
        os.unlink(target)
    out["fsck_rc"] = r.rc
    if r.timed_out:
        out["timeout"] = "e2fsck"
        return out
    if r.rc != 0 or r.sig:
        # e2fsck reports most problems on stdout, quota problems on stderr
        line = first_problem(r.etext, target)
        if line == "(no output)":
            line = first_problem(r.text, target)
        out["fsck_line"] = line
        out["viol"].append(("e2fsck-fn-rejects", line, "e2fsck -fn exit %s sig %s: %s" %
                            (r.rc, r.sig, (r.text + r.etext)[-700:])))
    try:
        with I.Image(path, offset=off) as img:
            try:
                pr = C.check(img)
                keys = sorted(set(p.key() for p in pr))
                if keys:
                    out["viol"].append(("pyext4 " + ",".join(keys), None,
                                        "independent checker: %s" % [repr(p) for p in pr[:5]]))
            except I.FormatError as e:
                out["viol"].append(("pyext4 F4:format-error", None, "independent checker: %s" % e))
            for k, what in check_geometry(img, cfg, conf, path, out):
                out["viol"].append((k, None, what))
            for k, what in check_backups(img, cfg, rng, out):
                out["viol"].append((k, None, what))
    except I.FormatError as e:
        out["viol"].append(("pyext4 F4:unparsable-superblock", None, "independent parse failed: %s" % e))
    if off:
        with open(path, "rb") as f:
            head = f.read(off)
        want = (OFFSET_FILL * (off // len(OFFSET_FILL) + 1))[:off]
        if head != want:
            first = next(i for i in range(off) if head[i] != want[i])
            out["viol"].append(("geometry offset-head-touched", None,
                                "byte %d before -E offset=%d was modified" % (first, off)))
        out["offset_checked"] = 1
    return out


def copy_data_extents(src, dst, skip):
    """dst = src[skip:], copying only the data extents (SEEK_DATA), holes stay holes"""
    a = os.open(src, os.O_RDONLY)
    b = os.open(dst, os.O_WRONLY | os.O_CREAT | os.O_TRUNC, 0o600)
    try:
        size = os.fstat(a).st_size
        os.ftruncate(b, size - skip)
        pos = skip
        while pos < size:
            try:
                start = os.lseek(a, pos, os.SEEK_DATA)
            except OSError:
                break
            try:
                end = os.lseek(a, start, os.SEEK_HOLE)
            except OSError:
                end = size
            p = start
            while p < end:
                buf = os.pread(a, min(end - p, 4 << 20), p)
                if not buf:
                    break
                os.pwrite(b, buf, p - skip)
                p += len(buf)
            pos = max(end, pos + 1)
    finally:
        os.close(a)
        os.close(b)


def make_device(path, cfg, fill=None):
    off = cfg.get("offset") or 0
    size = off + cfg["blocks"] * cfg["b"]
    with open(path, "wb") as f:
        if fill is not None:
            f.write(fill(size))
        else:
            if cfg.get("prefill") and size <= PREFILL_MAX + (2 << 20):
                left = size
                chunk = b"\xa5" * (1 << 20)
                while left > 0:
                    f.write(chunk[:min(left, len(chunk))])
                    left -= len(chunk)
                f.seek(0)
            if off:
                f.write((OFFSET_FILL * (off // len(OFFSET_FILL) + 1))[:off])
            f.truncate(size)
    return size


def run_case(cfg, conf, tools, env, path, treedir, rng):
    """mke2fs + judgement for one configuration; returns a small result dict"""
    make_device(path, cfg)
    argv = argv_for(cfg, tools["mke2fs"], path, treedir)
    r = run.run(argv, env=env, timeout=MKE2FS_TIMEOUT)
    res = {"rc": r.rc, "sig": r.sig, "timed_out": r.timed_out, "wall": round(r.wall, 2)}
    if r.timed_out:
        res["mke2fs_timeout"] = True
        return res
    if r.rc != 0 or r.sig:
        msg = [l for l in (r.etext or r.text).strip().split("\n") if l.strip()]
        res["refusal"] = norm_line(msg[-1], path) if msg else ""
        return res
    ev = evaluate(cfg, conf, path, tools["e2fsck"], env, rng)
    res.update(ev)
    return res


def _one(arg):
    kind, idx, cfg, ctx = arg
    conf = ctx["conf"]
    path = os.path.join(ctx["work"], "%s%d.img" % (kind, idx))
    rng = run.rng_for(ctx["seed"], "C07-eval", kind, idx)
    env = ctx["env"]
    tools = ctx["tools"]
    try:
        if kind == "c":
            res = run_case(cfg, conf, tools, env, path, ctx["trees"], rng)
        elif kind == "n":
            res = noaction_case(cfg, tools, env, path, ctx["trees"], rng)
        elif kind == "r":
            res = repro_case(cfg, tools, env, path, ctx["trees"])
        elif kind == "a":
            target = tuple(ctx["min"][idx])
            if target[0] == "repro":
                res = {"cured": repro_case(cfg, tools, env, path, ctx["trees"]).get("same") is not False}
            else:
                rr = run_case(cfg, conf, tools, env, path, ctx["trees"], rng)
                res = {"cured": not any((k, line) == target for k, line, _ in rr.get("viol", []))}
        else:
            res = minimise_case(cfg, conf, tools, env, path, ctx["trees"], rng, ctx["min"][idx])
    except Exception as e:        # a crash here is a harness problem, never a verdict
        import traceback
        res = {"harness": "%r\n%s" % (e, traceback.format_exc()[-1500:])}
    finally:
        for pth in (path, path + ".fs", path + ".first"):
            try:
                os.unlink(pth)
            except OSError:
                pass
    res["idx"] = idx
    res["kind"] = kind
    return res


def noaction_case(cfg, tools, env, path, treedir, rng):
    seedbytes = rng.getrandbits(64).to_bytes(8, "big")

    def fill(size):
        out = bytearray()
        ctr = 0
        while len(out) < size:
            out += hashlib.sha256(seedbytes + ctr.to_bytes(8, "big")).digest() * 128
            ctr += 1
        return bytes(out[:size])
    size = make_device(path, cfg, fill=fill)
    before = run.sha256_file(path)
    st0 = os.stat(path)
    r = run.run(argv_for(cfg, tools["mke2fs"], path, treedir, noaction=True), env=env,
                timeout=MKE2FS_TIMEOUT)
    after = run.sha256_file(path)
    st1 = os.stat(path)
    res = {"rc": r.rc, "sig": r.sig, "timed_out": r.timed_out, "size": size,
           "changed": before != after or st0.st_size != st1.st_size}
    if res["changed"]:
        with open(path, "rb") as f:
            data = f.read()
        ref = fill(size)
        n = min(len(data), len(ref))
        first = next((i for i in range(n) if data[i] != ref[i]), n)
        res["first_diff"] = first
        res["new_size"] = st1.st_size
    return res


def repro_case(cfg, tools, env, path, treedir):
    shas = []
    res = {}
    for k in range(2):
        make_device(path, cfg)
        r = run.run(argv_for(cfg, tools["mke2fs"], path, treedir), env=env, timeout=MKE2FS_TIMEOUT)
        res["rc"] = r.rc
        res["sig"] = r.sig
        if r.timed_out:
            res["timed_out"] = True
            return res
        if r.rc != 0 or r.sig:
            return res
        shas.append(run.sha256_file(path))
        if k == 0:
            keep = path + ".first"
            os.rename(path, keep)
            # the wall clock must not matter: let it move on by more than a second
            time.sleep(1.2)
    res["same"] = shas[0] == shas[1]
    if not res["same"]:
        # where do they differ?  (first differing 1 KiB unit)
        with open(path + ".first", "rb") as a, open(path, "rb") as b:
            pos = 0
            while True:
                x, y = a.read(1 << 20), b.read(1 << 20)
                if not x and not y:
                    break
                if x != y:
                    i = next(i for i in range(min(len(x), len(y))) if x[i] != y[i]) \
                        if len(x) == len(y) or x[:min(len(x), len(y))] != y[:min(len(x), len(y))] else min(len(x), len(y))
                    res["first_diff"] = pos + i
                    break
                pos += len(x)
    try:
        os.unlink(path + ".first")
    except OSError:
        pass
    return res


# ---------------------------------------------------------------------------------------------
# minimising a failing configuration (gives the violation key its "distinguishing options")

def _signature(res, kind):
    """the violation signatures of a result that belong to class `kind`"""
    if kind[0] == "repro":
        return {("repro", None)} if res.get("same") is False else set()
    sigs = set()
    for k, line, _ in res.get("viol", []):
        sigs.add((k, line))
    return sigs


def minimise_case(cfg, conf, tools, env, path, treedir, rng, target):
    """Greedy one-option-at-a-time reduction that keeps a violation of the class of `target`
    alive (e2fsck rejection: any e2fsck problem; repro: still not reproducible).  Returns the
    reduced configuration and, for e2fsck, the first problem line of the reduced case."""
    target = tuple(target)
    tries = 0
    last_line = [target[1]]

    def fails(c):
        nonlocal tries
        tries += 1
        if target[0] == "repro":
            r = repro_case(c, tools, env, path, treedir)
            return r.get("same") is False
        r = run_case(c, conf, tools, env, path, treedir, rng)
        for k, line, _ in r.get("viol", []):
            if k == target[0]:
                last_line[0] = line
                return True
        return False
    cur = dict(cfg)
    if not fails(cur):
        return {"min_cfg": cur, "confirmed": False, "tries": tries}
    line = last_line[0]
    # a small standard device first (keeps the later steps cheap), then one option at a time,
    # repeated until nothing more can be removed (an option may only become removable after
    # another one it depends on has gone)
    for rnd in range(4):
        steps = ([("blocks", None)] if cur.get("boundary") != "min" else []) + \
                [(k, FACTOR_VALUES[k][0]) for k in nondefault(cur)] + [("t", "ext4"), ("b", 1024)]
        changed = False
        for k, v in steps:
            if k == "blocks":
                trial = dict(cur)
                trial["size"] = "mid"
                trial["blocks"] = (64 << 20) // cur["b"]
                trial["boundary"] = "min"
            else:
                if cur.get(k) == v:
                    continue
                trial = dict(cur)
                trial[k] = v
                if k == "b" and cur.get("boundary") == "min":
                    trial["blocks"] = (64 << 20) // v
            if fails(trial):
                cur = trial
                line = last_line[0]
                changed = True
        if not changed:
            break
    return {"min_cfg": cur, "confirmed": True, "tries": tries, "line": line}


def distinguishing(cfg):
    out = []
    if cfg["t"] != "ext4":
        out.append("t=" + cfg["t"])
    if cfg["b"] != 1024:
        out.append("b=%d" % cfg["b"])
    for k in nondefault(cfg):
        v = cfg[k]
        if k.startswith("f:"):
            out.append(("" if v == "on" else "^") + k[2:])
        elif k in ("d",):
            out.append("d")
        else:
            out.append(k)
    if cfg.get("boundary") != "min":
        out.append("size")
    return " ".join(sorted(out)) or "(defaults)"


# ---------------------------------------------------------------------------------------------
# sampler

def sample_configs(seed, n, conf, tag="cfg"):
    """pairwise covering phase, then random fill.  Returns (configs, stats)."""
    rng = run.rng_for(seed, "C07-sampler", tag)
    uncovered = all_pairs()
    total_pairs = len(uncovered)
    queue = sorted(uncovered, key=repr)
    rng.shuffle(queue)
    qpos = 0
    configs = []
    seen = set()
    n_pair_phase = int(n * 0.6)
    ncand = 14 if n <= 1000 else 5
    guard = 0
    while len(configs) < n_pair_phase and uncovered and guard < n * 30:
        guard += 1
        forced = []
        while len(forced) < 3 and qpos < len(queue):
            if queue[qpos] in uncovered:
                forced.append(queue[qpos])
            qpos += 1
        if not forced:
            break
        best = None
        for c in range(ncand):
            cfg = random_cfg(rng, force=forced[c % len(forced)])
            cfg = finish_cfg(repair(cfg, rng, conf), conf, rng)
            ps = set(pairs_of(cfg))
            score = len(ps & uncovered)
            if best is None or score > best[0]:
                best = (score, cfg, ps)
        score, cfg, ps = best
        # a forced pair that does not survive steering is not chased again (queue moves on)
        key = option_tuple(cfg)
        if score == 0 or key in seen:
            continue
        seen.add(key)
        uncovered -= ps
        configs.append(cfg)
    pair_phase = len(configs)
    tries = 0
    while len(configs) < n and tries < n * 20:
        tries += 1
        cfg = finish_cfg(repair(random_cfg(rng), rng, conf), conf, rng)
        key = option_tuple(cfg)
        if key in seen:
            continue
        seen.add(key)
        uncovered -= set(pairs_of(cfg))
        configs.append(cfg)
    return configs, {"pairs_total": total_pairs, "pairs_not_attempted": len(uncovered),
                     "pairwise_phase_configs": pair_phase, "random_fill_configs": len(configs) - pair_phase}


def directed_configs(seed, conf):
    """Boundary motifs that the covering sampler only meets by luck; run in every tier.
    (a) sparse_super2: the short last group carries the second backup, so the 'keep the last group?'
        rule has to count superblock + descriptors + reserved GDT - sizes right below / at the rule;
    (b) RAID stride without flex_bg: a stride that puts the shifted bitmap start on the last block
        of a group."""
    rng = run.rng_for(seed, "C07-directed")
    out = []
    for b, ino, isz, k in ((1024, "i65536", 256, 3), (1024, "i65536", 256, 5), (1024, None, None, 4),
                           (4096, None, None, 50), (2048, "i16384", 256, 6)):
        for which in ("ov-1", "ov+49", "ov+50"):
            cfg = default_cfg()
            cfg.update({"t": "ext4", "b": b, "size": "tiny_last", "ino": ino, "I": isz,
                        "f:sparse_super2": "on", "_tiny": (k, which)})
            out.append(finish_cfg(cfg, conf, rng))
    for t in ("ext2", "ext3"):
        for b, g in ((1024, None), (1024, 2048), (4096, 2048), (2048, 4096), (4096, None)):
            cfg = default_cfg()
            cfg.update({"t": t, "b": b, "g": g, "size": "mid", "raid": "sEDGE"})
            out.append(finish_cfg(cfg, conf, rng))
    cfg = default_cfg()
    cfg.update({"t": "ext4", "b": 1024, "g": 1024, "size": "mid", "raid": "sEDGE", "f:flex_bg": "off"})
    out.append(finish_cfg(cfg, conf, rng))
    return [c for c in out if c]


def small_configs(seed, n, conf, tag, with_tree_every=3):
    """configurations on small devices for the -n and reproducibility streams"""
    rng = run.rng_for(seed, "C07-sampler", tag)
    out = []
    seen = set()
    guard = 0
    while len(out) < n and guard < n * 50:
        guard += 1
        cfg = random_cfg(rng, max_nondefault=rng.choice([1, 3, 5, 8]))
        cfg["size"] = rng.choice(["mid", "one_group", "tiny_last"])
        cfg["offset"] = cfg["offset"] if cfg["offset"] in (None, 4096) else None
        if cfg["g"] is None and cfg["b"] * (cfg["C"] or 1) > 1024:
            cfg["g"] = rng.choice([256, 512, 1024, 2048])
        if len(out) % with_tree_every == 0:
            cfg["d"] = rng.choice(TREES)
        cfg = finish_cfg(repair(cfg, rng, conf), conf, rng)
        if cfg["blocks"] * cfg["b"] > (96 << 20):
            continue
        if len(out) % with_tree_every == 0 and not cfg["d"]:
            continue
        key = option_tuple(cfg)
        if key in seen:
            continue
        seen.add(key)
        out.append(cfg)
    return out


def make_trees(seed, root):
    os.makedirs(root, exist_ok=True)
    for name in TREES:
        d = os.path.join(root, name)
        if os.path.exists(d):
            continue
        trees.make_tree(d, run.rng_for(seed, "C07-tree", name), profile="tiny" if name.startswith("tiny") else "std")
    # mke2fs -d copies the host atime into the image, so it must not move between two runs.
    # (1) no mtime in the future (the tree generator spreads mtimes over 19 years from 2014):
    # with relatime a file whose mtime >= atime gets a new atime on every read
    now = time.time()
    allp = []
    for dp, dns, fns in os.walk(root):
        allp += [os.path.join(dp, x) for x in dns + fns]
    for p in sorted(allp, key=lambda x: -x.count("/")) + [os.path.join(root, n) for n in TREES]:
        try:
            st = os.lstat(p)
            mt = trees.MTIME_BASE + (int(st.st_mtime) - trees.MTIME_BASE) % 300000000
            if mt > now - 86400:
                mt = trees.MTIME_BASE
            os.utime(p, (mt, mt), follow_symlinks=False)
        except (OSError, NotImplementedError):
            pass
    time.sleep(0.05)
    # (2) settle access times: the first read of a fresh file moves its atime (relatime:
    # atime <= ctime), later reads do not
    for dp, dns, fns in os.walk(root):
        os.listdir(dp)
        for fn in fns:
            p = os.path.join(dp, fn)
            try:
                if os.path.islink(p):
                    os.readlink(p)
                elif os.path.isfile(p):
                    with open(p, "rb") as f:
                        f.read(1)
            except OSError:
                pass


# ---------------------------------------------------------------------------------------------

def main(tier, seed, replay=None, scale=1.0):
    rep = report.Report("C07", tier, seed, "exploration",
                        rule="seeded covering sample of mke2fs option tuples (pairwise phase, then random "
                             "fill) x device sizes at geometry boundaries; non-trivial = configuration that "
                             "mke2fs accepted (exit 0) and that was judged by e2fsck -fn, the independent "
                             "checker, the independent geometry/feature parse and the backup placement rules; "
                             "distinct by the tuple of all option values + size class")
    b = build.get_build("plain")
    env = run.base_env(b)
    conf = mkgeom.parse_mke2fs_conf(env["MKE2FS_CONFIG"])
    with run.Work("C07") as w:
        treedir = w.sub("trees")
        # private copies of the (statically linked) tools and of mke2fs.conf: the shared build
        # directory may be pruned by a concurrent check run of another tree state
        tools = {}
        for t in ("mke2fs", "e2fsck"):
            tools[t] = os.path.join(w.sub("bin"), t)
            shutil.copy2(b.tool(t), tools[t])
        shutil.copy2(env["MKE2FS_CONFIG"], os.path.join(w.dir, "bin", "mke2fs.conf"))
        env["MKE2FS_CONFIG"] = os.path.join(w.dir, "bin", "mke2fs.conf")
        ctx = {"conf": conf, "work": w.dir, "seed": seed, "env": env, "tools": tools, "trees": treedir,
               "min": {}}
        if replay:
            case = json.load(open(os.path.join(replay, "case.json")))
            ctx["seed"] = case.get("seed", seed)
            make_trees(case["case"].get("tree_seed", ctx["seed"]), treedir)
            items = [(case["case"]["stream"], case["case"].get("idx", 0), case["case"]["cfg"], ctx)]
            stats = {}
            ncfg = nn = nr = 0
        else:
            make_trees(seed, treedir)
            ncfg, nn, nr = BUDGET[tier]
            ncfg = max(12, int(ncfg * scale))
            nn = max(4, int(nn * scale))
            nr = max(4, int(nr * scale))
            configs, stats = sample_configs(seed, ncfg, conf)
            dcfg = directed_configs(seed, conf)
            stats["directed_configs"] = len(dcfg)
            configs = configs + dcfg
            items = [("c", i, c, ctx) for i, c in enumerate(configs)]
            items += [("n", i, c, ctx) for i, c in enumerate(small_configs(seed, nn, conf, "noaction"))]
            items += [("r", i, c, ctx) for i, c in enumerate(small_configs(seed, nr, conf, "repro", 2))]
        # big devices first: keeps the tail of the pool short
        order = sorted(range(len(items)), key=lambda i: -(items[i][2]["blocks"] * items[i][2]["b"]))
        results = [None] * len(items)
        for i, r in zip(order, run.pmap(_one, [items[i] for i in order])):
            results[i] = r

        # ---- a timeout is inconclusive; an mke2fs that times out again on a re-run is a hang
        hung = [i for i, r in enumerate(results) if r.get("mke2fs_timeout") and items[i][0] == "c"][:8]
        for i, r2 in zip(hung, run.pmap(_one, [items[i] for i in hung]) if hung else []):
            if r2.get("mke2fs_timeout"):
                results[i]["hang"] = True
            else:
                results[i] = r2

        # ---- minimise failing configurations so that keys name the distinguishing options
        pending = []        # (item index, (key, line))
        for i, r in enumerate(results):
            if r.get("harness"):
                continue
            if r["kind"] == "c":
                for k, line, _ in r.get("viol", []):
                    if k == "e2fsck-fn-rejects":
                        pending.append((i, (k, line)))
            elif r["kind"] == "r" and r.get("same") is False:
                pending.append((i, ("repro", None)))
        minimal = {}        # item index -> distinguishing string
        MAXMIN, PER_TARGET = 60, 5
        per = {}
        batch, rest = [], []
        for i, target in pending:
            if per.get(target, 0) < PER_TARGET and len(batch) < MAXMIN:
                per[target] = per.get(target, 0) + 1
                batch.append((i, target))
            else:
                rest.append((i, target))
        mitems = []
        for j, (i, target) in enumerate(batch):
            ctx["min"][j] = list(target)
            mitems.append(("m", j, items[i][2], ctx))
        known_min = []      # (target, minimal cfg)
        for (i, target), mr in zip(batch, run.pmap(_one, mitems) if mitems else []):
            if mr.get("harness"):
                rep.harness_error("minimiser crashed: %s" % mr["harness"])
                continue
            rep.count("minimiser_runs", mr.get("tries", 0))
            if not mr.get("confirmed"):
                minimal[i] = "(not reproduced on re-run) " + distinguishing(items[i][2])
            else:
                minimal[i] = distinguishing(mr["min_cfg"])
                results[i]["min_cfg"] = mr["min_cfg"]
                results[i]["min_line"] = mr.get("line")
                if (target[0], minimal[i]) not in [(t[0], distinguishing(c)) for t, c, _ in known_min]:
                    known_min.append((target, mr["min_cfg"], mr.get("line")))
        # the remaining cases: attribute to an already minimised cause when the case contains
        # all of its options and removing one of them cures the case; else leave unminimised
        aitems, amap = [], []
        ctx["min"] = {}
        for i, target in rest:
            cfg = items[i][2]
            for t, mc, mline in known_min:
                if t[0] != target[0]:
                    continue
                opts = [k for k in nondefault(mc)] + [k for k in ("t", "b") if mc[k] != {"t": "ext4", "b": 1024}[k]]
                if not opts or any((cfg.get(k) is None) if k == "d" else (cfg.get(k) != mc[k]) for k in opts):
                    continue
                if mc.get("boundary") != "min" and cfg["size"] != mc["size"]:
                    continue
                k0 = sorted(nondefault(mc))[0] if nondefault(mc) else None
                if k0 is None:
                    continue
                trial = dict(cfg)
                trial[k0] = FACTOR_VALUES[k0][0]
                ctx["min"][len(aitems)] = list(target)
                aitems.append(("a", len(aitems), trial, ctx))
                amap.append((i, (distinguishing(mc), mline)))
                break
            else:
                minimal[i] = "(unminimised) " + distinguishing(cfg)
        for (i, dist), ar in zip(amap, run.pmap(_one, aitems) if aitems else []):
            if ar.get("harness"):
                rep.harness_error("attribution crashed: %s" % ar["harness"])
                continue
            rep.count("attribution_runs")
            if ar.get("cured"):
                minimal[i] = dist[0]
                results[i]["min_line"] = dist[1]
            else:
                minimal[i] = "(unminimised) " + distinguishing(items[i][2])

        # ---- book-keeping
        optcount = {}
        for i, (it, r) in enumerate(zip(items, results)):
            kind, idx, cfg, _ = it
            case = {"stream": kind, "idx": idx, "cfg": cfg, "tree_seed": ctx["seed"],
                    "argv": argv_for(cfg, "mke2fs", "IMG", "TREES", noaction=(kind == "n"))}
            if r.get("harness"):
                rep.harness_error("case %s%d crashed: %s" % (kind, idx, r["harness"]))
                rep.case(None)
                continue
            if r.get("hang"):
                rep.case(None)
                rep.violation("C07 mke2fs-hang", "mke2fs did not finish within %d s, twice: %s" %
                              (MKE2FS_TIMEOUT, " ".join(case["argv"])), replay=case)
                continue
            if r.get("timed_out") or r.get("timeout"):
                rep.note_inconclusive("timeout %s%d %s" % (kind, idx, " ".join(case["argv"][1:])))
                rep.case(None)
                continue
            if kind == "n":
                rep.count("noaction_runs")
                rep.count("noaction_exit0" if r["rc"] == 0 else "noaction_exit_nonzero")
                rep.case(("n|" + option_tuple(cfg)) if r["rc"] == 0 else None)
                if r.get("changed"):
                    rep.violation("C07 -n wrote", "mke2fs -n changed the target (first differing byte %s, size "
                                  "%s -> %s): %s" % (r.get("first_diff"), r.get("size"), r.get("new_size"),
                                                     " ".join(case["argv"])), replay=case)
                continue
            if kind == "r":
                if r.get("rc") != 0 or r.get("sig"):
                    rep.count("repro_refused")
                    rep.case(None)
                    continue
                rep.count("repro_pairs")
                if cfg.get("d"):
                    rep.count("repro_pairs_with_tree")
                rep.case("r|" + option_tuple(cfg))
                if not r["same"]:
                    case["min_cfg"] = r.get("min_cfg")
                    rep.violation("C07 not reproducible %s" % minimal.get(i, distinguishing(cfg)),
                                  "two identical mke2fs runs differ (first differing byte %s): %s" %
                                  (r.get("first_diff"), " ".join(case["argv"])), replay=case)
                continue
            # configuration stream
            accepted = r["rc"] == 0 and not r.get("sig")
            for k, _ in FACTORS:
                d = optcount.setdefault(k, {}).setdefault(str(cfg.get(k)), [0, 0])
                d[0] += 1
                d[1] += 1 if accepted else 0
            rep.add("size_boundaries_attempted", cfg["boundary"])
            if r.get("sig"):
                rep.count("mke2fs_killed_by_signal")
                rep.note_inconclusive("mke2fs died with signal %s: %s" % (r["sig"], " ".join(case["argv"][1:])))
                rep.case(None)
                continue
            if not accepted:
                rep.count("refused")
                rep.add("refusal_reasons", r.get("refusal", "")[:100])
                rep.case(None)
                continue
            rep.count("accepted")
            rep.case(option_tuple(cfg))
            rep.add("size_boundaries_accepted", cfg["boundary"])
            rep.add("size_classes_accepted", cfg["size"])
            rep.add("group_counts", r.get("groups", 0))
            rep.add("feature_sets", ",".join(r.get("features", [])))
            for k in ("backup_sb_checked", "backup_gdt_blocks_checked", "no_backup_checked",
                      "metabg_copies_checked", "last_group_dropped", "inodes_checked", "journal_checked",
                      "resize_checked", "owner_checked", "offset_checked", "auto_meta_bg",
                      "journal_dropped_small", "trim_model_mismatch", "resize_vs_auto_meta_bg"):
                if r.get(k):
                    rep.count(k, r[k])
            if r.get("model_exact_mismatch"):
                rep.count("geometry_model_inexact")
                rep.add("geometry_model_inexact_examples", r["model_exact_mismatch"][:120]
                        if len(rep.sets.get("geometry_model_inexact_examples", ())) < 5 else "...")
            if r.get("model_refused_but_accepted"):
                rep.count("model_refused_but_accepted")
            if cfg.get("d"):
                rep.count("accepted_with_tree")
            g = r.get("groups", 0)
            rep.extra["groups_min"] = min(rep.extra.get("groups_min", g), g)
            rep.extra["groups_max"] = max(rep.extra.get("groups_max", g), g)
            if len(rep.samples) < 5 and (idx % 7 == 0 or r.get("viol")):
                rep.sample({"argv": " ".join(case["argv"][1:]), "groups": g, "boundary": cfg["boundary"],
                            "features": r.get("features"), "violations": [v[0] for v in r.get("viol", [])]})
            seen = set()
            for k, line, what in r.get("viol", []):
                if k == "e2fsck-fn-rejects":
                    key = "C07 e2fsck-fn-rejects %s %s" % (minimal.get(i, distinguishing(cfg)),
                                                           r.get("min_line") or line)
                    case["min_cfg"] = r.get("min_cfg")
                    if r.get("min_cfg"):
                        case["min_argv"] = argv_for(r["min_cfg"], "mke2fs", "IMG", "TREES")
                else:
                    key = "C07 " + k
                if key in seen:
                    continue
                seen.add(key)
                rep.violation(key, "%s  [%s]" % (what, " ".join(case["argv"][1:])), replay=case)
        if not replay:
            acc_pairs = set()
            for it, r in zip(items, results):
                if it[0] == "c" and r.get("rc") == 0 and not r.get("sig"):
                    acc_pairs.update(pairs_of(it[2]))
            stats["pairs_covered_by_accepted"] = len(acc_pairs)
            for k, v in stats.items():
                rep.count(k, v)
            rep.extra["option_value_counts_attempted_accepted"] = optcount
    rep.assumptions = ["sparse regular files stand in for block devices (no topology ioctls, no discard)",
                       "device sizes up to 64 GiB; group counts up to %d; inode counts up to about %d" %
                       (MAX_GROUPS, MAX_INODES),
                       "the kept/dropped decision for a short last group is judged with a band: dropping is "
                       "wrong only if the group had room for its bookkeeping + 50 blocks, keeping only if it "
                       "cannot hold its bookkeeping",
                       "inode count judged with the per-group rounding band (down to a multiple of 8, up to a "
                       "full inode-table block)",
                       "casefold not exercised; external journals not exercised"]
    return rep.finish()
