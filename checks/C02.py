"""C02 - a clean `e2fsck -fn` verdict implies a consistent filesystem, judged by the
independent checker vf/pyext4/check.py (five invariant families).

stream a: corrupt a consistent corpus image; keep the case only if pyext4 confirms that an
          invariant is now broken; then `e2fsck -fn` must exit non-zero.
stream b: every image on which `e2fsck -fn` exits 0 after a repairing run must pass pyext4.
"""
import json
import os

from vf import build, run, report, zoo, corrupt, fsckpair

UNIVERSE_A = 40000
UNIVERSE_B = 60000        # same universe as C01 (tag C01-v1)
BUDGET = {"quick": (2000, 1000), "thorough": (UNIVERSE_A, UNIVERSE_B)}    # thorough = both universes, complete

_UA = _UB = None


def _univ(workdir, names):
    global _UA, _UB
    if _UA is None:
        imgs = {n: zoo.corpus_image(n, workdir) for n in names}
        _UA = corrupt.Universe("C02-v1", imgs, UNIVERSE_A)
        _UB = corrupt.Universe("C01-v1", imgs, UNIVERSE_B)
    return _UA, _UB


def _dstr(descr):
    """the specific (1-minimal) input, as in C01's keys"""
    return "; ".join("%s.%s %s %s" % tuple(d) for d in descr)


def _one(arg):
    workdir, names, e2fsck, env, stream, cid = arg
    ua, ub = _univ(workdir, names)
    u = ua if stream == "a" else ub
    case = u.case(cid)
    img = os.path.join(workdir, "%s%d.img" % (stream, cid))
    fsckpair.materialise(case, u.paths[case.image], img)
    out = {"stream": stream, "cid": cid, "cls": case.cls, "image": case.image, "descr": case.descr}
    try:
        if stream == "a":
            keys, det = fsckpair.pycheck(img)
            out["py"] = keys
            out["pydet"] = det
            if keys and "ORACLE-CRASH" not in keys:
                r = run.run([e2fsck, "-fn", img], env=env, timeout=180)
                out["rc"] = r.rc
                out["sig"] = r.sig
                out["timed_out"] = r.timed_out
                out["out"] = r.text[-500:]
        else:
            r = fsckpair.repair_pair(e2fsck, env, img, workdir, "b%d" % cid)
            out["rc1"], out["rc2"], out["timed_out"] = r["rc1"], r["rc2"], r["timed_out"]
            out["codes1"] = r["codes1"]
            if r["rc2"] == 0:
                keys, det = fsckpair.pycheck(img)
                out["py"] = keys
                out["pydet"] = det
        if out.get("py") and "ORACLE-CRASH" not in out["py"] and (out.get("rc") == 0 or out.get("rc2") == 0):
            # reduce to a 1-minimal set of corruptions that e2fsck still accepts wrongly
            def still(c2):
                fsckpair.materialise(c2, u.paths[c2.image], img)
                if stream == "a":
                    k2, _ = fsckpair.pycheck(img)
                    if not k2 or "ORACLE-CRASH" in k2:
                        return False
                    return run.run([e2fsck, "-fn", img], env=env, timeout=180).rc == 0
                r2 = fsckpair.repair_pair(e2fsck, env, img, workdir, "m%d" % cid)
                if r2["rc2"] != 0:
                    return False
                k2, _ = fsckpair.pycheck(img)
                return bool(k2) and "ORACLE-CRASH" not in k2
            if len(case.op_patches) > 1:
                small = fsckpair.minimise_case(u, case, "all", still)
                if small is not case and still(small):
                    case = small
                    out["cls"], out["descr"] = case.cls, case.descr
                    out["py"], out["pydet"] = fsckpair.pycheck(img)
            out["patches"] = [[o, b.hex()] for o, b in case.patches]
    finally:
        try:
            os.unlink(img)
        except OSError:
            pass
    return out


def main(tier, seed, replay=None, scale=1.0):
    rep = report.Report("C02", tier, seed, "exploration",
                        rule="stream a: case id -> structured corruption of a corpus image, kept iff the "
                             "independent checker reports a broken invariant (non-trivial; distinct by the "
                             "set of broken-invariant codes + corrupted object kinds), then e2fsck -fn must "
                             "exit != 0.  stream b: post-repair images that e2fsck -fn accepts must pass the "
                             "independent checker (non-trivial = repair changed something)")
    b = build.get_build("plain")
    env = run.base_env(b)
    names = zoo.corpus_names("thorough")
    with run.Work("C02") as w:
        for nme in names:
            zoo.corpus_image(nme, w.dir)
        if replay:
            case = json.load(open(os.path.join(replay, "case.json")))["case"]
            todo = [(case["stream"], case["cid"])]
        else:
            na, nb = BUDGET[tier]
            na = min(UNIVERSE_A, max(40, int(na * scale)))
            nb = min(UNIVERSE_B, max(20, int(nb * scale)))
            rng = run.rng_for(seed, "C02-ids")
            ida = list(range(UNIVERSE_A)) if na >= UNIVERSE_A else sorted(rng.sample(range(UNIVERSE_A), na))
            idb = list(range(UNIVERSE_B)) if nb >= UNIVERSE_B else sorted(rng.sample(range(UNIVERSE_B), nb))
            todo = [("a", i) for i in ida] + [("b", i) for i in idb]
        items = [(w.dir, names, b.tool("e2fsck"), env, s, cid) for s, cid in todo]
        results = run.pmap(_one, items, chunksize=8)
        for r in results:
            py = r.get("py")
            kinds = "+".join(sorted(set(k.split(".")[0] for k in r["cls"].split("+"))))
            if py and "ORACLE-CRASH" in py:
                rep.harness_error("oracle crashed on %s%d: %s" % (r["stream"], r["cid"], r.get("pydet")))
                rep.case(None)
                continue
            if r.get("timed_out"):
                rep.note_inconclusive("timeout %s%d" % (r["stream"], r["cid"]))
                rep.case(None)
                continue
            if r["stream"] == "a":
                if not py:
                    rep.case(None)
                    rep.count("a_invariants_intact")
                    continue
                rep.case("a|%s|%s" % (",".join(py), kinds))
                rep.count("a_invariant_broken")
                for k in py:
                    rep.add("broken_invariants", k)
                    rep.add("families", k.split(":")[0])
                if len(rep.samples) < 3:
                    rep.sample({"stream": "a", "cid": r["cid"], "image": r["image"],
                                "corruption": r["descr"], "pyext4": r["pydet"][:3], "e2fsck_fn_exit": r.get("rc")})
                if r.get("sig"):
                    rep.count("a_e2fsck_signal")
                    continue
                if r.get("rc") == 0:
                    fams = ",".join(sorted(set(k.split(":")[0] for k in py)))
                    key = "C02a e2fsck-fn-accepts %s: %s -> %s" % (r["image"], _dstr(r["descr"]), fams)
                    rep.violation(key, "e2fsck -fn exits 0 on %s cid %d %s but the independent checker "
                                  "finds: %s" % (r["image"], r["cid"], r["descr"], r["pydet"]),
                                  replay={"stream": "a", "cid": r["cid"], "image": r["image"],
                                          "descr": r["descr"], "patches": r.get("patches")})
                else:
                    rep.count("a_detected_by_e2fsck")
            else:
                if r.get("rc2") != 0:
                    rep.case(None)
                    rep.count("b_not_clean_after_repair")
                    continue
                rep.case(("b|" + kinds) if r.get("codes1") else None)
                rep.count("b_clean_after_repair")
                if py:
                    fams = ",".join(sorted(set(k.split(":")[0] for k in py)))
                    key = "C02b post-repair-accepted %s: %s -> %s" % (r["image"], _dstr(r["descr"]), fams)
                    rep.violation(key, "after e2fsck -fy (exit %s) e2fsck -fn exits 0 on %s cid %d %s but "
                                  "the independent checker finds: %s" %
                                  (r["rc1"], r["image"], r["cid"], r["descr"], r["pydet"]),
                                  replay={"stream": "b", "cid": r["cid"], "image": r["image"],
                                          "descr": r["descr"], "patches": r.get("patches")})
    rep.assumptions = ["oracle: vf/pyext4/check.py, calibrated to be silent on the corpus and on the "
                       "e2fsck-accepted images of the repository's tests/*/image.gz",
                       "only the five invariant families of the statement are judged"]
    return rep.finish()
