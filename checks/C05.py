"""C05 - e2fsck never alters healthy files.

a) every corpus image x repair mode (-fp, -fy, -fyD, -fy -E bmap2extent, -fy -E fixes_only):
   exit 0 or 1, tree digest (independent reader) unchanged, consistent afterwards.
a2) generated directories around htree boundaries with hash-colliding names, same modes.
b) corruptions confined to allocation summaries and checksum fields, then -fy: consistency
   is restored (exit 0/1, -fn clean, independent checker clean) and no file changes.
"""
import json
import os
import shutil

from vf import build, run, report, zoo, corrupt, fsckpair
from vf.pyext4 import image as I, tree as T, dirhash

UNIVERSE_B = 30000
BUDGET = {"quick": (40, 12, 1500), "thorough": (10 ** 6, 400, UNIVERSE_B)}
MODES = [("-fp",), ("-fy",), ("-fyD",), ("-fy", "-E", "bmap2extent"), ("-fy", "-E", "fixes_only")]

_U = None


def _univ(workdir, names):
    global _U
    if _U is None:
        imgs = {n: zoo.corpus_image(n, workdir) for n in names}
        _U = corrupt.Universe("C05-v1", imgs, UNIVERSE_B)
    return _U


def digest(path):
    with I.Image(path) as img:
        return T.tree_digest(img)


def first_problem(text):
    import re
    for l in text.split("\n"):
        if l and not l.startswith(("Pass ", "e2fsck ")) and "WARNING" not in l:
            return re.sub(r"\d+", "N", l)[:70]
    return ""


def judge_after(e2fsck, env, img, before, out, label):
    """after a repairing run: -fn clean, pycheck clean, digest unchanged"""
    r = run.run([e2fsck, "-fn", img], env=env, timeout=300)
    if r.rc != 0:
        out["viol"].append(("%s then e2fsck-fn %s" % (label, first_problem(r.text)), r.text[-500:]))
        return
    keys, det = fsckpair.pycheck(img)
    if keys:
        out["viol"].append(("%s then pyext4 %s" % (label, ",".join(keys)), str(det)))
    try:
        after = digest(img)
    except I.FormatError as e:
        out["viol"].append(("%s tree-unreadable" % label, str(e)))
        return
    d = T.diff_digests(before, after)
    if d:
        attrs = sorted(set(x.split(": ")[1].split(" ")[0] if ": " in x else x.split(" ")[0] for x in d))
        out["viol"].append(("%s tree-differs %s" % (label, ",".join(attrs)[:60]), "; ".join(d[:6])))


def _one(arg):
    kind, workdir, names, e2fsck, env, item = arg
    out = {"kind": kind, "item": item if kind != "b" else item, "viol": [], "nontrivial": None}
    img = os.path.join(workdir, "%s-%s.img" % (kind, str(item).replace("/", "_").replace(" ", "")[:60]))
    try:
        if kind == "a":
            name, mode = item
            shutil.copyfile(zoo.corpus_image(name, workdir), img)
            before = digest(img)
            h0 = run.sha256_file(img)
            r = run.run([e2fsck] + list(mode) + [img], env=env, timeout=300)
            label = "a %s" % " ".join(mode)
            out["rc"] = r.rc
            if r.timed_out:
                out["timeout"] = True
                return out
            if r.rc not in (0, 1):
                out["viol"].append(("%s exit %s%s" % (label, r.rc, " signal %s" % r.sig if r.sig else ""),
                                    "on %s: %s" % (name, r.text[-400:])))
                return out
            changed = run.sha256_file(img) != h0
            out["nontrivial"] = "a|%s|%s" % (name, " ".join(mode)) if changed else None
            out["changed"] = changed
            judge_after(e2fsck, env, img, before, out, label)
            out["sample"] = {"image": name, "mode": " ".join(mode), "exit": r.rc, "image_modified": changed,
                             "objects_in_tree": len(before)}
        elif kind == "a2":
            spec_name, nentries, long_names, mode, seed = item
            base = zoo.corpus_image(spec_name, workdir)
            shutil.copyfile(base, img)
            debugfs = os.path.join(os.path.dirname(os.path.dirname(e2fsck)), "debugfs", "debugfs")
            with I.Image(img) as im:
                hv = im.sb.s_def_hash_version + (3 if im.sb.s_flags & 2 else 0)
                hseed = im.sb.s_hash_seed
            rng = run.rng_for(seed, "C05a2", spec_name, nentries)
            names_ = set()
            # a third of the names collide in the major hash with an earlier one
            byhash = {}
            tries = 0
            while len(names_) < nentries and tries < nentries * 400:
                tries += 1
                ln = rng.choice([200, 240, 255]) if long_names else rng.randint(1, 40)
                nm = "".join(rng.choice("abcdefghijklmnopqrstuvwxyz0123456789_") for _ in range(ln))
                if nm in names_:
                    continue
                names_.add(nm)
            script = ["mkdir /h"] + ["write /dev/null /h/%s" % n for n in sorted(names_)]
            sf = img + ".cmd"
            with open(sf, "w") as f:
                f.write("\n".join(script) + "\n")
            r = run.run([debugfs, "-w", "-f", sf, img], env=env, timeout=600)
            os.unlink(sf)
            r0 = run.run([e2fsck, "-fn", img], env=env, timeout=300)
            if r0.rc != 0:
                # the producer (debugfs) left an inconsistent fs: not this check's business
                out["skipped"] = "generated directory image not clean: " + first_problem(r0.text)
                return out
            before = digest(img)
            label = "a2 %s" % " ".join(mode)
            r = run.run([e2fsck] + list(mode) + [img], env=env, timeout=300)
            if r.rc not in (0, 1):
                out["viol"].append(("%s exit %s" % (label, r.rc), r.text[-400:]))
                return out
            out["nontrivial"] = "a2|%s|%d|%s" % (spec_name, nentries, " ".join(mode))
            judge_after(e2fsck, env, img, before, out, label)
            # a second -D pass after the first must also keep everything
            if "-fyD" in mode:
                r = run.run([e2fsck, "-fyD", img], env=env, timeout=300)
                if r.rc not in (0, 1):
                    out["viol"].append(("a2 second -fyD exit %s" % r.rc, r.text[-400:]))
                else:
                    judge_after(e2fsck, env, img, before, out, "a2 second -fyD")
        else:
            u = _univ(workdir, names)
            case = u.case(item, "summary")
            base = u.paths[case.image]
            before = digest(base)
            fsckpair.materialise(case, base, img)
            out["cls"] = case.cls
            out["descr"] = case.descr
            out["image"] = case.image
            r = run.run([e2fsck, "-fy", img], env=env, timeout=300)
            out["rc"] = r.rc
            if r.timed_out:
                out["timeout"] = True
                return out
            label = "b -fy"
            kinds = "+".join(sorted(set(k for k in case.cls.split("+"))))
            if r.rc not in (0, 1):
                ngroups = u.info(case.image).groups
                if "sb.s_checksum" in case.cls:
                    with I.Image(u.paths[case.image]) as bi:
                        default_bpg = bi.sb.s_blocks_per_group == 8 * bi.bs
                    why = ("single group" if ngroups == 1 else
                           ("non-default blocks per group" if not default_bpg else "default geometry"))
                    k = ("b -fy exit %s [superblock checksum field damaged; e2fsck finds no backup "
                         "superblock by itself: %s]" % (r.rc, why))
                else:
                    k = "b -fy exit %s [%s]" % (r.rc, kinds)
                out["viol"].append((k, "cid %d on %s %s: %s" % (item, case.image, case.descr, r.text[-400:])))
                return out
            out["nontrivial"] = "b|" + case.cls if r.rc == 1 else None
            o2 = {"viol": []}
            judge_after(e2fsck, env, img, before, o2, label)
            if o2["viol"] and len(case.op_patches) > 1:
                want = o2["viol"][0][0]

                def still(c2):
                    fsckpair.materialise(c2, base, img)
                    rr = run.run([e2fsck, "-fy", img], env=env, timeout=300)
                    if rr.rc not in (0, 1):
                        return False
                    o3 = {"viol": []}
                    judge_after(e2fsck, env, img, before, o3, label)
                    return bool(o3["viol"]) and o3["viol"][0][0] == want
                small = fsckpair.minimise_case(u, case, "summary", still)
                if small is not case:
                    case = small
                    out["descr"] = case.descr
                    kinds = "+".join(sorted(set(k for k in case.cls.split("+"))))
            for k, w in o2["viol"]:
                out["viol"].append(("%s [%s]" % (k, kinds), "cid %d %s: %s" % (item, case.descr, w)))
            if out["viol"]:
                out["patches"] = [[o, b.hex()] for o, b in case.patches]
    finally:
        try:
            os.unlink(img)
        except OSError:
            pass
    return out


def main(tier, seed, replay=None, scale=1.0):
    rep = report.Report("C05", tier, seed, "exploration",
                        rule="a: corpus image x repair mode (non-trivial = e2fsck modified the image); a2: "
                             "generated directory of N entries x mode; b: case id in [0,%d) -> 1-8 corruptions "
                             "confined to bitmaps, group/superblock counts, UNINIT/ZEROED flags and checksum "
                             "fields, then e2fsck -fy (non-trivial = it reported fixing something); oracle: tree "
                             "digest by the independent reader + e2fsck -fn + independent checker" % UNIVERSE_B)
    b = build.get_build("plain")
    env = run.base_env(b)
    names = zoo.corpus_names("thorough")
    e2fsck = b.tool("e2fsck")
    with run.Work("C05") as w:
        for n in names:
            zoo.corpus_image(n, w.dir)
        items = []
        if replay:
            c = json.load(open(os.path.join(replay, "case.json")))["case"]
            items = [(c["kind"], w.dir, names, e2fsck, env, tuple(c["item"]) if c["kind"] != "b" else c["item"])]
            items = [(k, wd, nm, e, en, (it[0], tuple(it[1])) if k == "a" else
                      ((it[0], it[1], it[2], tuple(it[3]), it[4]) if k == "a2" else it))
                     for k, wd, nm, e, en, it in items]
        else:
            na, na2, nb = BUDGET[tier]
            rng = run.rng_for(seed, "C05")
            imgs = zoo.corpus_names("quick" if tier == "quick" else "thorough")
            imgs = list(imgs)
            if tier == "quick":
                # every image of the corpus appears in thorough; quick rotates through a slice
                allimgs = list(names)
                rng.shuffle(allimgs)
                imgs = sorted(set(imgs[:6] + allimgs[:max(2, int(8 * scale))]))
            # always: > 32768 contiguous blocks; xattr blocks holding empty values (both kept out of
            # the corruption universes)
            imgs = sorted(set(list(imgs) + ["ext4_bigextent", "ext4_i128_emptyxattr", "ext4_casefold_mixed"]))
            for n in imgs:
                for m in MODES:
                    items.append(("a", w.dir, names, e2fsck, env, (n, m)))
            sizes = [1, 2, 3, 5, 9, 13, 14, 15, 16, 30, 60, 61, 90, 120, 121, 200, 340, 341, 500, 800]
            na2 = max(2, int(na2 * scale))
            for k in range(na2):
                spec = rng.choice(["ext4_empty", "ext4_1k", "ext4_4k", "ext3_1k", "ext4_nocsum", "ext4_largedir",
                                   "ext4_nodirindex", "ext4_nofiletype", "ext4_inline"])
                n = rng.choice(sizes)
                longn = rng.random() < 0.5
                if longn:
                    n = min(n, 400)
                items.append(("a2", w.dir, names, e2fsck, env, (spec, n, longn, rng.choice(MODES[1:3] + [MODES[2]]),
                                                               seed * 1000 + k)))
            nb = min(UNIVERSE_B, max(30, int(nb * scale)))
            ids = list(range(UNIVERSE_B)) if nb >= UNIVERSE_B else sorted(rng.sample(range(UNIVERSE_B), nb))
            items += [("b", w.dir, names, e2fsck, env, i) for i in ids]
        results = run.pmap(_one, items, chunksize=4)
        for it, r in zip(items, results):
            if r.get("timeout"):
                rep.note_inconclusive("timeout %s %s" % (r["kind"], r["item"]))
                rep.case(None)
                continue
            if r.get("skipped"):
                rep.count("a2_skipped_producer_inconsistent")
                rep.add("a2_skip_reasons", r["skipped"])
                rep.case(None)
                continue
            rep.case(r.get("nontrivial"))
            rep.count("cases_" + r["kind"])
            if r["kind"] == "a":
                rep.count("mode " + " ".join(r["item"][1]))
                if r.get("changed"):
                    rep.count("a_image_modified_by_e2fsck")
                if r.get("sample") and r.get("changed"):
                    rep.sample(r["sample"])
            if r["kind"] == "b":
                rep.count("b_exit_%s" % r.get("rc"))
                for k in (r.get("cls") or "").split("+"):
                    rep.add("b_corrupted_fields", k)
                if r.get("nontrivial") and len(rep.samples) < 6:
                    rep.sample({"cid": r["item"], "image": r.get("image"), "corruption": r.get("descr"),
                                "fy_exit": r.get("rc")})
            seen = set()
            for k, what in r["viol"]:
                key = "C05 " + k
                if key in seen:
                    continue
                seen.add(key)
                item = r["item"]
                rep.violation(key, what, replay={"kind": r["kind"], "item": item, "descr": r.get("descr"),
                                                 "patches": r.get("patches")})
    rep.assumptions = ["timestamps are not part of the digest (the statement does not list them)",
                       "base images: committed corpus; a2 directories are produced by the tree's debugfs and "
                       "only used when e2fsck -fn accepts them"]
    return rep.finish()
