"""C09 - file data written through libext2fs reads back exactly.

Random histories of ext2fs_file_* / ext2fs_punch / ext2fs_fallocate calls are executed by
drivers/drv_file.c on filesystems made by the tree's own mke2fs; every read, the final
content of every file as read by the independent reader, and the consistency of the result
are judged against a sparse byte-array model.  Half of the histories run under ASan.
"""
import json
import os
import zlib

from vf import build, run, report, fsckpair
from vf.pyext4 import image as I

BUDGET = {"quick": 400, "thorough": 10000}
PAGE = 4096

CONFIGS = [
    # name, mke2fs args, size_kb, file kind
    ("ext4_1k", "-t ext4 -b 1024 -O ^has_journal", 16384, "e"),
    ("ext4_4k", "-t ext4 -b 4096 -O ^has_journal", 32768, "e"),
    ("ext2_1k", "-t ext2 -b 1024", 16384, "b"),
    ("ext2_4k", "-t ext2 -b 4096", 32768, "b"),
    ("ext4_1k_blockmapfile", "-t ext4 -b 1024 -O ^has_journal", 16384, "b"),
    ("bigalloc4_1k", "-t ext4 -b 1024 -O bigalloc,^has_journal -C 4096", 32768, "e"),
    ("bigalloc16_4k", "-t ext4 -b 4096 -O bigalloc,^has_journal -C 65536", 65536, "e"),
    ("inline_1k", "-t ext4 -b 1024 -I 256 -O inline_data,^has_journal", 16384, "i"),
    ("inline_4k_i512", "-t ext4 -b 4096 -I 512 -O inline_data,^has_journal", 32768, "i"),
    ("ext4_1k_small_full", "-t ext4 -b 1024 -O ^has_journal,^resize_inode -N 32 -m 0", 600, "e"),
    ("ext2_1k_small_full", "-t ext2 -b 1024 -O ^resize_inode -N 32 -m 0", 600, "b"),
    ("ext4_nocsum_1k", "-t ext4 -b 1024 -O ^has_journal,^metadata_csum,^64bit", 16384, "e"),
]


def pattern(seed, n):
    return bytes(((seed * 131 + k * 7 + (k >> 3) + (k >> 11)) & 0xFF) for k in range(n))


class FileModel:
    def __init__(self):
        self.size = 0
        self.pages = {}
        self.dead = False

    def _page(self, i, create=False):
        p = self.pages.get(i)
        if p is None and create:
            p = bytearray(PAGE)
            self.pages[i] = p
        return p

    def write(self, off, data):
        pos = 0
        n = len(data)
        while pos < n:
            pi, po = divmod(off + pos, PAGE)
            k = min(PAGE - po, n - pos)
            self._page(pi, True)[po:po + k] = data[pos:pos + k]
            pos += k
        self.size = max(self.size, off + n)

    def read(self, off, n):
        if off >= self.size:
            return b""
        n = min(n, self.size - off)
        out = bytearray(n)
        pos = 0
        while pos < n:
            pi, po = divmod(off + pos, PAGE)
            k = min(PAGE - po, n - pos)
            p = self.pages.get(pi)
            if p is not None:
                out[pos:pos + k] = p[po:po + k]
            pos += k
        return bytes(out)

    def zero(self, a, b):
        """zero bytes [a, b)"""
        b = min(b, self.size) if b is not None else self.size
        if a >= b:
            return
        pos = a
        while pos < b:
            pi, po = divmod(pos, PAGE)
            k = min(PAGE - po, b - pos)
            p = self.pages.get(pi)
            if p is not None:
                if po == 0 and k == PAGE:
                    del self.pages[pi]
                else:
                    p[po:po + k] = bytes(k)
            pos += k

    def truncate(self, n):
        if n < self.size:
            old = self.size
            self.size = old
            self.zero(n, old)
            for pi in [p for p in self.pages if p * PAGE >= n]:
                del self.pages[pi]
        self.size = n


def gen_history(rng, cfg):
    name, margs, kb, kind = cfg
    bs = 4096 if "-b 4096" in margs else 1024
    cluster = bs
    if "-C 4096" in margs:
        cluster = 4096
    if "-C 65536" in margs:
        cluster = 65536
    small = kb < 2000
    nfiles = rng.choice([3, 4, 5])
    per = bs // 4
    bounds = [0, 1, bs - 1, bs, bs + 1, cluster - 1, cluster, cluster + 1, 2 * cluster, 12 * bs - 1, 12 * bs,
              12 * bs + 1, (12 + per) * bs - 1, (12 + per) * bs, (12 + per) * bs + 1, 60, 61, 100, 157, 200]
    huge = (not small) and rng.random() < 0.12
    if huge and bs == 1024:
        bounds += [(12 + per + per * per) * bs - 1, (12 + per + per * per) * bs + 3]   # tind (1k)
    maxoff = (70 << 20) if huge else ((2 << 20) if not small else (300 << 10))
    if kind == "i":
        bounds += [59, 60, 61, 62, 120, 150, 160, 161, 200, 250, 300, 1000]
        maxoff = 64 << 10
    ops = []          # (line, expect-fn or None)
    files = [FileModel() for _ in range(nfiles)]     # only .size is maintained here (approximate)
    inos = [None] * nfiles
    lines = ["open IMG"]
    exp = [("r open 0", None)]
    stats = {"ops": {}, "unaligned_overwrite": 0, "mapping_changing": 0}
    for f in range(nfiles):
        lines.append("mkfile f%d %s" % (f, kind))
        exp.append(("mkfile", f))
    opened = [False] * nfiles

    def emit(line, e):
        lines.append(line)
        exp.append(e)

    def ensure_open(f):
        if not opened[f]:
            emit("fopen %d INO%d 1" % (f, f), ("r fopen 0", None))
            opened[f] = True

    def ensure_closed(f):
        if opened[f]:
            emit("fclose %d" % f, ("fclose", f))
            opened[f] = False

    def pick_off():
        r = rng.random()
        if r < 0.55:
            base = rng.choice(bounds)
            return max(0, base + rng.choice([0, 0, 0, -1, 1, -bs, bs, 7, cluster]))
        if r < 0.8:
            return rng.randrange(0, min(maxoff, 200 * 1024))
        return rng.randrange(0, maxoff)

    def pick_len():
        r = rng.random()
        if r < 0.3:
            return rng.choice([1, 2, 7, 60, 61, 100, bs - 1, bs, bs + 1])
        if r < 0.7:
            return rng.randrange(1, 3 * bs)
        if r < 0.93:
            return rng.randrange(1, 20 * bs)
        return rng.randrange(1, 300 * 1024 if not small else 40 * 1024)

    nops = rng.randrange(50, 300)
    seedctr = rng.randrange(1, 1 << 20)
    if kind == "e" and bs == 1024 and cluster == bs and not small and rng.random() < 0.15:
        # motif "leaf edges": more extents than one 84-entry leaf holds - single written blocks,
        # most of them followed (logically and physically) by a 2-block preallocation, physical
        # contiguity between the groups broken by a second file - and then writes into the first
        # block of the preallocations, which merge it into the extent in front (possibly the last
        # entry of the previous leaf)
        A, B = 0, 1
        ngrp = rng.randrange(95, 140)
        emit("fopen %d INO%d 1" % (A, A), ("r fopen 0", None))
        emit("trunc %d %d" % (A, (3 * ngrp + 5) * bs), None)
        emit("fclose %d" % A, ("fclose", A))
        files[A].size = (3 * ngrp + 5) * bs
        pre = []
        for i in range(ngrp):
            seedctr += 1
            emit("fopen %d INO%d 1" % (A, A), ("r fopen 0", None))
            emit("seek %d %d 0" % (A, 3 * i * bs), None)
            emit("write %d %d %d" % (A, bs, seedctr), None)
            emit("fclose %d" % A, ("fclose", A))
            if rng.random() < 0.78:
                emit("falloc INO%d 4 %d 2" % (A, 3 * i + 1), None)
                pre.append(3 * i + 1)
            seedctr += 1
            emit("fopen %d INO%d 1" % (B, B), ("r fopen 0", None))
            emit("seek %d %d 0" % (B, i * bs), None)
            emit("write %d %d %d" % (B, bs, seedctr), None)
            emit("fclose %d" % B, ("fclose", B))
        files[B].size = ngrp * bs
        rng.shuffle(pre)
        emit("fopen %d INO%d 1" % (A, A), ("r fopen 0", None))
        for lb in pre[:int(len(pre) * rng.choice([0.5, 0.9, 1.0]))]:
            seedctr += 1
            emit("seek %d %d 0" % (A, lb * bs), None)
            emit("write %d %d %d" % (A, rng.choice([bs, bs, bs // 2, 7]), seedctr), None)
        emit("seek %d 0 0" % A, None)
        for _k in range((3 * ngrp + 5) // 40 + 1):
            emit("read %d %d" % (A, 40 * bs), None)
        emit("fclose %d" % A, ("fclose", A))
        stats["ops"]["leaf-edges"] = 1
        stats["mapping_changing"] += len(pre)
        stats["unaligned_overwrite"] += 1
        nops = rng.randrange(20, 80)
    for _ in range(nops):
        live = [k for k in range(nfiles) if not files[k].dead]
        if not live:
            break
        f = rng.choice(live)
        m = files[f]
        r = rng.random()
        if r < 0.05:
            # motif: the handle's block buffer holds the block that contains the new end of
            # file; shrink inside that block, then grow again through the same handle
            op = "shrink-regrow"
            ensure_open(f)
            blk = rng.choice([0, 1, 11, 12, rng.randrange(0, 40)])
            if kind == "i":
                blk = 0
            ln = rng.choice([bs, bs - 1, bs // 2, bs + 7, 2 * bs])
            seedctr += 1
            emit("seek %d %d 0" % (f, blk * bs), None)
            emit("write %d %d %d" % (f, ln, seedctr), None)
            last_blk = (blk * bs + ln - 1) // bs
            if rng.random() < 0.4:
                # make the buffer hold that block by reading from it instead
                emit("seek %d %d 0" % (f, last_blk * bs + rng.randrange(bs // 2)), None)
                emit("read %d %d" % (f, rng.randrange(1, bs // 2)), None)
            lo = last_blk * bs + 1
            hi = min(blk * bs + ln - 1, last_blk * bs + bs - 2)
            cut = rng.randrange(lo, max(lo + 1, hi))
            emit("trunc %d %d" % (f, cut), None)
            m.size = cut
            room = (last_blk + 1) * bs - cut
            if rng.random() < 0.6 and room > 2:
                gap = rng.randrange(1, room - 1)
                wl = rng.randrange(1, max(2, room - gap))
                seedctr += 1
                emit("seek %d %d 0" % (f, cut + gap), None)
                emit("write %d %d %d" % (f, wl, seedctr), None)
                m.size = cut + gap + wl
            else:
                m.size = cut + rng.randrange(1, 2 * bs)
                emit("trunc %d %d" % (f, m.size), None)
            emit("seek %d %d 0" % (f, last_blk * bs), None)
            emit("read %d %d" % (f, 2 * bs), None)
            stats["mapping_changing"] += 1
            stats["unaligned_overwrite"] += 1
        elif r < 0.34:
            op = "write"
            ensure_open(f)
            off, ln = pick_off(), pick_len()
            if rng.random() < 0.3 and m.size:
                off = rng.choice([m.size, max(0, m.size - rng.randrange(1, 2 * bs)), rng.randrange(m.size)])
            seedctr += 1
            emit("seek %d %d 0" % (f, off), ("r seek 0 %d" % off, None))
            emit("write %d %d %d" % (f, ln, seedctr), ("write", (f, off, ln, seedctr)))
            m.size = max(m.size, off + ln)
            if off % bs or ln % bs:
                if off < m.size:
                    stats["unaligned_overwrite"] += 1
        elif r < 0.62:
            op = "read"
            ensure_open(f)
            off, ln = pick_off(), pick_len()
            if rng.random() < 0.5 and m.size:
                off = rng.randrange(m.size)
            if rng.random() < 0.15:
                off = max(0, m.size - rng.randrange(0, 3 * bs))
            emit("seek %d %d 0" % (f, off), ("r seek 0 %d" % off, None))
            emit("read %d %d" % (f, ln), ("read", (f, off, ln)))
        elif r < 0.72:
            op = "trunc"
            ensure_open(f)
            n = rng.choice([0, pick_off(), m.size, max(0, m.size - rng.randrange(1, 3 * bs)),
                            m.size + rng.randrange(1, 3 * bs)])
            if kind == "i" and rng.random() < 0.6:
                n = rng.choice([0, 1, 59, 60, 61, 100, 150])
            emit("trunc %d %d" % (f, n), ("trunc", (f, n)))
            m.size = n
            stats["mapping_changing"] += 1
        elif r < 0.82 and kind != "i":
            op = "punch"
            ensure_closed(f)
            nb = (m.size + bs - 1) // bs
            a = rng.choice([0, 1, 11, 12, 13, 12 + per - 1, 12 + per, rng.randrange(0, nb + 2)])
            if rng.random() < 0.4 and nb:
                a = rng.randrange(nb)
            b = rng.choice([a, a + 1, a + rng.randrange(0, 30), a + rng.randrange(0, 2 * per), None])
            emit("punch INO%d %d %d" % (f, a, 0xFFFFFFFFFFFFFFFF if b is None else b), ("punch", (f, a, b)))
            stats["mapping_changing"] += 1
        elif r < 0.90 and kind != "i":
            op = "falloc"
            ensure_closed(f)
            nb = (m.size + bs - 1) // bs
            a = rng.choice([0, 11, 12, 13, rng.randrange(0, nb + 4)])
            ln = rng.choice([1, 2, 3, 8, 12, 20, rng.randrange(1, 40)])
            beyond = (a + ln) * bs > m.size
            if kind == "b":
                # block-mapped files cannot carry unwritten blocks; allocating past i_size is the
                # caller's job to reconcile (debugfs sets i_size first), so stay inside the file
                if beyond:
                    if nb == 0:
                        continue
                    a = rng.randrange(nb)
                    ln = max(1, min(ln, nb - a))
                flags = rng.choice([0, 1, 3, 4])
            elif beyond:
                flags = rng.choice([0, 1, 4, 5])          # unwritten extents past EOF are legal
            else:
                flags = rng.choice([0, 1, 3, 4, 5, 1 | 8, 3 | 8])  # FORCE_INIT only with ZERO_BLOCKS
            emit("falloc INO%d %d %d %d" % (f, flags, a, ln), ("falloc", (f, flags, a, ln)))
            stats["mapping_changing"] += 1
        elif r < 0.95:
            op = "reopen"
            ensure_closed(f)
        elif r < 0.98:
            op = "flush"
            if opened[f]:
                emit("flush %d" % f, ("r flush 0", None))
        else:
            op = "size"
            ensure_open(f)
            emit("size %d" % f, ("size", f))
        stats["ops"][op] = stats["ops"].get(op, 0) + 1
    for f in range(nfiles):
        ensure_closed(f)
    emit("closefs", ("r closefs 0", None))
    return lines, exp, files, stats, {"config": name, "kind": kind, "bs": bs, "cluster": cluster,
                                      "nfiles": nfiles, "huge": huge}


ENOSPC_CODES = {"E28", "E2133571400", "E2133571404"}   # ENOSPC, EXT2_ET_BLOCK_ALLOC_FAIL, DIR_NO_SPACE


def judge_script(lines, out, bs, dead_inos=()):
    """Recompute the model from the script text alone and compare with the driver's
    output.  Returns (violations, models {ino: FileModel}, index of the call a dead driver
    was executing or None)."""
    res = [l for l in out.split("\n") if l.startswith("r ")]
    viol = []
    models = {}
    slot = {}
    pos = {}

    def model(ino):
        m = models.get(ino)
        if m is None:
            m = models[ino] = FileModel()
            if ino in dead_inos:
                m.dead = True
        return m

    for idx, line in enumerate(lines):
        if idx >= len(res):
            return viol, models, idx
        got = res[idx]
        parts = got.split()
        w = line.split()
        cmd = w[0]
        err = parts[2] if len(parts) > 2 else "?"
        if parts[1] != cmd:
            viol.append(("driver-desync", "line %r answered by %r" % (line, got)))
            return viol, models, idx
        if err == "NOFILE":
            continue
        if cmd in ("open", "closefs"):
            if err != "0":
                viol.append((cmd + "-error", got))
            continue
        if cmd == "fopen":
            if err == "0":
                slot[int(w[1])] = int(w[2])
                pos[int(w[1])] = 0
            else:
                viol.append(("fopen-error", got))
            continue
        if cmd in ("punch", "falloc"):
            m = model(int(w[1]))
            if m.dead:
                continue
            if err != "0":
                m.dead = True
                if err not in ENOSPC_CODES:
                    viol.append((cmd + "-error", "%s: %s" % (line, got)))
                continue
            if cmd == "punch":
                a, b = int(w[2]), int(w[3])
                m.zero(a * bs, None if b == 0xFFFFFFFFFFFFFFFF else (b + 1) * bs)
            continue
        s = int(w[1])
        if s not in slot:
            continue
        m = model(slot[s])
        if cmd == "fclose":
            del slot[s]
            if err != "0" and not m.dead:
                m.dead = True
                if err not in ENOSPC_CODES:
                    viol.append(("fclose-error", got))
            continue
        if cmd == "flush":
            if err != "0" and not m.dead:
                m.dead = True
                if err not in ENOSPC_CODES:
                    viol.append(("flush-error", got))
            continue
        if cmd == "seek":
            if err != "0":
                viol.append(("seek-error", "%s: %s" % (line, got)))
                continue
            wh = int(w[3])
            off = int(w[2])
            newpos = off if wh == 0 else (pos[s] + off if wh == 1 else m.size + off)
            pos[s] = newpos
            if not m.dead and int(parts[3]) != newpos:
                viol.append(("seek-position", "%s: %s expected %d" % (line, got, newpos)))
            continue
        if m.dead:
            continue
        if cmd == "write":
            ln, seed = int(w[2]), int(w[3])
            written = int(parts[3])
            off = pos[s]
            if err != "0":
                m.dead = True
                if err not in ENOSPC_CODES:
                    viol.append(("write-error", "%s at off %d: %s" % (line, off, got)))
                continue
            if written != ln:
                viol.append(("write-short", "%s at off %d (size %d): wrote %d of %d without error" %
                             (line, off, m.size, written, ln)))
                m.dead = True
                continue
            m.write(off, pattern(seed, ln))
            pos[s] = off + ln
        elif cmd == "read":
            ln = int(w[2])
            off = pos[s]
            want = m.read(off, ln)
            gotn = int(parts[3])
            if err != "0":
                viol.append(("read-error", "%s at off %d: %s" % (line, off, got)))
                m.dead = True
                continue
            pos[s] = off + gotn
            if gotn != len(want):
                viol.append(("read-length", "read off %d len %d (size %d): got %d bytes, model %d" %
                             (off, ln, m.size, gotn, len(want))))
                continue
            if int(parts[4], 16) != (zlib.crc32(want) & 0xFFFFFFFF):
                detail = ""
                if len(parts) > 5:
                    detail = " got=%s want=%s" % (parts[5][:64], want[:32].hex())
                viol.append(("read-content", "read off %d len %d (size %d): bytes differ%s" %
                             (off, ln, m.size, detail)))
        elif cmd == "size":
            if err != "0" or int(parts[3]) != m.size:
                viol.append(("size", "size: got %s model %d" % (got, m.size)))
        elif cmd == "trunc":
            n = int(w[2])
            if err != "0":
                m.dead = True
                if err not in ENOSPC_CODES:
                    viol.append(("trunc-error", "trunc to %d (size %d): %s" % (n, m.size, got)))
                continue
            m.truncate(n)
    return viol, models, None


def execute(drv, env, mke2fs, e2fsck, cfg, body_lines, nfiles, workdir, final=True):
    """Make a fresh filesystem, create nfiles files, run the script (INOk placeholders are
    replaced by the real inode numbers).  Returns dict(viol=[(key, what)], crash=..., ...)."""
    out = {"viol": []}
    img = os.path.join(workdir, "fs.img")
    if os.path.exists(img):
        os.unlink(img)
    with open(img, "wb") as f:
        f.truncate(cfg[2] * 1024)
    r = run.run([mke2fs, "-q", "-F", "-U", "6b33f586-a183-4383-921d-30ab132db9bf",
                 "-E", "hash_seed=e1deb3c3-d7b8-4c3a-9c2f-8b1b8f3d2a11"] + cfg[1].split() + [img],
                env=env, timeout=120)
    if r.rc != 0:
        out["harness"] = "mke2fs failed: " + r.etext[-300:]
        return out
    head = ["open " + img] + ["mkfile f%d %s" % (k, cfg[3]) for k in range(nfiles)] + ["closefs", "quit"]
    r = run.run([drv], env=env, stdin=("\n".join(head) + "\n").encode(), timeout=120)
    inos = []
    for l in r.text.split("\n"):
        if l.startswith("r mkfile"):
            p = l.split()
            inos.append(int(p[3]) if p[2] == "0" else 0)
    if len(inos) != nfiles or r.rc != 0:
        out["harness"] = "mkfile phase failed: rc=%s %s" % (r.rc, (r.text + r.etext)[-300:])
        return out
    txt = "\n".join(body_lines).replace("IMG", img)
    for k, ino in enumerate(inos):
        txt = txt.replace("INO%d " % k, "%d " % ino)
    lines = txt.split("\n")
    bs = 4096 if "-b 4096" in cfg[1] else 1024
    r = run.run([drv], env=env, stdin=(txt + "\nquit\n").encode(), timeout=300, cap=16 << 20)
    if r.timed_out:
        out["timeout"] = True
        return out
    viol, models, crashed_at = judge_script(lines, r.text, bs, dead_inos=[0])
    out["viol"] = viol[:8]
    if r.sig or r.rc != 0 or crashed_at is not None:
        et = r.etext
        i = et.find("==ERROR")
        last = lines[crashed_at] if crashed_at is not None and crashed_at < len(lines) else "?"
        out["crash"] = {"rc": r.rc, "sig": r.sig, "during": last,
                        "stderr": et[max(0, i - 10):][:2500] if i >= 0 else et[-800:]}
        return out
    if not final:
        return out
    try:
        with I.Image(img) as im:
            for ino, m in models.items():
                if m.dead or not ino:
                    continue
                iobj = im.inode(ino)
                if iobj.size != m.size:
                    out["viol"].append(("final-size", "inode %d size %d model %d" % (ino, iobj.size, m.size)))
                    continue
                data, holes = im.read_file(iobj, limit=200 << 20)
                want = m.read(0, m.size)
                if data != want:
                    d = next((k for k in range(len(want)) if data[k] != want[k]), -1)
                    out["viol"].append(("final-content", "inode %d differs from model at byte %d "
                                        "(block %d) of %d" % (ino, d, d // bs, m.size)))
    except I.FormatError as e:
        out["viol"].append(("final-unreadable", str(e)))
    rr = run.run([e2fsck, "-fn", img], env=env, timeout=300)
    if rr.rc != 0:
        import re
        first = ""
        for l in rr.text.split("\n"):
            if l and not l.startswith(("Pass ", "e2fsck ")) and "WARNING" not in l:
                first = re.sub(r"\d+", "N", l)[:80]
                break
        out["viol"].append(("e2fsck-fn " + first, rr.text[-600:]))
    else:
        keys, det = fsckpair.pycheck(img)
        if keys:
            out["viol"].append(("pyext4 " + ",".join(keys), str(det)))
    return out


def result_keys(res):
    ks = [k for k, _ in res.get("viol", [])]
    if res.get("crash"):
        ks.append("crash")
    return ks


def minimise(drv, env, mke2fs, e2fsck, cfg, body, nfiles, workdir, want_key, budget=250):
    """ddmin over script lines keeping a violation whose key starts with want_key."""
    fixed_head = [l for l in body if l.startswith("open")]
    tail = ["fclose %d" % k for k in range(8)] + [l for l in body if l.startswith("closefs")]
    core = [l for l in body if not l.startswith(("open", "closefs"))]

    def test(c):
        r = execute(drv, env, mke2fs, e2fsck, cfg, fixed_head + c + tail, nfiles, workdir)
        return any(k.startswith(want_key) for k in result_keys(r))

    n = 2
    runs = 0
    while len(core) >= 2 and runs < budget:
        chunk = max(1, len(core) // n)
        reduced = False
        for i in range(0, len(core), chunk):
            cand = core[:i] + core[i + chunk:]
            runs += 1
            if cand and test(cand):
                core = cand
                n = max(n - 1, 2)
                reduced = True
                break
            if runs >= budget:
                break
        if not reduced:
            if chunk == 1:
                break
            n = min(len(core), n * 2)
    return fixed_head + core + tail


def _run_one(arg):
    drv, env, mke2fs, e2fsck, seed, idx, variant = arg
    rng = run.rng_for(seed, "C09", idx)
    cfg = CONFIGS[idx % len(CONFIGS)] if rng.random() < 0.8 else rng.choice(CONFIGS)
    lines, exp, files, stats, info = gen_history(rng, cfg)
    body = [l for l in lines if not l.startswith("mkfile")]
    out = {"idx": idx, "info": info, "stats": stats, "viol": [], "variant": variant, "nlines": len(lines)}
    with run.Work("C09w") as w:
        res = execute(drv, env, mke2fs, e2fsck, cfg, body, info["nfiles"], w.dir)
        out.update(res)
        if out.get("viol") or out.get("crash"):
            out["script"] = "\n".join(body)
            if os.environ.get("VERIF_MINIMISE"):
                k = result_keys(res)[0]
                small = minimise(drv, env, mke2fs, e2fsck, cfg, body, info["nfiles"], w.dir, k)
                out["minimised"] = "\n".join(small)
        if idx < 2:
            out["sample"] = body[:12]
    return out


def main(tier, seed, replay=None, scale=1.0):
    rep = report.Report("C09", tier, seed, "exploration",
                        rule="seeded histories (50-300 ops on 3-5 interleaved files) of ext2fs_file_write/"
                             "read/set_size2/llseek/flush + ext2fs_punch + ext2fs_fallocate on extent, "
                             "block-mapped, bigalloc and inline-data files judged against a sparse byte "
                             "model, then independent read-back (pyext4), e2fsck -fn and pyext4.check; "
                             "non-trivial = history with >=1 unaligned overwrite and >=1 truncate/punch/"
                             "fallocate; distinct by (config, op histogram)")
    plain = build.get_build("plain")
    asan = build.get_build("asan")
    dp, da = plain.driver("drv_file"), asan.driver("drv_file")
    ep, ea = run.base_env(plain), run.base_env(asan)
    mk, fsck = plain.tool("mke2fs"), plain.tool("e2fsck")
    if replay:
        c = json.load(open(os.path.join(replay, "case.json")))["case"]
        items = [((da, ea) if c["variant"] == "asan" else (dp, ep)) + (mk, fsck, c["seed"], c["idx"], c["variant"])]
    else:
        n = max(12, int(BUDGET[tier] * scale))
        items = [((da, ea, mk, fsck, seed, i, "asan") if i % 2 else (dp, ep, mk, fsck, seed, i, "plain"))
                 for i in range(n)]
    results = run.pmap(_run_one, items, chunksize=2)
    for it, r in zip(items, results):
        if r.get("harness"):
            rep.harness_error(r["harness"])
            rep.case(None)
            continue
        if r.get("timeout"):
            rep.note_inconclusive("driver timeout idx=%d" % r["idx"])
            rep.case(None)
            continue
        st = r["stats"]
        nt = None
        if st["unaligned_overwrite"] >= 1 and st["mapping_changing"] >= 1:
            nt = json.dumps([r["info"]["config"], sorted(st["ops"].items())])
        rep.case(nt)
        rep.count("api_calls", r["nlines"])
        rep.count("histories_" + r["variant"])
        rep.add("configs", r["info"]["config"])
        for k, v in st["ops"].items():
            rep.count("op_" + k, v)
        if r.get("sample"):
            rep.sample({"config": r["info"], "first_commands": r["sample"]})
        case = {"seed": it[4], "idx": it[5], "variant": it[6], "config": r["info"]}
        files = {"script.txt": r["script"].encode()} if r.get("script") else {}
        if r.get("minimised"):
            files["minimised.txt"] = r["minimised"].encode()
        seen = set()
        kindname = {"e": "extent", "b": "blockmap", "i": "inline"}[r["info"]["kind"]]
        if r["info"]["cluster"] > r["info"]["bs"]:
            kindname = "bigalloc"
        for k, what in r["viol"]:
            key = "C09 %s %s" % (kindname, k)
            if key in seen:
                continue
            seen.add(key)
            rep.violation(key, what, replay=case, files=files)
        if r.get("crash"):
            c = r["crash"]
            import re
            key = "C09 %s crash rc=%s sig=%s during %s" % (kindname, c["rc"], c["sig"], c["during"].split()[0])
            mm = re.search(r"AddressSanitizer: (\S+)", c["stderr"])
            if mm:
                fn = re.findall(r"#\d+ \S+ in (\w+)", c["stderr"])
                fn = [x for x in fn if not x.startswith("__interceptor") and x != "memcpy"]
                key = "C09 %s asan %s in %s" % (kindname, mm.group(1), fn[0] if fn else "?")
            rep.violation(key, "%s\n%s" % (c["during"], c["stderr"][:1500]), replay=case, files=files)
    rep.assumptions = ["after an allocation failure (ENOSPC) the content of the file being written is not "
                       "judged any more; consistency of the filesystem still is",
                       "ASan red zones only (half of the histories)"]
    return rep.finish()
