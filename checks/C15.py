"""C15 - extended attributes read back exactly as set.

Random histories of ext2fs_xattr_set/get/remove/iterate calls (drivers/drv_xattr.c) and of
debugfs ea_set/ea_get/ea_rm/ea_list commands are executed on filesystems made by the tree's
own mke2fs.  A Python dict model (name -> bytes per inode) judges every get/list from the
script text and the tool output alone; after every closefs the image is parsed with the
independent reader (vf.pyext4) and compared with the model, and the on-disk order, hashes,
reference counts, EA inodes and consistency are verified.  Half of the driver histories run
under ASan.

Script syntax (one call per line; '#reopen' = closefs + inspection + open; '#share fA fB' =
closefs, make fB point at fA's xattr block with h_refcount 2 by a byte edit, open):
  mkfile <name> [inline <n> <seed>] | xopen <slot> @<name> [raw] | xclose <slot> |
  set <slot> <name> <len> <seed> | sethex <slot> <name> <hex> | setstr <slot> <name> <tok> |
  get <slot> <name> | rm <slot> <name> | list <slot> | count <slot>
Names are percent-encoded.  'open IMG' / 'closefs' are implicit at the segment borders.
"""
import json
import os
import re
import struct
import zlib

from vf import build, run, report, fsckpair
from vf.pyext4 import image as I, crc

BUDGET = {"quick": 300, "thorough": 8000}

# ------------------------------------------------------------------------------ values
_BASE = bytes(((k * 7 + (k >> 3) + (k >> 11)) & 0xFF) for k in range(70000))
_SHIFT = [bytes(((i + s) & 0xFF) for i in range(256)) for s in range(256)]


def pattern(seed, n):
    if n > len(_BASE):
        return bytes(((seed * 131 + k * 7 + (k >> 3) + (k >> 11)) & 0xFF) for k in range(n))
    return _BASE[:n].translate(_SHIFT[(seed * 131) & 0xFF])


_SAFE = set(b"abcdefghijklmnopqrstuvwxyzABCDEFGHIJKLMNOPQRSTUVWXYZ0123456789_.:-")


def enc(name):
    return "".join(chr(c) if c in _SAFE else "%%%02x" % c for c in name)


def dec(s):
    b = s.encode("latin-1")
    return re.sub(rb"%([0-9a-fA-F]{2})", lambda m: bytes([int(m.group(1), 16)]), b)


def pad4(n):
    return (n + 3) & ~3


# ------------------------------------------------------------------------------ names
# name index table of the on-disk format (most specific prefix first)
PREFIXES = [(10, b"gnu."), (3, b"system.posix_acl_default"), (2, b"system.posix_acl_access"),
            (8, b"system.richacl"), (6, b"security."), (4, b"trusted."), (7, b"system."),
            (1, b"user.")]
PREFIX_OF = {i: p for i, p in PREFIXES}
ACL_NAMES = (b"system.posix_acl_access", b"system.posix_acl_default")


def split_name(full):
    for idx, p in PREFIXES:
        if full.startswith(p):
            return idx, full[len(p):]
    return 0, full


def join_name(idx, suffix):
    return PREFIX_OF.get(idx, b"") + suffix


def prefix_class(full):
    idx, suf = split_name(full)
    if idx == 0:
        return "unknown-prefix"
    if idx in (2, 3, 8) and suf:
        return "idx%d+suffix" % idx
    return PREFIX_OF[idx].decode()


# ------------------------------------------------------------------------------ posix ACLs
SHORT_TAGS = (0x01, 0x04, 0x10, 0x20)
LONG_TAGS = (0x02, 0x08)


def acl_user_blob(entries, version=2):
    return struct.pack("<I", version) + b"".join(struct.pack("<HHI", t, p, i) for t, p, i in entries)


def acl_parse_user(b):
    if len(b) < 4 or (len(b) - 4) % 8 or struct.unpack_from("<I", b, 0)[0] != 2 or len(b) == 4:
        return None
    out = []
    for o in range(4, len(b), 8):
        t, p, i = struct.unpack_from("<HHI", b, o)
        if t in SHORT_TAGS:
            out.append((t, p, None))
        elif t in LONG_TAGS:
            out.append((t, p, i))
        else:
            return None
    return out


def acl_disk_blob(sem):
    out = struct.pack("<I", 1)
    for t, p, i in sem:
        out += struct.pack("<HH", t, p) if t in SHORT_TAGS else struct.pack("<HHI", t, p, i)
    return out


def acl_parse_disk(b):
    if len(b) < 4 or struct.unpack_from("<I", b, 0)[0] != 1:
        return None
    out = []
    o = 4
    while o < len(b):
        if o + 4 > len(b):
            return None
        t, p = struct.unpack_from("<HH", b, o)
        if t in SHORT_TAGS:
            out.append((t, p, None))
            o += 4
        elif t in LONG_TAGS:
            if o + 8 > len(b):
                return None
            out.append((t, p, struct.unpack_from("<I", b, o + 4)[0]))
            o += 8
        else:
            return None
    return out


def gen_acl(rng):
    ents = [(1, rng.randrange(8), rng.choice([0, 0xFFFFFFFF]))]
    named = 0
    for _ in range(rng.choice([0, 0, 1, 2])):
        ents.append((2, rng.randrange(8), rng.randrange(1, 70000)))
        named += 1
    ents.append((4, rng.randrange(8), rng.choice([0, 0xFFFFFFFF])))
    for _ in range(rng.choice([0, 0, 1, 2])):
        ents.append((8, rng.randrange(8), rng.randrange(1, 70000)))
        named += 1
    if named or rng.random() < 0.3:
        ents.append((0x10, rng.randrange(8), 0))
    ents.append((0x20, rng.randrange(8), 0))
    return ents


# ------------------------------------------------------------------------------ hashes
def _rol(h, s):
    return ((h << s) | (h >> (32 - s))) & 0xFFFFFFFF


def name_hash(name, signed):
    h = 0
    for c in name:
        if signed and c >= 128:
            c = (c - 256) & 0xFFFFFFFF
        h = _rol(h, 5) ^ c
    return h


def entry_hashes(name, words):
    """both accepted variants (unsigned / legacy signed name bytes)"""
    out = []
    for signed in (False, True):
        h = name_hash(name, signed)
        for w in words:
            h = _rol(h, 16) ^ w
        out.append(h)
    return out


def block_hash(ehashes):
    h = 0
    for e in ehashes:
        if e == 0:
            return 0
        h = _rol(h, 16) ^ e
    return h


# ------------------------------------------------------------------------------ configs
def make_configs():
    out = []
    for bs in (1024, 4096):
        for isz in (128, 256, 512, 1024):
            for ea in (0, 1):
                for cs in (1, 0):
                    out.append(dict(name="b%dk_i%d%s%s" % (bs // 1024, isz, "_eai" if ea else "",
                                                          "" if cs else "_nocsum"),
                                    bs=bs, isize=isz, ea_inode=ea, csum=cs, inline=0))
    for bs in (1024, 4096):
        for isz in (256, 512, 1024):
            for ea in (0, 1):
                out.append(dict(name="b%dk_i%d%s_inline" % (bs // 1024, isz, "_eai" if ea else ""),
                                bs=bs, isize=isz, ea_inode=ea, csum=1, inline=1))
    return out


CONFIGS = make_configs()


def mke2fs_args(cfg):
    feats = "^has_journal,^resize_inode"
    if cfg["ea_inode"]:
        feats += ",ea_inode"
    if not cfg["csum"]:
        feats += ",^metadata_csum"
    if cfg["inline"]:
        feats += ",inline_data"
    return ["-q", "-F", "-t", "ext4", "-b", str(cfg["bs"]), "-I", str(cfg["isize"]), "-N", "256",
            "-U", "6b33f586-a183-4383-921d-30ab132db9bf",
            "-E", "hash_seed=e1deb3c3-d7b8-4c3a-9c2f-8b1b8f3d2a11", "-O", feats]


def ibody_cap(cfg):
    return max(0, cfg["isize"] - 128 - 32 - 8) if cfg["isize"] > 128 else 0


def ample(attrs, bs):
    """the whole attribute set fits by a wide margin (refusing it is a violation)"""
    tot = sum(16 + pad4(len(split_name(n)[1])) + pad4(len(v)) for n, v in attrs.items())
    return tot <= (bs - 32) // 2 and all(len(v) <= bs - 56 for v in attrs.values())


def size_class(n, cfg):
    bs = cfg["bs"]
    if n == 0:
        return "0"
    if n <= 8:
        return "1-8"
    if n <= 64:
        return "9-64"
    ic = ibody_cap(cfg)
    if ic and ic - 60 <= n <= ic + 8:
        return "near-ibody-cap"
    if bs - 120 <= n < bs - 56:
        return "near-block-cap"
    if bs - 56 <= n <= bs + 1:
        return "block-cap..bs"
    if n < bs:
        return "65..bs"
    if n <= 65536:
        return "bs..64K"
    return ">64K"

# ------------------------------------------------------------------------------ generator
_ALNUM = b"abcdefghijklmnopqrstuvwxyz0123456789_"


def gen_name(rng, safe):
    r = rng.random()
    if r < 0.33:
        p = b"user."
    elif r < 0.47:
        p = b"trusted."
    elif r < 0.58:
        p = b"security."
    elif r < 0.66:
        p = b"system.z"            # system.<other>: never one of the special system names
    elif r < 0.70:
        return b"system.richacl"
    elif r < 0.78:
        return b"system.posix_acl_access"
    elif r < 0.84:
        return b"system.posix_acl_default"
    elif r < 0.94:
        p = rng.choice([b"foo.", b"q", b"qq.user."])      # unknown prefix: index 0, full name stored
    elif r < 0.97:
        p = b"gnu."
    else:
        p = rng.choice([b"system.posix_acl_accessX", b"system.richacl.", b"system.posix_acl_default_"])
    mx = 255 - len(p)
    n = rng.choice([1, 1, 2, 3, 3, 4, 5, 7, 8, 11, 12, 16, 17, 31, 33, 64, 100, mx, mx - 1, mx - 3])
    n = max(1, min(n, mx))
    if safe or rng.random() < 0.75:
        suf = bytes(rng.choice(_ALNUM) for _ in range(n))
    else:
        suf = bytes(rng.randrange(1, 256) for _ in range(n))
    return p + suf


def pick_len(rng, cfg, full, limit=None):
    bs = cfg["bs"]
    ov = 16 + pad4(len(split_name(full)[1]))
    ic = ibody_cap(cfg)
    bc = bs - 36
    r = rng.random()
    if r < 0.20:
        n = rng.choice([0, 0, 1, 2, 3, 4, 5, 7, 8])
    elif r < 0.38:
        n = rng.randrange(9, 65)
    elif r < 0.55 and ic:
        n = ic - ov + rng.choice([-40, -20, -9, -8, -5, -4, -3, -1, 0, 1, 3, 4, 5, 8, 20])
    elif r < 0.65:
        n = rng.randrange(65, max(66, bs // 4))
    elif r < 0.78:
        n = bc - ov + rng.choice([-60, -40, -8, -5, -4, -3, -1, 0, 1, 3, 4, 5, 8, 32])
    elif r < 0.83:
        n = bs + rng.choice([-57, -56, -55, -1, 0, 1])
    elif r < 0.89:
        n = rng.randrange(bs // 4, bs)
    elif cfg["ea_inode"]:
        n = rng.choice([4096, 4097, 5000, 8191, 12289, 16384, 32768, 65535, 65536, 65536,
                        rng.randrange(bs, 65537), rng.randrange(bs, 65537)])
    elif r < 0.97:
        n = rng.randrange(1, 200)
    else:
        n = rng.choice([bs - 20, bs, bs + 1, 2 * bs, 5000])        # must be refused
    n = max(0, n)
    if limit is not None:
        n = min(n, limit)
    return n


def gen_history(rng, cfg, kind):
    """kind: 'drv' (libext2fs driver) or 'dbg' (debugfs CLI).  Returns (lines, info)."""
    safe = (kind == "dbg")
    bs = cfg["bs"]
    nfiles = rng.choice([1, 2, 2, 3, 3, 4])
    share = rng.random() < 0.12 and ibody_cap(cfg) + 60 < bs - 36 - 40
    if share:
        nfiles = max(nfiles, 2)
    lines = []
    inline_files = set()
    for f in range(nfiles):
        if cfg["inline"] and (f == nfiles - 1 or rng.random() < 0.3) and not (share and f < 2):
            n = rng.choice([1, 30, 59, 60, 61, 64, 70, 90, 100, 120])
            lines.append("mkfile f%d inline %d %d" % (f, n, rng.randrange(1, 250)))
            inline_files.add(f)
        else:
            lines.append("mkfile f%d" % f)
    names = [dict() for _ in range(nfiles)]          # approximate: name -> length (guides choices only)
    pools = []
    for f in range(nfiles):
        pool = []
        for _ in range(rng.randrange(4, 11)):
            nm = gen_name(rng, safe)
            if nm not in pool:
                pool.append(nm)
        pools.append(pool)
    garbage = [set() for _ in range(nfiles)]         # ACL names holding non-ACL bytes (set raw)
    opened = [None] * nfiles                          # None or raw flag
    stats = {"ops": {}, "prefix": {}, "sizes": {}}
    seedctr = rng.randrange(1, 1 << 16)
    nops = rng.randrange(30, 121)
    share_at = rng.randrange(nops // 5, nops // 2) if share else -1
    shared_done = False
    watch = 0                # after sharing: look at the disk after each of the next few changes
    # beyond the 64 KiB limit of the format: must be refused, or else read back (a few histories)
    over_at = rng.randrange(nops) if cfg["ea_inode"] and kind == "drv" and rng.random() < 0.08 else -1
    reopen_at = set(rng.sample(range(5, nops), min(nops - 5, rng.choice([2, 3, 3, 4, 5]))))

    def bump(d, k):
        stats[d][k] = stats[d].get(k, 0) + 1

    def ensure_open(f):
        if opened[f] is None:
            raw = rng.random() < 0.3
            lines.append("xopen %d @f%d%s" % (f, f, " raw" if raw else ""))
            opened[f] = raw

    def emit_set(f, nm, n=None):
        nonlocal seedctr
        ensure_open(f)
        raw = opened[f]
        seedctr += 1
        bump("prefix", prefix_class(nm))
        if nm in ACL_NAMES and not (raw and rng.random() < 0.5):
            ents = gen_acl(rng)
            if raw:
                blob = acl_disk_blob([(t, p, None if t in SHORT_TAGS else i) for t, p, i in ents])
            else:
                blob = acl_user_blob(ents)
                r = rng.random()
                if r < 0.06:
                    blob = blob[:-3]                                   # malformed: must be refused
                elif r < 0.10:
                    blob = acl_user_blob(ents, version=rng.choice([1, 3]))
                elif r < 0.13:
                    blob = acl_user_blob(ents + [(rng.choice([0, 3, 0x40]), 7, 0)])
                if r < 0.13:
                    bump("ops", "set_malformed_acl")
            if raw or r >= 0.13:
                garbage[f].discard(nm)
            lines.append("sethex %d %s %s" % (f, enc(nm), blob.hex()))
            names[f][nm] = len(blob)
            bump("sizes", "acl")
            return
        if nm in ACL_NAMES:
            garbage[f].add(nm)
        if n is None:
            n = pick_len(rng, cfg, nm, limit=None)
            if kind == "dbg" and n > bs and rng.random() < 0.8:
                n = rng.randrange(0, bs + 1)
        if rng.random() < (0.15 if kind == "dbg" else 0.03) and n <= 64:
            tok = "".join(chr(rng.choice(_ALNUM)) for _ in range(n))
            lines.append(("setstr %d %s %s" % (f, enc(nm), tok)).rstrip())
        else:
            lines.append("set %d %s %d %d" % (f, enc(nm), n, seedctr))
        bump("sizes", size_class(n, cfg))
        names[f][nm] = n

    # edge fill: unaligned small values, then one value sized to end within a few bytes of the
    # capacity of the inode body (or of the block when there is no body space)
    for f in range(nfiles):
        if f in inline_files or (share and f == 1) or rng.random() > 0.4:
            continue
        cap = ibody_cap(cfg) if cfg["isize"] > 128 else bs - 36
        used = 0
        for k in range(rng.choice([1, 2, 3])):
            n = rng.choice([1, 2, 3, 5, 6, 7, 9, 10, 11])
            emit_set(f, b"user.e%d" % k, n)
            used += 20 + pad4(n)
        n = cap - used - 20 + rng.choice([-5, -4, -3, -2, -1, 0, 0, 1, 2, 3, 4])
        if n > 0:
            emit_set(f, b"user.e9", n)
            bump("ops", "edge_fill")
        if rng.random() < 0.5:
            lines.append("get %d user.e9" % f)
            lines.append("list %d" % f)
        else:
            lines.append("xclose %d" % f)
            opened[f] = None

    for opno in range(nops):
        if opno == share_at and not shared_done:
            # f0 needs an xattr block: force one value that cannot live in the inode body
            emit_set(0, b"user.blk", ibody_cap(cfg) + rng.randrange(20, 60))
            for f in range(nfiles):
                opened[f] = None
            lines.append("#share f0 f1")
            names[1].update(names[0])
            garbage[1] |= garbage[0]
            pools[1] = list(dict.fromkeys(pools[1] + list(names[0])))
            shared_done = True
            bump("ops", "share")
            # un-share by adding one new small attribute to either inode, then look at the disk
            emit_set(rng.choice([0, 1]), b"user.unshare", rng.randrange(0, 9))
            for f in range(nfiles):
                opened[f] = None
            lines.append("#reopen")
            watch = 8
            continue
        if opno in reopen_at:
            for f in range(nfiles):
                opened[f] = None
            lines.append("#reopen")
            bump("ops", "reopen_fs")
            continue
        cand = [f for f in range(nfiles) if not (share and not shared_done and f == 1)]
        f = rng.choice(cand)
        present = list(names[f])
        r = rng.random()
        if opno == over_at:
            emit_set(f, b"user.over64k", rng.choice([65537, 65540, 70000]))
            bump("ops", "set_over_64K")
            continue
        if r < 0.24 or not present:
            op = "set_new"
            nm = rng.choice(pools[f]) if rng.random() < 0.8 else gen_name(rng, safe)
            if nm not in pools[f]:
                pools[f].append(nm)
            if nm in names[f]:
                op = "replace"
            emit_set(f, nm)
        elif r < 0.50:
            op = "replace"
            nm = rng.choice(present)
            emit_set(f, nm)
        elif r < 0.60:
            op = "rm"
            nm = rng.choice(present)
            ensure_open(f)
            lines.append("rm %d %s" % (f, enc(nm)))
            names[f].pop(nm, None)
        elif r < 0.63:
            op = "rm_missing"
            ensure_open(f)
            nm = gen_name(rng, safe)
            lines.append("rm %d %s" % (f, enc(nm)))
            names[f].pop(nm, None)
        elif r < 0.77:
            op = "get"
            ensure_open(f)
            nm = rng.choice(present)
            if nm in garbage[f] and not opened[f]:
                # converting non-ACL bytes to the user-space ACL layout is outside the property
                lines.append("list %d" % f)
            else:
                lines.append("get %d %s" % (f, enc(nm)))
        elif r < 0.80:
            op = "get_missing"
            ensure_open(f)
            nm = gen_name(rng, safe) if rng.random() < 0.5 else rng.choice(pools[f])
            if nm in garbage[f] and not opened[f]:
                lines.append("list %d" % f)
            else:
                lines.append("get %d %s" % (f, enc(nm)))
        elif r < 0.90:
            op = "list"
            ensure_open(f)
            lines.append("list %d" % f)
        elif r < 0.92:
            op = "count"
            ensure_open(f)
            lines.append("count %d" % f)
        else:
            op = "reopen_handle"
            if opened[f] is not None:
                lines.append("xclose %d" % f)
                opened[f] = None
            ensure_open(f)
        bump("ops", op)
        if watch and f < 2 and op in ("set_new", "replace", "rm"):
            watch -= 1
            for g in range(nfiles):
                opened[g] = None
            lines.append("#reopen")
    # final read-back of everything through the API
    lines.append("#reopen")
    for f in range(nfiles):
        lines.append("xopen %d @f%d raw" % (f, f))
        lines.append("list %d" % f)
    info = {"config": cfg["name"], "kind": kind, "nfiles": nfiles, "share": bool(share),
            "inline_files": len(inline_files)}
    return lines, info, stats

# ------------------------------------------------------------------------------ judge
def _crc(b):
    return zlib.crc32(b) & 0xFFFFFFFF


class Judge:
    """Recomputes the model from the script text and compares with the tool output."""

    def __init__(self, cfg):
        self.cfg = cfg
        self.bs = cfg["bs"]
        self.files = {}          # file name -> ino
        self.model = {}          # ino -> {full name: value as stored on disk}
        self.unknown = {}        # ino -> names whose value cannot be known
        self.slots = {}          # slot -> (ino, raw, file name)
        self.place = {}          # (ino, name) -> placement last observed on disk (unchanged since)
        self.viol = []
        self.harness = None
        self.nospace = set()
        self.notfound = set()
        self.counts = {}

    def bump(self, k, n=1):
        self.counts[k] = self.counts.get(k, 0) + n

    def v(self, key, what):
        self.viol.append((key, what))

    # -- semantic operations (shared by the driver and the debugfs front ends) ---------------
    def stored_form(self, raw, name, value):
        """value as it must be stored, or None when the call has to be refused"""
        if name in ACL_NAMES and not raw:
            sem = acl_parse_user(value)
            return None if sem is None else acl_disk_blob(sem)
        return value

    def do_set(self, ino, raw, name, value, status, line):
        m = self.model.setdefault(ino, {})
        stored = self.stored_form(raw, name, value)
        if stored is None:
            self.bump("malformed_acl_sets")
            if status == "ok":
                self.unknown.setdefault(ino, set()).add(name)
                self.bump("malformed_acl_accepted")
            else:
                self.bump("refused_malformed_acl")
            return
        if status == "ok":
            m[name] = stored
            self.place[(ino, name)] = "fresh"
            self.unknown.get(ino, set()).discard(name)
            return
        after = dict(m)
        after[name] = stored
        if status == "nospace":
            if ample(after, self.bs):
                self.v("set-refused-with-ample-space",
                       "%s refused; resulting set: %s" % (line[:120], [(enc(n), len(x)) for n, x in after.items()]))
            elif len(stored) > 65536:
                self.bump("refused_over_64K")
            else:
                self.bump("refusals_near_limit")
        elif len(stored) > 65536:
            self.bump("refused_over_64K")
        elif split_name(name)[0] == 0:
            # a name without a known prefix has no valid on-disk representation (index 0);
            # refusing it is fine, storing it must round-trip and stay consistent
            self.bump("refused_unknown_prefix")
        else:
            self.v("set-error " + status, "%s -> %s" % (line[:120], status))

    def do_rm(self, ino, name, status, line):
        if status != "ok":
            self.v("rm-error " + status, line[:160])
            return
        self.model.setdefault(ino, {}).pop(name, None)
        self.place.pop((ino, name), None)

    def do_get(self, ino, raw, name, status, got, glen, gcrc, line):
        """got: full bytes or None when only (length, crc32) are known"""
        m = self.model.setdefault(ino, {})
        if name in self.unknown.get(ino, ()):
            return
        want = m.get(name)
        where = self.place.get((ino, name), "fresh")
        if want is None:
            if status != "notfound":
                self.v("absent get-differs", "%s: model has no such attribute, got %s len=%s" % (line[:120], status, glen))
            return
        if name in ACL_NAMES and not raw:
            sem = acl_parse_disk(want)
            if sem is None:
                self.bump("acl_get_unjudged")
                return
            if status != "ok" or got is None or acl_parse_user(got) != sem:
                self.v(where + " get-differs", "%s: ACL differs: status %s got %s want (on disk) %s" %
                       (line[:100], status, got.hex() if got else None, want.hex()))
            return
        if status != "ok":
            self.v(where + " get-differs", "%s: %s, model has %d bytes" % (line[:120], status, len(want)))
        elif glen != len(want) or gcrc != _crc(want) or (got is not None and got != want):
            self.v(where + " get-differs", "%s: got len %d crc %08x, model len %d crc %08x%s" %
                   (line[:120], glen, gcrc, len(want), _crc(want),
                    " got=%s want=%s" % (got[:24].hex(), want[:24].hex()) if got is not None else ""))

    def do_list(self, ino, items, status, line):
        """items: [(name, length, crc or None)]"""
        m = self.model.setdefault(ino, {})
        if status != "ok":
            self.v("list-error " + status, line)
            return
        unk = self.unknown.get(ino, ())
        seen = set()
        for name, ln, c in items:
            if name in seen or name not in m:
                self.v("list-differs extra", "%s: %s (%d bytes) listed%s" %
                       (line, enc(name), ln, " twice" if name in seen else " but not in the model"))
            seen.add(name)
            if name in m and name not in unk:
                w = m[name]
                if ln != len(w) or (c is not None and c != _crc(w)):
                    self.v("list-differs value", "%s: %s listed with len %d crc %s, model len %d crc %08x (%s)" %
                           (line, enc(name), ln, c if c is None else "%08x" % c, len(w), _crc(w),
                            self.place.get((ino, name), "fresh")))
        for name in m:
            if name not in seen:
                self.v("list-differs missing", "%s: %s (%d bytes, %s) not listed" %
                       (line, enc(name), len(m[name]), self.place.get((ino, name), "fresh")))

    # -- driver front end ------------------------------------------------------------------
    def status_of(self, err):
        if err == "0":
            return "ok"
        if err in self.nospace:
            return "nospace"
        if err in self.notfound:
            return "notfound"
        return err

    def feed(self, lines, out):
        """lines: the real script lines of one driver run; out: its stdout.  Returns the index
        of the call a dead driver was executing, or None."""
        for l in out.split("\n"):
            if l.startswith("i errcodes"):
                mm = re.search(r"nospace=(\S+) notfound=(\S+)", l)
                self.nospace = set(mm.group(1).split(","))
                self.notfound = set(mm.group(2).split(","))
        res = [l for l in out.split("\n") if l.startswith("r ")]
        for idx, line in enumerate(lines):
            if idx >= len(res):
                return idx
            got = res[idx]
            parts = got.split()
            w = line.split()
            cmd = w[0]
            if len(parts) < 3 and cmd != "list":
                return idx
            if parts[1] != cmd:
                self.harness = "driver desync: %r answered by %r" % (line, got)
                return None
            err = parts[2]
            if err in ("NOSLOT", "NOFILE", "NOFS", "UNKNOWN"):
                continue
            self.bump("api_calls")
            if cmd in ("open", "closefs"):
                if err != "0":
                    self.v(cmd + "-error " + err, got)
                if cmd == "closefs":
                    self.slots.clear()
            elif cmd == "mkfile":
                if err != "0":
                    self.harness = "mkfile failed: " + got
                    return None
                ino = int(parts[3])
                self.files[w[1]] = ino
                self.model[ino] = {}
                if len(w) >= 5 and w[2] == "inline" and int(parts[4], 16) & 0x10000000:
                    self.model[ino][b"system.data"] = pattern(int(w[4]), int(w[3]))[60:]
            elif cmd == "xopen":
                if err != "0":
                    self.v("xopen-error " + err, "%s: %s" % (line, got))
                    continue
                self.slots[int(w[1])] = (int(parts[3]), len(w) > 3 and w[3] == "raw", w[2][1:])
            elif cmd == "xclose":
                self.slots.pop(int(w[1]), None)
            else:
                s = int(w[1])
                if s not in self.slots:
                    continue
                ino, raw, _ = self.slots[s]
                if cmd in ("set", "sethex", "setstr"):
                    name = dec(w[2])
                    if cmd == "set":
                        value = pattern(int(w[4]), int(w[3]))
                    elif cmd == "sethex":
                        value = bytes.fromhex(w[3]) if len(w) > 3 else b""
                    else:
                        value = w[3].encode() if len(w) > 3 else b""
                    self.do_set(ino, raw, name, value, self.status_of(err), line)
                elif cmd == "rm":
                    self.do_rm(ino, dec(w[2]), self.status_of(err), line)
                elif cmd == "get":
                    st = self.status_of(err)
                    if st == "ok":
                        if len(parts) < 5:
                            return idx
                        b = bytes.fromhex(parts[5]) if len(parts) > 5 else (b"" if parts[3] == "0" else None)
                        self.do_get(ino, raw, dec(w[2]), st, b, int(parts[3]), int(parts[4], 16), line)
                    else:
                        self.do_get(ino, raw, dec(w[2]), st, None, None, None, line)
                elif cmd == "list":
                    if ";" not in parts:
                        return idx
                    k = parts.index(";")
                    items = []
                    for t in parts[2:k]:
                        nm, _, rest = t.rpartition("=")
                        ln, _, c = rest.partition(":")
                        items.append((dec(nm), int(ln), int(c, 16)))
                    self.do_list(ino, items, self.status_of(parts[k + 1]), line)
                elif cmd == "count":
                    n = len(self.model.get(ino, {}))
                    if err != "0" or int(parts[3]) != n or int(parts[4]) != n:
                        self.v("count-differs", "%s: %s, model has %d" % (line, got, n))
        return None

# ------------------------------------------------------------------------------ debugfs front end
def parse_cstring(s):
    """inverse of print_c_string (between the quotes)"""
    out = bytearray()
    i = 0
    esc = {"a": 7, "b": 8, "f": 12, "n": 10, "t": 9, "v": 11, "\\": 92, "'": 39, '"': 34}
    while i < len(s):
        c = s[i]
        if c == "\\" and i + 1 < len(s):
            d = s[i + 1]
            if d in esc:
                out.append(esc[d])
                i += 2
            elif d.isdigit():
                out.append(int(s[i + 1:i + 4], 8) & 0xFF)
                i += 4
            else:
                out.append(ord(d) & 0xFF)
                i += 2
        else:
            out.append(ord(c) & 0xFF)
            i += 1
    return bytes(out)


def parse_dbg_value(txt):
    """value as printed by print_xattr_string: quoted C string or 'xx xx xx '"""
    if txt is None:
        return b""
    if txt.startswith('"') and txt.endswith('"') and len(txt) >= 2:
        return parse_cstring(txt[1:-1])
    try:
        return bytes.fromhex(txt.replace(" ", ""))
    except ValueError:
        return None


_ATTR_LINE = re.compile(r"^(\s*)(\S+) \((\d+)\)(?: = (.*))?$")


def debugfs_segment(j, lines, ctx, img, workdir, segno):
    """Translate one segment into a debugfs command file, run it, judge its output.
    Returns None or a crash descriptor."""
    cmds, meta = [], []
    nval = 0
    for line in lines:
        w = line.split()
        cmd = w[0]
        if cmd == "xopen":
            fn = w[2][1:]
            if fn in j.files and int(w[1]) not in j.slots:
                j.slots[int(w[1])] = (j.files[fn], len(w) > 3 and w[3] == "raw", fn)
            continue
        if cmd == "xclose":
            j.slots.pop(int(w[1]), None)
            continue
        if cmd in ("mkfile", "open", "closefs"):
            continue
        s = int(w[1])
        if s not in j.slots:
            continue
        ino, raw, fn = j.slots[s]
        rflag = "-r " if raw else ""
        if cmd in ("set", "sethex", "setstr"):
            name = dec(w[2])
            if cmd == "setstr" and len(w) > 3:
                value = w[3].encode()
                cmds.append("ea_set %s/%s %s %s" % (rflag, fn, w[2], w[3]))
            else:
                value = (pattern(int(w[4]), int(w[3])) if cmd == "set" else
                         bytes.fromhex(w[3]) if len(w) > 3 else b"")
                vf = os.path.join(workdir, "v%d_%d" % (segno, nval))
                nval += 1
                with open(vf, "wb") as f:
                    f.write(value)
                cmds.append("ea_set %s-f %s /%s %s" % (rflag, vf, fn, w[2]))
            meta.append(("set", ino, raw, name, value, line))
            if len(value) > j.bs:
                cmds.append("ea_get -r -x /%s %s" % (fn, w[2]))
                meta.append(("probe", ino, True, name, value, line))
        elif cmd == "rm":
            cmds.append("ea_rm /%s %s" % (fn, w[2]))
            meta.append(("rm", ino, raw, dec(w[2]), None, line))
        elif cmd == "get":
            cmds.append("ea_get %s-x /%s %s" % (rflag, fn, w[2]))
            meta.append(("get", ino, raw, dec(w[2]), None, line))
        elif cmd in ("list", "count"):
            cmds.append("ea_list /%s" % fn)
            meta.append(("list", ino, raw, None, None, line))
    j.slots.clear()
    if not cmds:
        return None
    sf = os.path.join(workdir, "dbg%d.cmd" % segno)
    with open(sf, "w") as f:
        f.write("\n".join(cmds) + "\n")
    # debugfs -f makes stdout and stderr unbuffered; merging them keeps errors next to their command
    r = run.run(["/bin/sh", "-c", 'exec "$0" "$@" 2>&1', ctx["debugfs"], "-w", "-f", sf, img],
                env=ctx["env_plain"], timeout=300, cap=64 << 20)
    if r.timed_out:
        return {"timeout": True}
    text = r.text
    blocks = re.split(r"(?m)^debugfs: ", text)[1:]
    if r.sig or r.rc not in (0,) or len(blocks) != len(cmds):
        k = min(len(blocks), len(cmds)) - 1
        return {"rc": r.rc, "sig": r.sig, "during": cmds[k] if k >= 0 else "?", "stderr": text[-1500:]}
    for blk, c, (kind, ino, raw, name, value, line) in zip(blocks, cmds, meta):
        body = blk.split("\n")[1:]
        j.bump("debugfs_commands")
        errl = [l for l in body if re.match(r"^ea_(set|get|rm|list): ", l)]
        if kind == "set":
            if not errl:
                st = "ok"
            elif "Insufficient space to store extended attribute" in errl[0] or \
                    "No free space" in errl[0] or "Could not allocate" in errl[0]:
                st = "nospace"
            else:
                st = "debugfs:" + re.sub(r"\d+", "N", errl[0])[:60]
            if st != "ok" and j.stored_form(raw, name, value) is None:
                st = "refused"
            j.do_set(ino, raw, name, value, st, c)
        elif kind == "rm":
            j.do_rm(ino, name, "ok" if not errl else "debugfs:" + errl[0][:60], c)
        elif kind in ("get", "probe"):
            got = None
            for l in body:
                mm = _ATTR_LINE.match(l)
                if mm and not mm.group(1):
                    got = parse_dbg_value(mm.group(4))
                    if got is None or len(got) != int(mm.group(3)):
                        j.v("debugfs ea_get-output", "%s: unparsable %r" % (c, l[:100]))
                        got = False
                    break
            if got is False:
                continue
            if kind == "probe":
                m = j.model.get(ino, {})
                if got is not None and m.get(name) == value and got != value and value.startswith(got):
                    j.v("debugfs ea_set-truncated", "%s stored %d of %d bytes without an error" %
                        (line[:100], len(got), len(value)))
                    m[name] = got
                continue
            if got is None:
                st = "notfound" if errl and "key not found" in errl[0] else \
                    ("debugfs:" + errl[0][:60] if errl else "no-output")
                j.do_get(ino, raw, name, st, None, None, None, c)
            else:
                j.do_get(ino, raw, name, "ok", got, len(got), _crc(got), c)
        elif kind == "list":
            items = []
            bad = False
            for l in body:
                mm = _ATTR_LINE.match(l)
                if not mm or mm.group(1) != "  ":
                    continue
                nm = mm.group(2).encode("latin-1")
                ln = int(mm.group(3))
                val = parse_dbg_value(mm.group(4)) if mm.group(4) is not None else None
                if mm.group(4) is not None and (val is None or len(val) != ln):
                    j.v("debugfs ea_list-output", "%s: unparsable %r" % (c, l[:100]))
                    bad = True
                    break
                items.append((nm, ln, _crc(val) if val is not None else None))
            if not bad:
                j.do_list(ino, items, "ok" if not errl else "debugfs:" + errl[0][:60], c)
    return None

# ------------------------------------------------------------------------------ on-disk oracle
def _layout(ents, value_base, region_end, what):
    """values inside the region after the entry table, 4-aligned, pairwise disjoint"""
    if not ents:
        return None
    table_end = max(e["off"] + pad4(16 + e["name_len"]) for e in ents) + 4
    spans = []
    for e in ents:
        if e["value_inum"]:
            if e["value_offs"]:
                return "%s: entry with value inode has e_value_offs %d" % (what, e["value_offs"])
            continue
        if not e["value_size"]:
            continue
        a = value_base + e["value_offs"]
        b = a + pad4(e["value_size"])
        if a < table_end or b > region_end:
            return "%s: value [%d,%d) outside [%d,%d)" % (what, a, b, table_end, region_end)
        if a % 4:
            return "%s: value offset %d not 4-aligned" % (what, a)
        spans.append((a, b))
    spans.sort()
    for (a, b), (c, d) in zip(spans, spans[1:]):
        if c < b:
            return "%s: values [%d,%d) and [%d,%d) overlap" % (what, a, b, c, d)
    return None


def inspect(path, model, unknown):
    """Independent parse of the image.  model: {ino: {name: value}}.  Returns
    dict(viol=[(key, what)], place={(ino, name): 'inode'|'block'|'ea_inode'},
    block_names={ino: [names in the xattr block]}, stats)."""
    viol = []
    place = {}
    block_names = {}
    stats = {"ea_inodes": 0, "blocks": 0, "shared_blocks": 0}

    def v(key, what):
        viol.append((key, what))

    try:
        img = I.Image(path)
    except I.FormatError as e:
        return dict(viol=[("ondisk-unparsable", str(e))], place={}, block_names={}, stats=stats)
    with img:
        sb = img.sb
        bs = img.bs
        seed = sb.csum_seed()
        blk_users = {}
        ea_refs = {}
        ea_flagged = set()
        seen_blk = set()
        parsed = {}
        for ino in range(1, sb.s_inodes_count + 1):
            if ino != I.ROOT_INO and ino < sb.first_ino:
                continue
            if not img.inode_allocated(ino):
                continue
            io = img.inode(ino)
            if io.flags & I.FL_EA_INODE:
                ea_flagged.add(ino)
            try:
                ib, bb, hdr = img.xattr_entries(io)
            except I.FormatError as e:
                v("ondisk-unparsable", "inode %d: %s" % (ino, e))
                continue
            parsed[ino] = (io, ib, bb, hdr)
            for e in ib:
                if e["value_inum"]:
                    ea_refs[e["value_inum"]] = ea_refs.get(e["value_inum"], 0) + 1
            if io.file_acl:
                blk_users.setdefault(io.file_acl, []).append(ino)
                if io.file_acl not in seen_blk:
                    seen_blk.add(io.file_acl)
                    for e in bb:
                        if e["value_inum"]:
                            ea_refs[e["value_inum"]] = ea_refs.get(e["value_inum"], 0) + 1
        stats["blocks"] = len(seen_blk)
        stats["ea_inodes"] = len(ea_flagged)
        # (c) leaked value inodes
        for e in sorted(ea_flagged):
            if e not in ea_refs:
                vi = img.inode(e)
                v("ea_inode-leak", "inode %d has EA_INODE_FL (size %d, links %d) but no entry refers to it" %
                  (e, vi.size, vi.links))
        checked_ea = set()
        for ino, (io, ib, bb, hdr) in parsed.items():
            if not ib and not bb and not io.file_acl:
                continue
            m = model.get(ino)
            # (b) block: order, hashes, header
            if io.file_acl:
                users = blk_users.get(io.file_acl, [])
                if len(users) > 1:
                    stats["shared_blocks"] += 1
                if hdr["refcount"] != len(users):
                    v("refcount block", "xattr block %d: h_refcount %d but referenced by inodes %s" %
                      (io.file_acl, hdr["refcount"], users))
                if hdr["blocks"] != 1:
                    v("ondisk-header", "xattr block %d: h_blocks %d" % (io.file_acl, hdr["blocks"]))
                keys = [(e["index"], e["name_len"], e["name"]) for e in bb]
                for a, b in zip(keys, keys[1:]):
                    if not a < b:
                        v("ondisk-order", "xattr block %d of inode %d: entry %r before %r" %
                          (io.file_acl, ino, a, b))
                        break
                err = _layout(bb, 0, bs, "xattr block %d" % io.file_acl)
                if err:
                    v("ondisk-layout", err)
                raw = img.blk(io.file_acl)
            if ib:
                base = 128 + io.extra_isize + 4
                err = _layout(ib, base, len(io.raw), "inode %d body" % ino)
                if err:
                    v("ondisk-layout", err)
            disk = {}
            for where, ents in (("inode", ib), ("block", bb)):
                for e in ents:
                    full = join_name(e["index"], e["name"])
                    key = (e["index"], e["name"])
                    val = e["value"]
                    words = None
                    if e["value_inum"]:
                        inum = e["value_inum"]
                        try:
                            ok = img.inode_allocated(inum)
                            vi = img.inode(inum)
                        except I.FormatError:
                            v("ea_inode-bad-reference", "inode %d %s: e_value_inum %d out of range" %
                              (ino, enc(full), inum))
                            disk[key] = None
                            continue
                        if not ok or not (vi.flags & I.FL_EA_INODE) or vi.links == 0:
                            v("ea_inode-bad-reference", "inode %d %s: value inode %d allocated=%s flags=%x links=%d" %
                              (ino, enc(full), inum, ok, vi.flags, vi.links))
                            disk[key] = None
                            continue
                        if vi.size != e["value_size"]:
                            v("ea_inode-size", "inode %d %s: value inode %d i_size %d, e_value_size %d" %
                              (ino, enc(full), inum, vi.size, e["value_size"]))
                        try:
                            val = img.read_file(vi)[0][:e["value_size"]]
                        except I.FormatError as ex:
                            v("ea_inode-unreadable", "value inode %d: %s" % (inum, ex))
                            disk[key] = None
                            continue
                        if inum not in checked_ea:
                            checked_ea.add(inum)
                            ref = (vi.ctime << 32) | vi.osd1
                            if ref != ea_refs.get(inum, 0):
                                v("refcount ea_inode", "value inode %d: stored reference count %d, %d entries refer "
                                  "to it" % (inum, ref, ea_refs.get(inum, 0)))
                            if vi.atime != crc.crc32c(seed, val):
                                v("ea_inode-hash", "value inode %d: stored hash %08x, crc32c of content %08x" %
                                  (inum, vi.atime, crc.crc32c(seed, val)))
                        words = [vi.atime]
                        place[(ino, full)] = "ea_inode"
                    else:
                        place[(ino, full)] = where
                    # entry hash
                    if words is None:
                        if where == "block":
                            a = e["value_offs"]
                            pv = bytes(raw[a:a + pad4(e["value_size"])]) if e["value_size"] else b""
                        else:
                            a = 128 + io.extra_isize + 4 + e["value_offs"]
                            pv = io.raw[a:a + pad4(e["value_size"])] if e["value_size"] else b""
                        pv = pv + bytes(-len(pv) % 4)
                        words = list(struct.unpack("<%dI" % (len(pv) // 4), pv))
                    need_hash = (where == "block") or bool(e["value_inum"])
                    if (need_hash or e["hash"] != 0) and e["hash"] not in entry_hashes(e["name"], words):
                        v("ondisk-entry-hash", "inode %d %s entry %s: e_hash %08x, computed %s" %
                          (ino, where, enc(full), e["hash"],
                           "/".join("%08x" % h for h in entry_hashes(e["name"], words))))
                    if key in disk:
                        v("ondisk-differs duplicate", "inode %d: %s stored twice" % (ino, enc(full)))
                    disk[key] = val
            if io.file_acl:
                block_names[ino] = [join_name(e["index"], e["name"]) for e in bb]
                want = block_hash([e["hash"] for e in bb])
                if hdr["hash"] not in (0, want):
                    v("ondisk-block-hash", "xattr block %d: h_hash %08x, computed %08x" %
                      (io.file_acl, hdr["hash"], want))
            # (a) content equals the model
            if m is not None:
                unk = unknown.get(ino, ())
                wantd = {split_name(n): (n, x) for n, x in m.items()}
                for key, (n, x) in wantd.items():
                    if key not in disk:
                        v("ondisk-differs missing", "inode %d: %s (%d bytes) not on disk (or under another index)" %
                          (ino, enc(n), len(x)))
                    elif n not in unk and disk[key] is not None and disk[key] != x:
                        v("ondisk-differs value", "inode %d: %s on disk %d bytes crc %08x (%s), model %d bytes crc %08x" %
                          (ino, enc(n), len(disk[key]), _crc(disk[key]), place.get((ino, n)), len(x), _crc(x)))
                for key in disk:
                    if key not in wantd:
                        v("ondisk-differs extra", "inode %d: on-disk entry index %d name %s not in the model" %
                          (ino, key[0], enc(key[1])))
        for ino, m in model.items():
            if m and ino not in parsed:
                v("ondisk-differs missing", "inode %d not parsable / not allocated" % ino)
            elif m and ino in parsed and not parsed[ino][1] and not parsed[ino][2] and not parsed[ino][0].file_acl:
                v("ondisk-differs missing", "inode %d: no attributes on disk, model has %d" % (ino, len(m)))
    return dict(viol=viol, place=place, block_names=block_names, stats=stats)


def craft_share(path, ino_a, ino_b):
    """Make inode B point at inode A's xattr block (h_refcount 2) by editing bytes.
    Returns the list of names in the block, or None if the precondition does not hold."""
    with I.Image(path) as img:
        a, b = img.inode(ino_a), img.inode(ino_b)
        if not a.file_acl or b.file_acl or (b.flags & I.FL_INLINE_DATA):
            return None
        ib, bb, hdr = img.xattr_entries(a)
        if hdr["refcount"] != 1 or not bb:
            return None
        blk = a.file_acl
        bs = img.bs
        has_csum = img.has_csum
        seed = img.sb.csum_seed()
        ratio = img.ratio
        block = bytearray(img.blk(blk))
        braw = bytearray(b.raw)
        boff = img.offset + img.inode_loc(ino_b)
        names = [join_name(e["index"], e["name"]) for e in bb]
        charge = 1 + sum(-(-e["value_size"] // (bs * ratio)) * ratio for e in bb if e["value_inum"])
        struct.pack_into("<I", block, 4, 2)
        if has_csum:
            block[16:20] = b"\0\0\0\0"
            c = crc.crc32c(crc.crc32c(seed, struct.pack("<Q", blk)), bytes(block))
            struct.pack_into("<I", block, 16, c)
        struct.pack_into("<I", braw, 104, blk & 0xFFFFFFFF)
        struct.pack_into("<H", braw, 118, blk >> 32)
        struct.pack_into("<I", braw, 28, b.i_blocks + charge * (bs // 512))
        if has_csum:
            nb = I.Inode(img, ino_b, bytes(braw))
            c = nb.compute_csum()
            struct.pack_into("<H", braw, 124, c & 0xFFFF)
            if len(braw) > 128 and nb.extra_isize >= 4:
                struct.pack_into("<H", braw, 130, c >> 16)
    with open(path, "r+b") as f:
        f.seek(blk * bs)
        f.write(block)
        f.seek(boff)
        f.write(braw)
    return names

# ------------------------------------------------------------------------------ execution
def fsck_problems(ctx, img):
    rr = run.run([ctx["e2fsck"], "-fn", img], env=ctx["env_plain"], timeout=300)
    if rr.timed_out:
        return None, "timeout"
    out = []
    if rr.rc != 0:
        base = os.path.basename(img)
        for l in rr.text.split("\n"):
            l = l.strip()
            if not l or l.startswith(("Pass ", "e2fsck ", base, img, "*")) or "WARNING" in l:
                continue
            l = re.sub(r"(^|\s+)\S+\? no\s*$", "", l)
            l = re.sub(r"\d+", "N", l)[:90]
            if l and l not in out:
                out.append(l)
        if not out:
            out.append("exit status %s" % rr.rc)
    return out, rr.text[-800:]


def segments_of(lines):
    """[(real lines, border)] where border is None (end), '#reopen' or '#share a b'"""
    segs = []
    cur = []
    for l in lines:
        if l.startswith("#"):
            segs.append((cur, l))
            cur = []
        else:
            cur.append(l)
    segs.append((cur, None))
    return segs


# a violation after which model and image still agree (the model adopts what was stored)
NONFATAL = ("debugfs ea_set-truncated",)


def execute(ctx, cfg, kind, variant, lines, workdir, final=True):
    """Make a fresh filesystem and run the history.  Returns a result dict."""
    out = {"viol": [], "moves": [], "placements": {}, "counts": {}, "shared": 0}
    img = os.path.join(workdir, "fs.img")
    for fn in os.listdir(workdir):
        try:
            os.unlink(os.path.join(workdir, fn))
        except OSError:
            pass
    with open(img, "wb") as f:
        f.truncate((8 << 20) if cfg["bs"] == 1024 else (16 << 20))
    r = run.run([ctx["mke2fs"]] + mke2fs_args(cfg) + [img], env=ctx["env_plain"], timeout=120)
    if r.rc != 0:
        out["harness"] = "mke2fs failed (%s): %s" % (cfg["name"], r.etext[-300:])
        return out
    j = Judge(cfg)
    drv = ctx["drv_asan"] if variant == "asan" else ctx["drv_plain"]
    env = ctx["env_asan"] if variant == "asan" else ctx["env_plain"]
    observed = {}
    moves = set()

    def run_driver(real, use_drv, use_env):
        txt = "\n".join(["open " + img] + real + ["closefs", "quit"]) + "\n"
        rr = run.run([use_drv], env=use_env, stdin=txt.encode(), timeout=300, cap=32 << 20)
        if rr.timed_out:
            return {"timeout": True}
        full = ["open IMG"] + real + ["closefs"]
        at = j.feed(full, rr.text)
        if rr.sig or rr.rc != 0 or at is not None:
            et = rr.etext
            i = et.find("==ERROR")
            if i < 0:
                i = et.find("runtime error")
            return {"rc": rr.rc, "sig": rr.sig, "during": full[at] if at is not None and at < len(full) else "?",
                    "stderr": et[max(0, i - 10):][:2500] if i >= 0 else et[-800:]}
        return None

    def look():
        res = inspect(img, j.model, j.unknown)
        for k, what in res["viol"]:
            j.v(k, what)
        if os.environ.get("C15_TRACE"):
            print("LOOK", res["stats"], sorted((k[0], enc(k[1])[:20], p) for k, p in res["place"].items()),
                  [k for k, _ in res["viol"]])
        for key, p in res["place"].items():
            if key[0] not in j.model:
                continue
            out["placements"][p] = out["placements"].get(p, 0) + 1
            prev = observed.get(key)
            if prev and prev != p:
                moves.add("%s->%s" % (prev, p))
            observed[key] = p
        for key in list(observed):
            if key not in res["place"]:
                del observed[key]
        j.place = {k: p for k, p in res["place"].items()}
        return res

    segs = segments_of(lines)
    for segno, (real, border) in enumerate(segs):
        crash = None
        if kind == "dbg":
            mk = [l for l in real if l.startswith("mkfile")]
            rest = [l for l in real if not l.startswith("mkfile")]
            if mk:
                crash = run_driver(mk, ctx["drv_plain"], ctx["env_plain"])
            if not crash:
                crash = debugfs_segment(j, rest, ctx, img, workdir, segno)
        else:
            crash = run_driver(real, drv, env)
        if j.harness:
            out["harness"] = j.harness
            return out
        if crash:
            if crash.get("timeout"):
                out["timeout"] = True
            else:
                out["crash"] = crash
            out["viol"] = j.viol[:12]
            return out
        if border is None and not final:
            break
        res = look()
        if any(k not in NONFATAL for k, _ in j.viol):
            # model and image have diverged: whatever follows would be a consequence
            out["stopped_early"] = 1
            final = False
            break
        if border and border.startswith("#share"):
            w = border.split()
            a, b = j.files.get(w[1]), j.files.get(w[2])
            if a and b and not j.model.get(b):
                before, _ = fsck_problems(ctx, img)
                names = craft_share(img, a, b)
                if names:
                    after, txt = fsck_problems(ctx, img)
                    if before is None or after is None:
                        out["timeout"] = True
                        return out
                    if not before and after:
                        out["harness"] = "crafted shared xattr block rejected by e2fsck -fn: %s / %s" % (after, txt)
                        return out
                    if before:
                        # e2fsck already objected to the image (it stops accounting at its first
                        # complaint about a block), so its verdict on the edit is not usable here
                        j.bump("share_edit_not_verifiable_by_e2fsck")
                    else:
                        j.bump("share_edit_accepted_by_e2fsck")
                    for n in names:
                        if n in j.model[a]:
                            j.model.setdefault(b, {})[n] = j.model[a][n]
                        if n in j.unknown.get(a, ()):
                            j.unknown.setdefault(b, set()).add(n)
                    out["shared"] = 1
                    look()
                    if any(k not in NONFATAL for k, _ in j.viol):
                        out["stopped_early"] = 1
                        final = False
                        break
    out["moves"] = sorted(moves)
    out["counts"] = j.counts
    out["nattrs_final"] = sum(len(m) for m in j.model.values())
    if final:
        probs, txt = fsck_problems(ctx, img)
        if probs is None:
            out["timeout"] = True
        else:
            for p in probs[:4]:
                if "i_blocks is" in p and cfg["ea_inode"]:
                    p += " (ea_inode fs)"       # keeps block-accounting errors on other filesystems apart
                j.v("e2fsck-fn " + p, txt)
        keys, det = fsckpair.pycheck(img)
        if keys:
            j.v("pyext4 " + ",".join(keys), str(det)[:600])
    seen = set()
    for k, what in j.viol:
        if k not in seen:
            seen.add(k)
            out["viol"].append((k, what))
    return out


def result_keys(res):
    ks = [k for k, _ in res.get("viol", [])]
    if res.get("crash"):
        ks.append("crash")
    return ks


def minimise(ctx, cfg, kind, variant, lines, workdir, want_key, budget=300):
    """ddmin over script lines keeping a violation whose key starts with want_key."""
    core = list(lines)

    def test(c):
        r = execute(ctx, cfg, kind, variant, c, workdir)
        return any(k.startswith(want_key) for k in result_keys(r))

    n = 2
    runs = 0
    while len(core) >= 2 and runs < budget:
        chunk = max(1, len(core) // n)
        reduced = False
        for i in range(0, len(core), chunk):
            cand = core[:i] + core[i + chunk:]
            runs += 1
            if cand and test(cand):
                core = cand
                n = max(n - 1, 2)
                reduced = True
                break
            if runs >= budget:
                break
        if not reduced:
            if chunk == 1:
                break
            n = min(len(core), n * 2)
    return core


def plan(idx):
    cfg = CONFIGS[idx % len(CONFIGS)]
    k = (idx + idx // len(CONFIGS)) % 4
    if k == 3:
        return cfg, "dbg", "plain"
    if k == 2:
        return cfg, "drv", "asan" if (idx // 4) % 2 else "plain"
    return cfg, "drv", "asan" if k == 1 else "plain"


def _run_one(arg):
    ctx, seed, idx = arg
    rng = run.rng_for(seed, "C15", idx)
    cfg, kind, variant = plan(idx)
    lines, info, stats = gen_history(rng, cfg, kind)
    out = {"idx": idx, "info": info, "stats": stats, "viol": [], "variant": variant, "kind": kind,
           "nlines": len(lines)}
    with run.Work("C15w") as w:
        res = execute(ctx, cfg, kind, variant, lines, w.dir)
        if res.get("timeout"):
            res = execute(ctx, cfg, kind, variant, lines, w.dir)      # once more before calling it a hang
        out.update(res)
        if out.get("viol") or out.get("crash"):
            out["script"] = "\n".join(lines)
            if os.environ.get("VERIF_MINIMISE"):
                k = result_keys(res)[0]
                small = minimise(ctx, cfg, kind, variant, lines, w.dir, k)
                out["minimised"] = "\n".join(small)
        if idx < 3:
            out["sample"] = lines[:14]
    return out


def main(tier, seed, replay=None, scale=1.0):
    rep = report.Report("C15", tier, seed, "exploration",
                        rule="seeded histories (30-120 set/replace/remove/get/list/reopen operations on 1-4 "
                             "inodes, 3+ open/close segments) through libext2fs (drv_xattr) and debugfs, "
                             "judged against a dict model; after every segment the image is parsed by pyext4 "
                             "(content, block order, hashes, refcounts, value inodes), at the end e2fsck -fn "
                             "and pyext4.check; non-trivial = some attribute name was found by pyext4 in two "
                             "different placements (inode body / block / value inode) at two segment ends; "
                             "distinct by (config, front end, moves, op histogram)")
    plain = build.get_build("plain")
    asan = build.get_build("asan")
    ctx = {"drv_plain": plain.driver("drv_xattr"), "drv_asan": asan.driver("drv_xattr"),
           "env_plain": run.base_env(plain), "env_asan": run.base_env(asan),
           "mke2fs": plain.tool("mke2fs"), "e2fsck": plain.tool("e2fsck"), "debugfs": plain.tool("debugfs")}
    if replay:
        c = json.load(open(os.path.join(replay, "case.json")))["case"]
        items = [(ctx, c["seed"], c["idx"])]
    else:
        n = max(16, int(BUDGET[tier] * scale))
        items = [(ctx, seed, i) for i in range(n)]
    results = run.pmap(_run_one, items, chunksize=2)
    for it, r in zip(items, results):
        if r.get("harness"):
            rep.harness_error(r["harness"])
            rep.case(None)
            continue
        if r.get("timeout"):
            rep.note_inconclusive("timeout idx=%d" % r["idx"])
            rep.case(None)
            continue
        st = r["stats"]
        nt = None
        if r.get("moves"):
            nt = json.dumps([r["info"]["config"], r["kind"], r["moves"], sorted(st["ops"].items())])
        rep.case(nt)
        rep.count("script_lines", r["nlines"])
        rep.count("histories_%s_%s" % (r["kind"], r["variant"]))
        rep.add("configs", r["info"]["config"])
        cf = CONFIGS[r["idx"] % len(CONFIGS)]
        rep.add("inode_sizes", cf["isize"])
        rep.add("feature_sets", "bs=%d ea_inode=%d metadata_csum=%d inline_data=%d" %
                (cf["bs"], cf["ea_inode"], cf["csum"], cf["inline"]))
        for k, v in st["ops"].items():
            rep.count("op_" + k, v)
        for k, v in st["prefix"].items():
            rep.count("names_" + k, v)
        for k, v in st["sizes"].items():
            rep.count("valuesize_" + k, v)
        for k, v in r.get("placements", {}).items():
            rep.count("placement_observed_" + k, v)
        for k, v in r.get("counts", {}).items():
            rep.count(k, v)
        for mv in r.get("moves", []):
            rep.count("move_" + mv)
        rep.count("histories_with_shared_block", r.get("shared", 0))
        rep.count("histories_stopped_at_first_violation", r.get("stopped_early", 0))
        rep.count("inline_data_files", r["info"]["inline_files"])
        if r.get("sample"):
            rep.sample({"config": r["info"], "first_lines": r["sample"], "moves": r.get("moves")})
        case = {"seed": it[1], "idx": it[2], "variant": r["variant"], "kind": r["kind"], "config": r["info"]}
        files = {"script.txt": r["script"].encode()} if r.get("script") else {}
        if r.get("minimised"):
            files["minimised.txt"] = r["minimised"].encode()
        for k, what in r["viol"]:
            rep.violation("C15 " + k, what, replay=case, files=files)
        if r.get("crash"):
            c = r["crash"]
            op = c["during"].split()[0] if c["during"] else "?"
            key = "C15 crash during %s" % op
            mm = re.search(r"(?:AddressSanitizer|runtime error): ?(\S+)", c["stderr"])
            if mm:
                fn = re.findall(r"#\d+ \S+ in (\w+)", c["stderr"])
                fn = [x for x in fn if not x.startswith("__interceptor") and x not in ("memcpy", "memcmp", "memmove")]
                key = "C15 asan %s in %s" % (mm.group(1), fn[0] if fn else "?")
            rep.violation(key, "%s (rc=%s sig=%s)\n%s" % (c["during"][:200], c["rc"], c["sig"], c["stderr"][:1500]),
                          replay=case, files=files)
    rep.assumptions = ["a set refused for lack of space is a violation only when the whole resulting attribute "
                       "set needs at most half of one block and no value exceeds blocksize-56",
                       "e_hash may be either the unsigned or the legacy signed-char variant; h_hash may be 0 "
                       "(never shared) or the fold of the entry hashes; in-inode entries without value inode may "
                       "carry e_hash 0",
                       "posix ACLs are compared by (tag, perm, id of USER/GROUP entries); e_id of the other "
                       "entries is not stored on disk",
                       "placement is observed by pyext4 at the end of every open..closefs segment",
                       "ASan red zones only (about half of the driver histories)"]
    return rep.finish()
