"""C04 - journal recovery can be interrupted anywhere and re-run  (fault_enumeration).

One recovery run (e2fsck -E journal_only or debugfs jr) on a C03 journal is traced at the
syscall boundary (LD_PRELOAD shim); crash images are rebuilt from every prefix of its
device writes with un-synced writes dropped in various ways; each crash image must (1) never
have the journal marked empty / recovery no longer requested while a replayed block is
missing, and (2) recover to exactly the blocks the uninterrupted run produced.
"""
import itertools
import json
import os
import shutil
import struct

from vf import build, run, report, zoo, iotrace
from vf.pyext4 import jbd2 as J, crc
from checks import C03

BUDGET = {"quick": 12, "thorough": 150}
BASES = ["ext4_1k", "ext4_32bit", "ext4_nocsum", "ext3_1k", "ext4_flex4_g", "ext4_4k"]


def crash_states(recs, rng, exhaustive_limit=6, nrandom=8):
    """Yield (prefix_len, keep_set or None, label).  prefix_len counts records."""
    mod = [i for i, r in enumerate(recs) if r.watch == 0 and iotrace.is_modifying(r)]
    sync = [i for i, r in enumerate(recs) if iotrace.is_sync(r)]
    points = sorted(set([0] + [i + 1 for i in mod] + [i + 1 for i in sync]))
    seen = set()
    for k in points:
        last_sync = max([s for s in sync if s < k], default=-1)
        durable = [i for i in mod if i < k and i <= last_sync]
        window = [i for i in mod if i < k and i > last_sync]
        variants = [("all", window)]
        if window:
            if len(window) <= exhaustive_limit:
                for n in range(len(window)):
                    for sub in itertools.combinations(window, n):
                        variants.append(("subset", list(sub)))
            else:
                for i in window:
                    variants.append(("drop1", [w for w in window if w != i]))
                    variants.append(("only1", [i]))
                for _ in range(nrandom):
                    variants.append(("random", [w for w in window if rng.random() < 0.5]))
        for lab, keepw in variants:
            keep = frozenset(durable) | frozenset(keepw)
            if keep in seen:
                continue
            seen.add(keep)
            yield k, keep, lab, len(window)


def _one(arg):
    workdir, tools, env, seed, idx, front = arg
    rng = run.rng_for(seed, "C04", idx)
    name = BASES[idx % len(BASES)]
    src = zoo.corpus_image(name, workdir)
    base = C03.Base(src)
    # journals: undamaged, with a damaged tail, or with one logged data block damaged - the last kind
    # makes recovery replay the rest and then return an error (tag checksums v2/v3), i.e. it drives
    # the error path of the sync / journal-release ordering
    for attempt in range(40):
        case = C03.gen_case(rng, base)
        if idx % 4 == 1 and not (case["damage"] == "flip-data" and case["csum"] in ("v2", "v3")):
            continue
        if case["txns"] and any(t.committed for t in case["txns"]) and \
                case["damage"] in ("none", "stale-next", "zero-tail", "missing-commit-mid", "flip-data"):
            break
    txns = case["txns"]
    lay = J.build(base.jsb, txns, case["start"], case["first_tid"], case["compat"], case["incompat"],
                  case["same_uuid"])
    options = C03.apply_damage(rng, case, lay, base)
    wd = os.path.join(workdir, "j%d" % idx)
    os.makedirs(wd, exist_ok=True)
    pre = os.path.join(wd, "pre.img")
    C03.materialise(base, src, pre, lay)
    out = {"idx": idx, "base": name, "front": front, "viol": [], "states": 0, "nontrivial": 0,
           "csum": case["csum"], "damage": case["damage"], "ntx": len(txns)}
    try:
        so = iotrace.compile_shim(workdir)
        post = os.path.join(wd, "post.img")
        shutil.copyfile(pre, post)
        trace = os.path.join(wd, "trace.bin")
        e2 = dict(env)
        e2.update(iotrace.env_for(so, trace, [post]))
        argv = ([tools["e2fsck"], "-y", "-E", "journal_only", post] if front == "e2fsck" else
                [tools["debugfs"], "-w", "-R", "jr", post])
        r = run.run(argv, env=e2, timeout=300)
        if r.timed_out or r.sig:
            out["harness"] = "traced recovery died: sig=%s timed_out=%s" % (r.sig, r.timed_out)
            return out
        recs = iotrace.parse(trace)
        why = []
        if not iotrace.selfcheck(pre, recs, post, why=why):
            out["harness"] = "trace incomplete: %s" % why[:1]
            return out
        nmod = sum(1 for x in recs if x.watch == 0 and iotrace.is_modifying(x))
        out["writes"] = nmod
        out["syncs"] = sum(1 for x in recs if iotrace.is_sync(x))
        # the uninterrupted result R and the model's idea of what had to be replayed
        expect_sets = C03.expectations(case, txns, options)
        R = open(post, "rb").read()
        bs = base.bs
        replayed = None
        for e in expect_sets:
            if all(R[b * bs:(b + 1) * bs] == d for b, d in e.items()):
                replayed = e
                break
        if replayed is None:
            out["harness"] = "uninterrupted run does not match the model (C03's business)"
            return out
        jsb_phys = base.jmap[0]
        sbblk = 1024 // bs
        skip = {sbblk, jsb_phys} | base.meta_gdt
        P = open(pre, "rb").read()
        kimg = os.path.join(wd, "k.img")
        for k, keep, lab, wlen in crash_states(recs, rng):
            ov = iotrace.replay(pre, recs, upto=k, dst_path=kimg, keep=set(keep))
            ov.close()
            out["states"] += 1
            K = open(kimg, "rb").read()
            if K != P and K != R:
                out["nontrivial"] += 1
            # (1) static ordering rule
            j = J.JSB(K[jsb_phys * bs: jsb_phys * bs + 1024])
            needs = struct.unpack_from("<I", K, 1024 + 96)[0] & 0x4
            if j.start == 0 or not needs:
                missing = [b for b, d in replayed.items() if K[b * bs:(b + 1) * bs] != d]
                if missing:
                    which = "journal marked empty" if j.start == 0 else "needs_recovery cleared"
                    out["viol"].append(("%s ordering: %s before replayed blocks are durable" % (front, which),
                                        "crash after record %d (%s, window %d): %s in the crash image while "
                                        "%d replayed block(s) (e.g. %d) are not on disk" %
                                        (k, lab, wlen, which, len(missing), missing[0])))
                    continue
            # (2) re-run recovery on the crash image
            rr = run.run([tools["e2fsck"], "-y", "-E", "journal_only", kimg], env=env, timeout=300)
            if rr.timed_out:
                out["timeouts"] = out.get("timeouts", 0) + 1
                continue
            K2 = open(kimg, "rb").read()
            ksb = K[1024:2048]
            torn_sb = base.has_csum and crc.crc32c(0xFFFFFFFF, ksb[:1020]) != struct.unpack_from("<I", ksb, 1020)[0]
            if torn_sb and (rr.rc or 0) & 8:
                # the primary superblock was caught between the separate small writes that update
                # it; e2fsck falls back to a backup superblock - if there is one it can find
                out["viol"].append(("%s torn primary superblock: re-run refuses (exit %s), %s" %
                                    (front, rr.rc, "single group: no backup" if base.groups == 1 else
                                     ("non-default blocks per group" if not base.default_bpg else
                                      "default geometry")),
                                    "crash after record %d (%s): superblock checksum invalid in the crash image "
                                    "(partial update by separate write() calls): %s" % (k, lab, rr.text[-160:])))
                out["torn"] = out.get("torn", 0) + 1
                continue
            bad = []
            for b, d in replayed.items():
                if K2[b * bs:(b + 1) * bs] != d:
                    bad.append(b)
            nb = min(len(K2), len(R)) // bs
            other = []
            if K2 != R:
                for b in range(nb):
                    if b in skip or b in replayed:
                        continue
                    if K2[b * bs:(b + 1) * bs] != R[b * bs:(b + 1) * bs]:
                        other.append(b)
                        if len(other) > 3:
                            break
            j2 = J.JSB(K2[jsb_phys * bs: jsb_phys * bs + 1024])
            needs2 = struct.unpack_from("<I", K2, 1024 + 96)[0] & 0x4
            if bad:
                out["viol"].append(("%s re-run differs: replayed block missing" % front,
                                    "crash after record %d (%s): after re-running recovery block %d does not hold "
                                    "the content the uninterrupted run wrote (e2fsck exit %s)" % (k, lab, bad[0], rr.rc)))
            elif other:
                out["viol"].append(("%s re-run differs: other block" % front,
                                    "crash after record %d (%s): block %d differs from the uninterrupted result" %
                                    (k, lab, other[0])))
            elif j2.start != 0 or needs2:
                out["viol"].append(("%s re-run leaves journal not empty" % front,
                                    "crash after record %d (%s): s_start=%d needs_recovery=%s exit %s: %s" %
                                    (k, lab, j2.start, bool(needs2), rr.rc, rr.text[-200:])))
            if len(set(v[0] for v in out["viol"])) > 4:
                break
        out["sample"] = {"base": name, "front_end": front, "csum": case["csum"], "damage": case["damage"],
                         "transactions": len(txns), "device_writes": nmod, "syncs": out["syncs"],
                         "crash_states": out["states"],
                         "trace_head": [iotrace.describe(x) for x in recs[:10] if x.watch == 0][:8]}
    finally:
        shutil.rmtree(wd, ignore_errors=True)
    return out


def main(tier, seed, replay=None, scale=1.0):
    rep = report.Report("C04", tier, seed, "fault_enumeration",
                        rule="for each traced recovery run: every prefix of its device writes x {all un-synced writes "
                             "kept, each single one dropped, only each single one kept, 8 random subsets; all subsets "
                             "when the window has <= 6 writes}; checks: static ordering rule + re-run of recovery "
                             "compared with the uninterrupted result; non-trivial = crash image differs from both the "
                             "pre-image and the final image; distinct by (journal, prefix, subset)")
    b = build.get_build("plain")
    env = run.base_env(b)
    tools = {"e2fsck": b.tool("e2fsck"), "debugfs": b.tool("debugfs")}
    with run.Work("C04") as w:
        for n in BASES:
            zoo.corpus_image(n, w.dir)
        iotrace.compile_shim(w.dir)
        if replay:
            c = json.load(open(os.path.join(replay, "case.json")))["case"]
            items = [(w.dir, tools, env, c["seed"], c["idx"], c["front"])]
        else:
            n = max(2, int(BUDGET[tier] * scale))
            items = [(w.dir, tools, env, seed, i, "e2fsck" if i % 3 else "debugfs") for i in range(n)]
        for it, r in zip(items, run.pmap(_one, items)):
            if r.get("harness"):
                rep.harness_error("journal %d: %s" % (r["idx"], r["harness"]))
                continue
            rep.evaluations += r["states"]
            for k in range(r["nontrivial"]):
                rep.nontrivial.add("j%d|%d" % (r["idx"], k))
            rep.count("journals_traced")
            rep.count("front_end " + r["front"])
            rep.count("crash_states", r["states"])
            rep.count("device_writes_traced", r.get("writes", 0))
            rep.count("sync_records", r.get("syncs", 0))
            rep.count("damage " + r["damage"])
            rep.count("csum " + r["csum"])
            if r.get("timeouts"):
                for _ in range(r["timeouts"]):
                    rep.note_inconclusive("re-run timeout")
            if r.get("sample") and len(rep.samples) < 4:
                rep.sample(r["sample"])
            seen = set()
            for k, what in r["viol"]:
                key = "C04 " + k
                if key in seen:
                    continue
                seen.add(key)
                rep.violation(key, what, replay={"seed": it[3], "idx": it[4], "front": it[5]})
    rep.assumptions = ["crash model: everything before the last completed fsync/fdatasync is durable; of the later "
                       "writes any subset may be lost; each traced write call is atomic",
                       "recovery is re-run with e2fsck -E journal_only whatever front-end was interrupted"]
    return rep.finish()
