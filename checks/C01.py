"""C01 - e2fsck repairs converge: after a repair run that claims success, `e2fsck -fn`
must exit 0.  Finite universe of structured corruptions of the committed corpus."""
import json
import os

from vf import build, run, report, zoo, corrupt, fsckpair

UNIVERSE = 60000          # ids [0, UNIVERSE); thorough runs all of it
BUDGET = {"quick": 3000, "thorough": UNIVERSE}
TAG = "C01-v1"

_U = None


def _universe(workdir, names):
    global _U
    if _U is None:
        imgs = {n: zoo.corpus_image(n, workdir) for n in names}
        _U = corrupt.Universe(TAG, imgs, UNIVERSE)
    return _U


def _one(arg):
    workdir, names, e2fsck, env, cid = arg
    u = _universe(workdir, names)
    case = u.case(cid) if cid >= 0 else u.directed(-cid - 1)
    if case is None:
        return {"cid": cid, "cls": "none", "image": "-", "descr": [], "rc1": None, "rc2": None, "codes1": [],
                "codes2": [], "timed_out": False, "sig1": None, "out2": ""}
    img = os.path.join(workdir, "c%d.img" % cid)
    fsckpair.materialise(case, u.paths[case.image], img)
    r = fsckpair.repair_pair(e2fsck, env, img, workdir, "c%d" % cid)

    def claimed(x):
        return x["rc1"] is not None and not (x["rc1"] & fsckpair.CLAIMS_SUCCESS_MASK) and \
            not x["timed_out"] and not x.get("sig1")

    if claimed(r) and r["rc2"] not in (None, 0) and len(case.op_patches) > 1:
        # reduce to a 1-minimal set of corruptions that still does not converge
        def still(c2):
            fsckpair.materialise(c2, u.paths[c2.image], img)
            r2 = fsckpair.repair_pair(e2fsck, env, img, workdir, "m%d" % cid)
            return claimed(r2) and r2["rc2"] not in (None, 0)
        small = fsckpair.minimise_case(u, case, "all", still)
        if small is not case:
            fsckpair.materialise(small, u.paths[small.image], img)
            r = fsckpair.repair_pair(e2fsck, env, img, workdir, "c%d" % cid)
            if claimed(r) and r["rc2"] not in (None, 0):
                case = small
            else:       # flaky reduction: fall back to the full case
                fsckpair.materialise(case, u.paths[case.image], img)
                r = fsckpair.repair_pair(e2fsck, env, img, workdir, "c%d" % cid)
    out = {"cid": cid, "cls": case.cls, "image": case.image, "descr": case.descr,
           "rc1": r["rc1"], "rc2": r["rc2"], "codes1": r["codes1"], "codes2": r["codes2"],
           "timed_out": r["timed_out"], "sig1": r.get("sig1"), "out2": r["out2"][-600:]}
    if r["rc2"] not in (None, 0) or r.get("sig1"):
        out["patches"] = [[o, b.hex()] for o, b in case.patches]
    try:
        os.unlink(img)
    except OSError:
        pass
    return out


def main(tier, seed, replay=None, scale=1.0):
    rep = report.Report("C01", tier, seed, "exploration",
                        rule="case id in [0,%d) -> (corpus image, 1-5 structured/unstructured "
                             "corruptions); `e2fsck -fy` then `e2fsck -fn`; non-trivial = first pass "
                             "reported >=1 problem and claimed success (exit 0-3); distinct by "
                             "corrupted (object kind, field) set" % UNIVERSE)
    b = build.get_build("plain")
    env = run.base_env(b)
    names = zoo.corpus_names("thorough")
    with run.Work("C01") as w:
        if replay:
            case = json.load(open(os.path.join(replay, "case.json")))["case"]
            ids = [case["cid"]]
        else:
            n = min(UNIVERSE, max(50, int(BUDGET[tier] * scale)))
            if os.environ.get("VERIF_CIDS"):        # development aid: a file with one case id per line
                ids = sorted(set(int(x) for x in open(os.environ["VERIF_CIDS"]).read().split()))
            elif n >= UNIVERSE:
                ids = list(range(UNIVERSE))
            else:
                rng = run.rng_for(seed, "C01-ids")
                ids = sorted(rng.sample(range(UNIVERSE), n))
        for nme in names:
            zoo.corpus_image(nme, w.dir)
        if not replay and not os.environ.get("VERIF_CIDS"):
            # directed cases (negative ids): the largest directory of every image wiped, two ways
            # ... and a file claiming the first block of a multi-block directory (two choices of directory)
            # ... and the largest directory wiped together with /lost+found
            ids = [-(k + 1) for k in range(5 * len(names))] + ids
        items = [(w.dir, names, b.tool("e2fsck"), env, cid) for cid in ids]
        results = run.pmap(_one, items, chunksize=8)
        for r in results:
            claimed = r["rc1"] is not None and not (r["rc1"] & fsckpair.CLAIMS_SUCCESS_MASK) \
                and not r["timed_out"] and not r["sig1"]
            nontriv = r["cls"] if (claimed and r["codes1"]) else None
            rep.case(nontriv)
            rep.count("first_pass_exit_%s" % r["rc1"])
            for k in r["cls"].split("+"):
                rep.add("corrupted_fields", k)
                rep.add("object_kinds", k.split(".")[0])
            rep.add("base_images", r["image"])
            if r["timed_out"]:
                rep.note_inconclusive("timeout cid=%d" % r["cid"])
                continue
            if r["sig1"]:
                # a crash of the repair run is C06's business; here the case is simply not a
                # claimed success
                rep.count("first_pass_signal")
                continue
            if not claimed:
                rep.count("first_pass_did_not_claim_success")
                continue
            rep.count("claimed_success")
            if nontriv and len(rep.samples) < 4:
                rep.sample({"cid": r["cid"], "image": r["image"], "corruption": r["descr"],
                            "fy_exit": r["rc1"], "fy_problem_codes": r["codes1"][:8], "fn_exit": r["rc2"]})
            if r["rc2"] != 0:
                # a finding is identified by the specific input: base image + the 1-minimal set of
                # corruptions (object, field, operator, old->new value) that does not converge
                key = "C01 %s: %s" % (r["image"], "; ".join("%s.%s %s %s" % tuple(d) for d in r["descr"]))
                rep.violation(key, "e2fsck -fy exit %s then e2fsck -fn exit %s (second-pass problem codes %s) "
                              "on %s cid %d: %s\n%s" %
                              (r["rc1"], r["rc2"], ",".join(r["codes2"]) or "-", r["image"], r["cid"],
                               r["descr"], r["out2"]),
                              replay={"cid": r["cid"], "image": r["image"], "descr": r["descr"],
                                      "patches": r.get("patches")})
    rep.assumptions = ["base images: committed corpus built once with the pinned mke2fs/debugfs",
                       "the universe is finite; the whole of it is soaked by the thorough tier"]
    rep.extra["universe_size"] = UNIVERSE
    rep.extra["exhaustive"] = len(ids) >= UNIVERSE if not replay else False
    return rep.finish()
