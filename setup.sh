#!/bin/sh
# Builds what does not depend on /repo: the LD_PRELOAD tracer and the pyext4 self-test.
set -e
cd "$(dirname "$0")"
if [ -f shim/iotrace.c ]; then
  gcc -O2 -g -fPIC -shared -o shim/iotrace.so shim/iotrace.c -ldl -lpthread
fi
if [ -f vf/pyext4/selftest.py ]; then
  python3 -m vf.pyext4.selftest
fi
echo setup ok
