/*
 * drv_csum - (1) exposes the CRC primitives of libext2fs, (2) probes whether the
 * library accepts a metadata object (reports the error code of the read path).
 * No oracle here.
 *
 *   crc <kind: c=crc32c_le  b=crc32c_be(big endian crc32)  s=crc16> <seed> <align> <hex>
 *   probe <image> <what> [args]      what: open | inode <ino> | dirblock <ino> <lblk>
 *                                          | extents <ino> | bitmaps | xattr <ino> | mmp
 */
#include "config.h"
#include <stdio.h>
#include <stdlib.h>
#include <string.h>
#include <stdint.h>
#include "ext2fs/ext2_fs.h"
#include "ext2fs/ext2fs.h"
#include "ext2fs/crc16.h"

static int hexval(int c)
{
	if (c >= '0' && c <= '9') return c - '0';
	if (c >= 'a' && c <= 'f') return c - 'a' + 10;
	return 0;
}

static void probe(int argc, char **argv)
{
	ext2_filsys fs = NULL;
	errcode_t r;
	const char *what = argv[1];

	r = ext2fs_open2(argv[0], NULL, EXT2_FLAG_64BITS | EXT2_FLAG_SKIP_MMP, 0, 0,
			 unix_io_manager, &fs);
	if (r || !strcmp(what, "open")) {
		printf("r probe open %ld\n", (long) r);
		if (fs) ext2fs_close(fs);
		return;
	}
	if (!strcmp(what, "desc")) {
		/* descriptors have no read call of their own: the library's verdict is
		 * ext2fs_group_desc_csum_verify(), which every consumer calls */
		dgrp_t g;
		long bad = 0;
		for (g = 0; g < fs->group_desc_count; g++)
			if (!ext2fs_group_desc_csum_verify(fs, g))
				bad++;
		printf("r probe desc %ld\n", bad);
	} else if (!strcmp(what, "inode")) {
		struct ext2_inode_large *in = calloc(1, EXT2_INODE_SIZE(fs->super));
		r = ext2fs_read_inode_full(fs, atoi(argv[2]), (struct ext2_inode *) in,
					   EXT2_INODE_SIZE(fs->super));
		printf("r probe inode %ld\n", (long) r);
		free(in);
	} else if (!strcmp(what, "dirblock")) {
		blk64_t pblk = 0;
		char *buf = malloc(fs->blocksize);
		r = ext2fs_bmap2(fs, atoi(argv[2]), NULL, NULL, 0, atoll(argv[3]), NULL, &pblk);
		if (!r)
			r = ext2fs_read_dir_block4(fs, pblk, buf, 0, atoi(argv[2]));
		printf("r probe dirblock %ld\n", (long) r);
		free(buf);
	} else if (!strcmp(what, "extents")) {
		ext2_extent_handle_t h;
		struct ext2fs_extent ex;
		errcode_t first = 0;
		r = ext2fs_extent_open(fs, atoi(argv[2]), &h);
		if (!r) {
			r = ext2fs_extent_get(h, EXT2_EXTENT_ROOT, &ex);
			while (!r || r == EXT2_ET_EXTENT_CSUM_INVALID) {
				if (r && !first) first = r;
				r = ext2fs_extent_get(h, EXT2_EXTENT_NEXT, &ex);
			}
			if (r == EXT2_ET_EXTENT_NO_NEXT) r = 0;
			if (first) r = first;
			ext2fs_extent_free(h);
		}
		printf("r probe extents %ld\n", (long) r);
	} else if (!strcmp(what, "bitmaps")) {
		r = ext2fs_read_bitmaps(fs);
		printf("r probe bitmaps %ld\n", (long) r);
	} else if (!strcmp(what, "xattr")) {
		struct ext2_inode in;
		char *buf = malloc(fs->blocksize);
		r = ext2fs_read_inode(fs, atoi(argv[2]), &in);
		if (!r)
			r = ext2fs_read_ext_attr3(fs, ext2fs_file_acl_block(fs, &in), buf,
						  atoi(argv[2]));
		printf("r probe xattr %ld\n", (long) r);
		free(buf);
	} else if (!strcmp(what, "mmp")) {
		r = ext2fs_mmp_read(fs, fs->super->s_mmp_block, NULL);
		printf("r probe mmp %ld\n", (long) r);
	} else
		printf("r probe UNKNOWN\n");
	ext2fs_free(fs);
}

int main(int argc, char **argv)
{
	char *line = NULL;
	size_t cap = 0;
	ssize_t n;

	initialize_ext2_error_table();
	if (argc > 2 && !strcmp(argv[1], "probe")) {
		probe(argc - 2, argv + 2);
		return 0;
	}
	setvbuf(stdout, NULL, _IOFBF, 1 << 16);
	while ((n = getline(&line, &cap, stdin)) > 0) {
		char kind;
		unsigned long seed;
		int align, off = 0;
		size_t len, i;
		unsigned char *raw, *buf;
		char *p;

		if (sscanf(line, "crc %c %lu %d%n", &kind, &seed, &align, &off) < 3)
			continue;
		p = line + off;
		while (*p == ' ') p++;
		len = 0;
		while (p[2 * len] && p[2 * len] != '\n') len++;
		raw = malloc(len + 64);
		/* place the buffer at the requested alignment relative to a 16-byte boundary */
		buf = (unsigned char *) ((((uintptr_t) raw + 15) & ~(uintptr_t) 15) + (align & 15));
		for (i = 0; i < len; i++)
			buf[i] = (hexval(p[2 * i]) << 4) | hexval(p[2 * i + 1]);
		if (kind == 'c')
			printf("r crc %u\n", ext2fs_crc32c_le((__u32) seed, buf, len));
		else if (kind == 'b')
			printf("r crc %u\n", ext2fs_crc32_be((__u32) seed, buf, len));
		else
			printf("r crc %u\n", (unsigned) ext2fs_crc16((crc16_t) seed, buf, len));
		free(raw);
	}
	fflush(stdout);
	return 0;
}
