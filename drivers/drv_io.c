/*
 * drv_io - executes a script of io_channel calls read from stdin, one result line per
 * call, flushed immediately (checks/C17.py drives it interactively so that it can look
 * at the backing file between calls).  No oracle in here.
 *
 * Commands (result line: "r <cmd> <err> [data]"):
 *   open <kind> <flags> <path> [undo-file]   kind: unix | unixfd | undo | test
 *                                            flags: comma list of rw,direct,excl,
 *                                            threads,nocache,bounce or "-"
 *   wt <0|1>            clear/set CHANNEL_FLAGS_WRITETHROUGH on channel->flags
 *   opt <string>        io_channel_set_options(ch, string)
 *   chk                 io_channel_set_options(ch, "verif_check_cache")
 *   bs <n>              io_channel_set_blksize
 *   rd <blk> <count>    io_channel_read_blk64; data = crc32 of every block read
 *                       (count > 0) or of the -count bytes read (count < 0)
 *   rd32 <blk> <count>  same through io_channel_read_blk
 *   wr <blk> <count> <tokenhex>   io_channel_write_blk64; the buffer is the token
 *                       repeated to the length of the write
 *   wr32 ...            same through io_channel_write_blk
 *   wb <offset> <size> <tokenhex> io_channel_write_byte
 *   zo / di / ra <blk> <count>    io_channel_zeroout / _discard / _cache_readahead
 *   fl                  io_channel_flush
 *   cl                  io_channel_close
 *   bufoff <n>          I/O buffers start n bytes after an aligned address
 *   info                block size, align, flags of the channel
 *   quit
 */
#include "config.h"
#include <stdio.h>
#include <stdlib.h>
#include <string.h>
#include <errno.h>
#include <fcntl.h>
#include <unistd.h>
#include "ext2fs/ext2_fs.h"
#include "ext2fs/ext2fs.h"

static io_channel ch;
static int unixfd_fd = -1;
static size_t bufoff;
static unsigned char *rawbuf;
static size_t rawcap;

static unsigned int crctab[256];

static void crc_init(void)
{
	unsigned int i, j, c;

	for (i = 0; i < 256; i++) {
		c = i;
		for (j = 0; j < 8; j++)
			c = (c & 1) ? (0xEDB88320U ^ (c >> 1)) : (c >> 1);
		crctab[i] = c;
	}
}

static unsigned int crc32_buf(const unsigned char *p, size_t n)
{
	unsigned int c = 0xFFFFFFFFU;

	while (n--)
		c = crctab[(c ^ *p++) & 0xff] ^ (c >> 8);
	return c ^ 0xFFFFFFFFU;
}

static const char *errname(errcode_t e)
{
	static char buf[64];

	if (e == 0) return "0";
	if (e == EIO) return "EIO";
	if (e == ENOSPC) return "ENOSPC";
	if (e == EINVAL) return "EINVAL";
	if (e == EXT2_ET_UNIMPLEMENTED) return "UNIMPL";
	if (e == EXT2_ET_OP_NOT_SUPPORTED) return "NOTSUPP";
	if (e == EXT2_ET_SHORT_READ) return "SHORTREAD";
	if (e == EXT2_ET_SHORT_WRITE) return "SHORTWRITE";
	if (e == EXT2_ET_BAD_BLOCK_NUM) return "BADBLOCKNUM";
	if (e == EXT2_ET_INVALID_ARGUMENT) return "EINVARG";
	snprintf(buf, sizeof(buf), "E%ld", (long) e);
	return buf;
}

static unsigned char *iobuf(size_t need)
{
	size_t want = need + bufoff + 8192;

	if (want > rawcap) {
		free(rawbuf);
		if (posix_memalign((void **) &rawbuf, 4096, want)) {
			printf("r fatal ENOMEM\n");
			fflush(stdout);
			exit(3);
		}
		rawcap = want;
	}
	return rawbuf + bufoff;
}

static int hexval(int c)
{
	if (c >= '0' && c <= '9') return c - '0';
	if (c >= 'a' && c <= 'f') return c - 'a' + 10;
	return -1;
}

/* fill buf[0..size) with the hex token at p, repeated */
static int fill_token(unsigned char *buf, size_t size, const char *p)
{
	unsigned char tok[1024];
	size_t n = 0, i;

	while (*p == ' ') p++;
	while (hexval(p[0]) >= 0 && hexval(p[1]) >= 0 && n < sizeof(tok)) {
		tok[n++] = (hexval(p[0]) << 4) | hexval(p[1]);
		p += 2;
	}
	if (!n)
		return -1;
	for (i = 0; i < size; i++)
		buf[i] = tok[i % n];
	return 0;
}

static int parse_flags(const char *s, int *bounce)
{
	int f = 0;

	if (strstr(s, "rw")) f |= IO_FLAG_RW;
	if (strstr(s, "direct")) f |= IO_FLAG_DIRECT_IO;
	if (strstr(s, "excl")) f |= IO_FLAG_EXCLUSIVE;
	if (strstr(s, "threads")) f |= IO_FLAG_THREADS;
	if (strstr(s, "nocache")) f |= IO_FLAG_NOCACHE;
	if (strstr(s, "bounce")) f |= IO_FLAG_FORCE_BOUNCE;
	(void) bounce;
	return f;
}

static void do_open(char *args)
{
	char kind[16] = "", flagstr[64] = "", path[512] = "", undo[512] = "";
	char fdstr[32];
	int flags;
	errcode_t r;

	if (ch) {
		printf("r open ALREADY\n");
		return;
	}
	if (sscanf(args, "%15s %63s %511s %511s", kind, flagstr, path, undo) < 3) {
		printf("r open BADARGS\n");
		return;
	}
	flags = parse_flags(flagstr, NULL);
	if (!strcmp(kind, "unix")) {
		r = unix_io_manager->open(path, flags, &ch);
	} else if (!strcmp(kind, "unixfd")) {
		int of = (flags & IO_FLAG_RW) ? O_RDWR : O_RDONLY;
#ifdef O_DIRECT
		if (flags & IO_FLAG_DIRECT_IO)
			of |= O_DIRECT;
#endif
		unixfd_fd = open(path, of);
		if (unixfd_fd < 0) {
			printf("r open E%d\n", errno);
			return;
		}
		snprintf(fdstr, sizeof(fdstr), "%d", unixfd_fd);
		r = unixfd_io_manager->open(fdstr, flags, &ch);
	} else if (!strcmp(kind, "undo")) {
		set_undo_io_backing_manager(unix_io_manager);
		r = set_undo_io_backup_file(undo);
		if (!r)
			r = undo_io_manager->open(path, flags, &ch);
	} else if (!strcmp(kind, "test")) {
		test_io_backing_manager = unix_io_manager;
		r = test_io_manager->open(path, flags, &ch);
	} else {
		printf("r open BADKIND\n");
		return;
	}
	if (r)
		ch = NULL;
	printf("r open %s\n", errname(r));
}

int main(int argc, char **argv)
{
	char *line = NULL;
	size_t cap = 0;
	ssize_t n;

	(void) argc; (void) argv;
	crc_init();
	initialize_ext2_error_table();
	setvbuf(stdout, NULL, _IOLBF, 1 << 16);
	while ((n = getline(&line, &cap, stdin)) > 0) {
		char cmd[32];
		long long a = 0, b = 0;
		int off = 0, k = 0;
		errcode_t r;

		if (sscanf(line, "%31s%n", cmd, &off) < 1)
			continue;
		if (!strcmp(cmd, "quit"))
			break;
		if (!strcmp(cmd, "open")) {
			do_open(line + off);
			fflush(stdout);
			continue;
		}
		if (!strcmp(cmd, "bufoff")) {
			sscanf(line + off, "%lld", &a);
			bufoff = (size_t) a;
			printf("r bufoff 0\n");
			fflush(stdout);
			continue;
		}
		if (!ch) {
			printf("r %s NOCHANNEL\n", cmd);
			fflush(stdout);
			continue;
		}
		if (!strcmp(cmd, "wt")) {
			sscanf(line + off, "%lld", &a);
			if (a)
				ch->flags |= CHANNEL_FLAGS_WRITETHROUGH;
			else
				ch->flags &= ~CHANNEL_FLAGS_WRITETHROUGH;
			printf("r wt 0\n");
		} else if (!strcmp(cmd, "opt")) {
			char *p = line + off, *e;

			while (*p == ' ') p++;
			e = p + strlen(p);
			while (e > p && (e[-1] == '\n' || e[-1] == ' ')) *--e = 0;
			r = io_channel_set_options(ch, p);
			printf("r opt %s\n", errname(r));
		} else if (!strcmp(cmd, "chk")) {
			fflush(stderr);
			r = io_channel_set_options(ch, "verif_check_cache");
			fflush(stderr);
			printf("r chk %s\n", errname(r));
		} else if (!strcmp(cmd, "bs")) {
			sscanf(line + off, "%lld", &a);
			r = io_channel_set_blksize(ch, (int) a);
			printf("r bs %s\n", errname(r));
		} else if (!strcmp(cmd, "rd") || !strcmp(cmd, "rd32")) {
			size_t size, i, nb;
			unsigned char *buf;
			int count;

			sscanf(line + off, "%lld %lld", &a, &b);
			count = (int) b;
			size = count < 0 ? (size_t) -count : (size_t) count * ch->block_size;
			buf = iobuf(size);
			memset(buf, 0xA5, size);	/* an untouched buffer is visible */
			if (cmd[2])
				r = io_channel_read_blk(ch, (unsigned long) a, count, buf);
			else
				r = io_channel_read_blk64(ch, (unsigned long long) a, count, buf);
			printf("r %s %s", cmd, errname(r));
			if (count < 0) {
				printf(" %08x", crc32_buf(buf, size));
			} else {
				nb = count;
				for (i = 0; i < nb; i++)
					printf(" %08x", crc32_buf(buf + i * ch->block_size,
								  ch->block_size));
			}
			printf("\n");
		} else if (!strcmp(cmd, "wr") || !strcmp(cmd, "wr32")) {
			size_t size;
			unsigned char *buf;
			int count;

			sscanf(line + off, "%lld %lld%n", &a, &b, &k);
			count = (int) b;
			size = count < 0 ? (size_t) -count : (size_t) count * ch->block_size;
			buf = iobuf(size);
			if (fill_token(buf, size, line + off + k)) {
				printf("r %s BADTOKEN\n", cmd);
			} else {
				if (cmd[2])
					r = io_channel_write_blk(ch, (unsigned long) a, count, buf);
				else
					r = io_channel_write_blk64(ch, (unsigned long long) a,
								   count, buf);
				printf("r %s %s\n", cmd, errname(r));
			}
		} else if (!strcmp(cmd, "wb")) {
			unsigned char *buf;

			sscanf(line + off, "%lld %lld%n", &a, &b, &k);
			buf = iobuf((size_t) b);
			if (fill_token(buf, (size_t) b, line + off + k)) {
				printf("r wb BADTOKEN\n");
			} else {
				r = io_channel_write_byte(ch, (unsigned long) a, (int) b, buf);
				printf("r wb %s\n", errname(r));
			}
		} else if (!strcmp(cmd, "zo")) {
			sscanf(line + off, "%lld %lld", &a, &b);
			r = io_channel_zeroout(ch, (unsigned long long) a, (unsigned long long) b);
			printf("r zo %s\n", errname(r));
		} else if (!strcmp(cmd, "di")) {
			sscanf(line + off, "%lld %lld", &a, &b);
			r = io_channel_discard(ch, (unsigned long long) a, (unsigned long long) b);
			printf("r di %s\n", errname(r));
		} else if (!strcmp(cmd, "ra")) {
			sscanf(line + off, "%lld %lld", &a, &b);
			r = io_channel_cache_readahead(ch, (unsigned long long) a,
						       (unsigned long long) b);
			printf("r ra %s\n", errname(r));
		} else if (!strcmp(cmd, "fl")) {
			r = io_channel_flush(ch);
			printf("r fl %s\n", errname(r));
		} else if (!strcmp(cmd, "cl")) {
			r = io_channel_close(ch);
			ch = NULL;
			if (unixfd_fd >= 0) {
				/* unix_close has closed it already; forget it */
				unixfd_fd = -1;
			}
			printf("r cl %s\n", errname(r));
		} else if (!strcmp(cmd, "info")) {
			printf("r info 0 bs=%d align=%d flags=0x%x mgr=%s\n", ch->block_size,
			       ch->align, ch->flags, ch->manager->name);
		} else {
			printf("r %s UNKNOWN\n", cmd);
		}
		fflush(stdout);
	}
	if (ch)
		io_channel_close(ch);
	fflush(stdout);
	return 0;
}
