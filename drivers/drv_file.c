/*
 * drv_file - executes a script of libext2fs file-I/O calls read from stdin and prints
 * the result of every call.  No oracle here; histories are generated and judged in
 * Python (checks/C09.py).
 */
#include "config.h"
#include <stdio.h>
#include <stdlib.h>
#include <string.h>
#include <errno.h>
#include <time.h>
#include "ext2fs/ext2_fs.h"
#include "ext2fs/ext2fs.h"

#define NSLOT 16
static ext2_filsys fs;
static ext2_file_t files[NSLOT];

static unsigned int crc_table[256];
static void crc_init(void)
{
	unsigned int c, n, k;
	for (n = 0; n < 256; n++) {
		c = n;
		for (k = 0; k < 8; k++)
			c = c & 1 ? 0xedb88320U ^ (c >> 1) : c >> 1;
		crc_table[n] = c;
	}
}
static unsigned int crc32z(const unsigned char *buf, size_t len)
{
	unsigned int c = 0xffffffffU;
	size_t n;
	for (n = 0; n < len; n++)
		c = crc_table[(c ^ buf[n]) & 0xff] ^ (c >> 8);
	return c ^ 0xffffffffU;
}

/* the same position-sensitive pattern is generated on the Python side */
static void fill(unsigned char *buf, size_t len, unsigned long seed)
{
	size_t k;
	for (k = 0; k < len; k++)
		buf[k] = (unsigned char) ((seed * 131 + k * 7 + (k >> 3) + (k >> 11)) & 0xff);
}

static const char *en(errcode_t e)
{
	static char b[64];
	if (e == 0) return "0";
	snprintf(b, sizeof(b), "E%ld", (long) e);
	return b;
}

int main(int argc, char **argv)
{
	char *line = NULL;
	size_t cap = 0;
	ssize_t n;
	unsigned char *buf = NULL;
	size_t bufsz = 0;
	errcode_t r;

	setvbuf(stdout, NULL, _IOLBF, 0);
	initialize_ext2_error_table();
	crc_init();
	while ((n = getline(&line, &cap, stdin)) > 0) {
		char cmd[32], s1[300];
		unsigned long long a = 0, b = 0, c = 0, d = 0;
		int s = 0, off = 0;

		if (sscanf(line, "%31s%n", cmd, &off) < 1)
			continue;
		printf("c %s", line);	/* call marker: a crash mid-call leaves the call open */
		if (!strcmp(cmd, "open")) {
			sscanf(line + off, "%299s", s1);
			r = ext2fs_open(s1, EXT2_FLAG_RW | EXT2_FLAG_64BITS, 0, 0,
					unix_io_manager, &fs);
			if (!r)
				r = ext2fs_read_bitmaps(fs);
			printf("r open %s\n", en(r));
		} else if (!strcmp(cmd, "closefs")) {
			r = ext2fs_close(fs);
			fs = 0;
			printf("r closefs %s\n", en(r));
		} else if (!strcmp(cmd, "mkfile")) {
			/* mkfile name kind(e|b|i) */
			ext2_ino_t ino = 0;
			struct ext2_inode_large inode;
			char kind[8];
			sscanf(line + off, "%299s %7s", s1, kind);
			r = ext2fs_new_inode(fs, EXT2_ROOT_INO, 0100644, 0, &ino);
			if (!r) {
				memset(&inode, 0, sizeof(inode));
				inode.i_mode = 0100644;
				inode.i_links_count = 1;
				inode.i_atime = inode.i_ctime = inode.i_mtime = 1500000000;
				inode.i_extra_isize = sizeof(struct ext2_inode_large) -
					EXT2_GOOD_OLD_INODE_SIZE;
				if (kind[0] == 'e') {
					ext2_extent_handle_t h;
					inode.i_flags |= EXT4_EXTENTS_FL;
					r = ext2fs_write_new_inode(fs, ino,
						(struct ext2_inode *) &inode);
					if (!r)
						r = ext2fs_extent_open2(fs, ino,
							(struct ext2_inode *) &inode, &h);
					if (!r) {
						ext2fs_extent_free(h);
						r = ext2fs_write_inode_full(fs, ino,
							(struct ext2_inode *) &inode,
							sizeof(inode));
					}
				} else if (kind[0] == 'i') {
					inode.i_flags |= EXT4_INLINE_DATA_FL;
					r = ext2fs_write_new_inode(fs, ino,
						(struct ext2_inode *) &inode);
					if (!r)
						r = ext2fs_inline_data_init(fs, ino);
				} else {
					r = ext2fs_write_new_inode(fs, ino,
						(struct ext2_inode *) &inode);
				}
				if (!r) {
					ext2fs_inode_alloc_stats2(fs, ino, +1, 0);
					r = ext2fs_link(fs, EXT2_ROOT_INO, s1, ino,
							EXT2_FT_REG_FILE);
					if (r == EXT2_ET_DIR_NO_SPACE) {
						r = ext2fs_expand_dir(fs, EXT2_ROOT_INO);
						if (!r)
							r = ext2fs_link(fs, EXT2_ROOT_INO, s1,
									ino, EXT2_FT_REG_FILE);
					}
				}
			}
			printf("r mkfile %s %u\n", en(r), ino);
		} else if (!strcmp(cmd, "fopen")) {
			sscanf(line + off, "%d %llu %llu", &s, &a, &b);
			if (s < 0 || s >= NSLOT || files[s]) {
				printf("r fopen NOFILE\n");	/* slot busy: ignored */
				continue;
			}
			r = ext2fs_file_open2(fs, (ext2_ino_t) a, NULL,
					      b ? EXT2_FILE_WRITE : 0, &files[s]);
			printf("r fopen %s\n", en(r));
		} else if ((!strcmp(cmd, "fclose") || !strcmp(cmd, "flush") || !strcmp(cmd, "seek") ||
			    !strcmp(cmd, "write") || !strcmp(cmd, "read") || !strcmp(cmd, "size") ||
			    !strcmp(cmd, "trunc")) && sscanf(line + off, "%d", &s) == 1 &&
			   (s < 0 || s >= NSLOT || !files[s])) {
			printf("r %s NOFILE\n", cmd);
		} else if (!strcmp(cmd, "fclose")) {
			sscanf(line + off, "%d", &s);
			r = ext2fs_file_close(files[s]);
			files[s] = 0;
			printf("r fclose %s\n", en(r));
		} else if (!strcmp(cmd, "flush")) {
			sscanf(line + off, "%d", &s);
			printf("r flush %s\n", en(ext2fs_file_flush(files[s])));
		} else if (!strcmp(cmd, "seek")) {
			__u64 pos = 0;
			sscanf(line + off, "%d %llu %llu", &s, &a, &b);
			r = ext2fs_file_llseek(files[s], a, (int) b, &pos);
			printf("r seek %s %llu\n", en(r), (unsigned long long) pos);
		} else if (!strcmp(cmd, "write")) {
			unsigned int written = 0;
			sscanf(line + off, "%d %llu %llu", &s, &a, &b);
			if (a + 1 > bufsz) { bufsz = a + 1; buf = realloc(buf, bufsz); }
			fill(buf, a, b);
			r = ext2fs_file_write(files[s], buf, (unsigned) a, &written);
			printf("r write %s %u\n", en(r), written);
		} else if (!strcmp(cmd, "read")) {
			unsigned int got = 0;
			size_t i;
			sscanf(line + off, "%d %llu", &s, &a);
			if (a + 1 > bufsz) { bufsz = a + 1; buf = realloc(buf, bufsz); }
			memset(buf, 0x5a, a);
			r = ext2fs_file_read(files[s], buf, (unsigned) a, &got);
			printf("r read %s %u %08x", en(r), got, crc32z(buf, got <= a ? got : a));
			if (got <= 64 && got <= a) {
				printf(" ");
				for (i = 0; i < got; i++) printf("%02x", buf[i]);
			}
			printf("\n");
		} else if (!strcmp(cmd, "size")) {
			__u64 sz = 0;
			sscanf(line + off, "%d", &s);
			r = ext2fs_file_get_lsize(files[s], &sz);
			printf("r size %s %llu\n", en(r), (unsigned long long) sz);
		} else if (!strcmp(cmd, "trunc")) {
			sscanf(line + off, "%d %llu", &s, &a);
			printf("r trunc %s\n", en(ext2fs_file_set_size2(files[s], a)));
		} else if (!strcmp(cmd, "punch")) {
			sscanf(line + off, "%llu %llu %llu", &a, &b, &c);
			r = ext2fs_punch(fs, (ext2_ino_t) a, NULL, NULL, b,
					 c == 0xffffffffffffffffULL ? ~0ULL : c);
			printf("r punch %s\n", en(r));
		} else if (!strcmp(cmd, "falloc")) {
			sscanf(line + off, "%llu %llu %llu %llu", &a, &b, &c, &d);
			r = ext2fs_fallocate(fs, (int) b, (ext2_ino_t) a, NULL, ~0ULL, c, d);
			printf("r falloc %s\n", en(r));
		} else if (!strcmp(cmd, "quit")) {
			break;
		} else {
			printf("r %s UNKNOWN\n", cmd);
		}
	}
	return 0;
}
