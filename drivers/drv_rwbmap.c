/*
 * drv_rwbmap - loads the allocation bitmaps of an image with a list of thread counts and
 * prints, for every round, the return value, per-group digests of the loaded block and
 * inode bitmaps, the tail-problem flags, the group ranges the loader threads were given
 * and a hash of the order in which the threads entered the shared-bitmap critical section.
 * No oracle in here (checks/C17.py compares the rounds).
 *
 * usage: drv_rwbmap <image> <delay-seed> <max-delay-us> <n> [<n> ...]
 *
 * The library hook ext2fs_verif_rwbmap_hook (rw_bitmaps.c, -DE2FSPROGS_VERIF) is used to
 * (a) record (thread, group, kind) at phase 1 and the (first, last) group of every loader
 * thread at phase 3, (b) sleep a seeded pseudo-random 0..max-delay-us at phase 0.
 * The recording uses relaxed atomics and per-slot plain stores only, so that it adds no
 * happens-before edge between loader threads (a lock here could hide a library race from
 * ThreadSanitizer).
 */
#include "config.h"
#include <stdio.h>
#include <stdlib.h>
#include <string.h>
#include <errno.h>
#include <unistd.h>
#include <pthread.h>
#include "ext2fs/ext2_fs.h"
#include "ext2fs/ext2fs.h"

extern void (*ext2fs_verif_rwbmap_hook)(int phase, unsigned int group, int kind);

#define MAXTHREADS 4096
#define MAXEVENTS  (1 << 20)

struct event { int tid; unsigned int group; int kind; };

static struct event *events;
static int nevents;			/* atomic */
static int terse;
static int nthreads;			/* atomic */
static unsigned int range_first[MAXTHREADS], range_last[MAXTHREADS];
static unsigned long delay_seed;
static unsigned int max_delay;
static int round_no;

static __thread int my_tid = -1;
static __thread unsigned long long my_rng;

static unsigned int next_rand(void)
{
	/* xorshift64* */
	my_rng ^= my_rng >> 12;
	my_rng ^= my_rng << 25;
	my_rng ^= my_rng >> 27;
	return (unsigned int) ((my_rng * 2685821657736338717ULL) >> 33);
}

static void hook(int phase, unsigned int group, int kind)
{
	int idx;

	switch (phase) {
	case 3:
		idx = __atomic_fetch_add(&nthreads, 1, __ATOMIC_RELAXED);
		my_tid = idx;
		my_rng = 0x9E3779B97F4A7C15ULL ^ (delay_seed * 1000003ULL) ^
			((unsigned long long) (round_no + 1) << 40) ^
			((unsigned long long) group << 20) ^ (unsigned int) kind;
		if (!my_rng)
			my_rng = 1;
		if (idx < MAXTHREADS) {
			range_first[idx] = group;
			range_last[idx] = (unsigned int) kind;
		}
		break;
	case 0:
		if (my_tid >= 0 && max_delay) {
			unsigned int d = next_rand() % (max_delay + 1);

			/* a third of the time do not sleep at all */
			if (d % 3)
				usleep(d);
		}
		break;
	case 1:
		idx = __atomic_fetch_add(&nevents, 1, __ATOMIC_RELAXED);
		if (idx < MAXEVENTS) {
			events[idx].tid = my_tid;
			events[idx].group = group;
			events[idx].kind = kind;
		}
		break;
	default:
		break;
	}
}

static unsigned long long fnv(unsigned long long h, const void *p, size_t n)
{
	const unsigned char *c = p;

	while (n--) {
		h ^= *c++;
		h *= 1099511628211ULL;
	}
	return h;
}

#define FNV0 14695981039346656037ULL

static const char *errname(errcode_t e)
{
	static char buf[64];

	if (e == 0) return "0";
	if (e == EXT2_ET_BLOCK_BITMAP_CSUM_INVALID) return "BBITMAP_CSUM_INVALID";
	if (e == EXT2_ET_INODE_BITMAP_CSUM_INVALID) return "IBITMAP_CSUM_INVALID";
	if (e == EXT2_ET_BLOCK_BITMAP_READ) return "BBITMAP_READ";
	if (e == EXT2_ET_INODE_BITMAP_READ) return "IBITMAP_READ";
	snprintf(buf, sizeof(buf), "E%ld", (long) e);
	return buf;
}

int main(int argc, char **argv)
{
	ext2_filsys fs;
	errcode_t r;
	int a, i;
	unsigned char *buf;
	size_t bufsz;

	if (argc < 5) {
		fprintf(stderr, "usage: drv_rwbmap image seed maxdelay n...\n");
		return 2;
	}
	terse = getenv("RWBMAP_TERSE") != NULL;	/* huge filesystems: digests only */
	delay_seed = strtoul(argv[2], NULL, 0);
	max_delay = (unsigned int) strtoul(argv[3], NULL, 0);
	events = calloc(MAXEVENTS, sizeof(*events));
	if (!events)
		return 2;
	initialize_ext2_error_table();
	r = ext2fs_open2(argv[1], 0, EXT2_FLAG_64BITS | EXT2_FLAG_THREADS, 0, 0,
			 unix_io_manager, &fs);
	if (r) {
		printf("open %s\n", errname(r));
		return 0;
	}
	printf("open 0 groups=%u flex=%u blocksize=%u cpg=%u ipg=%u chflags=0x%x\n",
	       fs->group_desc_count,
	       ext2fs_has_feature_flex_bg(fs->super) ?
			1U << fs->super->s_log_groups_per_flex : 0,
	       fs->blocksize, fs->super->s_clusters_per_group,
	       fs->super->s_inodes_per_group, fs->io->flags);
	bufsz = fs->blocksize * 2;
	buf = malloc(bufsz);
	ext2fs_verif_rwbmap_hook = hook;

	for (a = 4; a < argc; a++) {
		int n = atoi(argv[a]);
		unsigned long long ilv = FNV0, bd = FNV0, id = FNV0;
		int switches = 0, nev, nev_total, nth, distinct_tids = 0;
		dgrp_t g;

		round_no = a - 4;
		__atomic_store_n(&nevents, 0, __ATOMIC_RELAXED);
		__atomic_store_n(&nthreads, 0, __ATOMIC_RELAXED);
		fs->flags &= ~(EXT2_FLAG_BBITMAP_TAIL_PROBLEM | EXT2_FLAG_IBITMAP_TAIL_PROBLEM);

		r = ext2fs_rw_bitmaps(fs, EXT2FS_BITMAPS_INODE | EXT2FS_BITMAPS_BLOCK, n);

		nev = __atomic_load_n(&nevents, __ATOMIC_RELAXED);
		nth = __atomic_load_n(&nthreads, __ATOMIC_RELAXED);
		nev_total = nev;	/* every critical section is counted, the first MAXEVENTS are kept */
		if (nev > MAXEVENTS) nev = MAXEVENTS;
		printf("round n=%d ret=%s tail=0x%x threads=%d", n, errname(r),
		       fs->flags & (EXT2_FLAG_BBITMAP_TAIL_PROBLEM |
				    EXT2_FLAG_IBITMAP_TAIL_PROBLEM), nth);
		printf(" ranges=");
		for (i = 0; i < nth && i < MAXTHREADS; i++)
			printf("%s%u-%u", i ? "," : "", range_first[i], range_last[i]);
		{
			char *seen = calloc(nth + 2, 1);

			for (i = 0; i < nev; i++) {
				ilv = fnv(ilv, &events[i], sizeof(events[i]));
				if (i && events[i].tid != events[i - 1].tid)
					switches++;
				if (seen && events[i].tid + 1 >= 0 && events[i].tid + 1 < nth + 2 &&
				    !seen[events[i].tid + 1]) {
					seen[events[i].tid + 1] = 1;
					distinct_tids++;
				}
			}
			free(seen);
		}
		printf(" events=%d ilv=%016llx switches=%d active=%d", nev_total, ilv, switches,
		       distinct_tids);
		if (r == 0 && fs->block_map && fs->inode_map) {
			blk64_t blk_itr = EXT2FS_B2C(fs, fs->super->s_first_data_block);
			ext2_ino_t ino_itr = 1;
			unsigned int cpg = fs->super->s_clusters_per_group;
			unsigned int ipg = fs->super->s_inodes_per_group;

			if (!terse)
				printf(" bg=");
			for (g = 0; g < fs->group_desc_count; g++) {
				unsigned long long h;
				errcode_t r2;

				memset(buf, 0x5A, bufsz);
				r2 = ext2fs_get_block_bitmap_range2(fs->block_map, blk_itr,
								    cpg, buf);
				if (r2) {
					printf("ERR%ld", (long) r2);
					break;
				}
				h = fnv(FNV0, buf, cpg / 8);
				bd = fnv(bd, &h, sizeof(h));
				if (!terse)
					printf("%s%08x", g ? "," : "", (unsigned int) (h ^ (h >> 32)));
				blk_itr += cpg;
			}
			if (!terse)
				printf(" ig=");
			for (g = 0; g < fs->group_desc_count; g++) {
				unsigned long long h;
				errcode_t r2;

				memset(buf, 0x5A, bufsz);
				r2 = ext2fs_get_inode_bitmap_range2(fs->inode_map, ino_itr,
								    ipg, buf);
				if (r2) {
					printf("ERR%ld", (long) r2);
					break;
				}
				h = fnv(FNV0, buf, ipg / 8);
				id = fnv(id, &h, sizeof(h));
				if (!terse)
					printf("%s%08x", g ? "," : "", (unsigned int) (h ^ (h >> 32)));
				ino_itr += ipg;
			}
			printf(" bdig=%016llx idig=%016llx", bd, id);
		} else {
			printf(" maps=%d%d", fs->block_map != NULL, fs->inode_map != NULL);
		}
		printf("\n");
		fflush(stdout);
		if (fs->block_map) {
			ext2fs_free_block_bitmap(fs->block_map);
			fs->block_map = NULL;
		}
		if (fs->inode_map) {
			ext2fs_free_inode_bitmap(fs->inode_map);
			fs->inode_map = NULL;
		}
	}
	ext2fs_verif_rwbmap_hook = NULL;
	ext2fs_free(fs);
	printf("done\n");
	return 0;
}
