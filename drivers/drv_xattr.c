/*
 * drv_xattr - executes a script of libext2fs extended-attribute calls read from stdin and
 * prints the result of every call.  No oracle here; histories are generated and judged in
 * Python (checks/C15.py).
 *
 * Names are percent-encoded in both directions (%HH for any byte outside [A-Za-z0-9_.:-]).
 * An inode argument is either a number or @<name> (looked up in the root directory).
 */
#include "config.h"
#include <stdio.h>
#include <stdlib.h>
#include <string.h>
#include <errno.h>
#include <ctype.h>
#include "ext2fs/ext2_fs.h"
#include "ext2fs/ext2fs.h"

#define NSLOT 16
static ext2_filsys fs;
static struct ext2_xattr_handle *hs[NSLOT];

static unsigned int crc_table[256];
static void crc_init(void)
{
	unsigned int c, n, k;
	for (n = 0; n < 256; n++) {
		c = n;
		for (k = 0; k < 8; k++)
			c = c & 1 ? 0xedb88320U ^ (c >> 1) : c >> 1;
		crc_table[n] = c;
	}
}
static unsigned int crc32z(const unsigned char *buf, size_t len)
{
	unsigned int c = 0xffffffffU;
	size_t n;
	for (n = 0; n < len; n++)
		c = crc_table[(c ^ buf[n]) & 0xff] ^ (c >> 8);
	return c ^ 0xffffffffU;
}

/* the same position-sensitive pattern is generated on the Python side */
static void fill(unsigned char *buf, size_t len, unsigned long seed)
{
	size_t k;
	for (k = 0; k < len; k++)
		buf[k] = (unsigned char) ((seed * 131 + k * 7 + (k >> 3) + (k >> 11)) & 0xff);
}

static const char *en(errcode_t e)
{
	static char b[64];
	if (e == 0) return "0";
	snprintf(b, sizeof(b), "E%ld", (long) e);
	return b;
}

static int hexv(int c)
{
	if (c >= '0' && c <= '9') return c - '0';
	if (c >= 'a' && c <= 'f') return c - 'a' + 10;
	if (c >= 'A' && c <= 'F') return c - 'A' + 10;
	return -1;
}

static void pct_decode(char *s)
{
	char *to = s;
	while (*s) {
		if (*s == '%' && hexv(s[1]) >= 0 && hexv(s[2]) >= 0) {
			*to++ = (char) (hexv(s[1]) * 16 + hexv(s[2]));
			s += 3;
		} else
			*to++ = *s++;
	}
	*to = 0;
}

static void pct_print(const char *s)
{
	for (; *s; s++) {
		unsigned char c = (unsigned char) *s;
		if (isalnum(c) || c == '_' || c == '.' || c == ':' || c == '-')
			putchar(c);
		else
			printf("%%%02x", c);
	}
}

static ext2_ino_t parse_ino(const char *s)
{
	ext2_ino_t ino = 0;
	if (s[0] == '@') {
		if (!fs || ext2fs_namei(fs, EXT2_ROOT_INO, EXT2_ROOT_INO, s + 1, &ino))
			return 0;
		return ino;
	}
	return (ext2_ino_t) strtoul(s, NULL, 0);
}

static int list_cb(char *name, char *value, size_t value_len, void *data)
{
	int *n = data;
	(*n)++;
	printf(" ");
	pct_print(name);
	printf("=%lu:%08x", (unsigned long) value_len,
	       crc32z((unsigned char *) value, value_len));
	return 0;
}

static int count_cb(char *name, char *value, size_t value_len, void *data)
{
	(*(int *) data)++;
	return 0;
}

int main(int argc, char **argv)
{
	char *line = NULL;
	size_t cap = 0;
	ssize_t n;
	unsigned char *buf = NULL;
	size_t bufsz = 0;
	errcode_t r;

	setvbuf(stdout, NULL, _IOLBF, 0);
	initialize_ext2_error_table();
	crc_init();
	while ((n = getline(&line, &cap, stdin)) > 0) {
		char cmd[32], s1[1200], s2[1200];
		unsigned long long a = 0, b = 0;
		int s = 0, off = 0, k;

		if (sscanf(line, "%31s%n", cmd, &off) < 1)
			continue;
		if (cmd[0] == '#')
			continue;
		printf("c %s", line);	/* call marker: a crash mid-call leaves the call open */
		if (line[n - 1] != '\n')
			printf("\n");
		s1[0] = s2[0] = 0;
		if (!strcmp(cmd, "open")) {
			sscanf(line + off, "%1199s", s1);
			r = ext2fs_open(s1, EXT2_FLAG_RW | EXT2_FLAG_64BITS, 0, 0,
					unix_io_manager, &fs);
			if (!r)
				r = ext2fs_read_bitmaps(fs);
			/* numeric values of the codes the judge classifies (no verdict here) */
			printf("i errcodes nospace=E%ld,E%ld,E%ld,E%ld notfound=E%ld\n",
			       (long) EXT2_ET_EA_NO_SPACE, (long) ENOSPC,
			       (long) EXT2_ET_BLOCK_ALLOC_FAIL, (long) EXT2_ET_INODE_ALLOC_FAIL,
			       (long) EXT2_ET_EA_KEY_NOT_FOUND);
			printf("r open %s\n", en(r));
		} else if (!strcmp(cmd, "quit")) {
			break;
		} else if (!fs) {
			printf("r %s NOFS\n", cmd);
		} else if (!strcmp(cmd, "closefs")) {
			for (k = 0; k < NSLOT; k++)
				if (hs[k])
					ext2fs_xattrs_close(&hs[k]);
			r = ext2fs_close(fs);
			fs = 0;
			printf("r closefs %s\n", en(r));
		} else if (!strcmp(cmd, "mkfile")) {
			/* mkfile name [inline nbytes seed] */
			ext2_ino_t ino = 0;
			struct ext2_inode inode;
			unsigned int flags = 0;
			int inl;

			k = sscanf(line + off, "%1199s %1199s %llu %llu", s1, s2, &a, &b);
			inl = (k >= 2 && !strcmp(s2, "inline"));
			r = ext2fs_new_inode(fs, EXT2_ROOT_INO, 0100644, 0, &ino);
			if (!r) {
				memset(&inode, 0, sizeof(inode));
				inode.i_mode = 0100644;
				inode.i_links_count = 1;
				inode.i_atime = inode.i_ctime = inode.i_mtime = 1500000000;
				if (inl) {
					inode.i_flags |= EXT4_INLINE_DATA_FL;
					r = ext2fs_write_new_inode(fs, ino, &inode);
					if (!r)
						r = ext2fs_inline_data_init(fs, ino);
				} else if (ext2fs_has_feature_extents(fs->super)) {
					ext2_extent_handle_t h;
					inode.i_flags |= EXT4_EXTENTS_FL;
					r = ext2fs_write_new_inode(fs, ino, &inode);
					if (!r)
						r = ext2fs_extent_open2(fs, ino, &inode, &h);
					if (!r) {
						ext2fs_extent_free(h);
						r = ext2fs_write_inode(fs, ino, &inode);
					}
				} else
					r = ext2fs_write_new_inode(fs, ino, &inode);
				if (!r) {
					ext2fs_inode_alloc_stats2(fs, ino, +1, 0);
					r = ext2fs_link(fs, EXT2_ROOT_INO, s1, ino,
							EXT2_FT_REG_FILE);
					if (r == EXT2_ET_DIR_NO_SPACE) {
						r = ext2fs_expand_dir(fs, EXT2_ROOT_INO);
						if (!r)
							r = ext2fs_link(fs, EXT2_ROOT_INO, s1,
									ino, EXT2_FT_REG_FILE);
					}
				}
				if (!r && inl && a) {
					ext2_file_t f;
					unsigned int w = 0;
					if (a + 1 > bufsz) { bufsz = a + 1; buf = realloc(buf, bufsz); }
					fill(buf, a, b);
					r = ext2fs_file_open(fs, ino, EXT2_FILE_WRITE, &f);
					if (!r) {
						r = ext2fs_file_write(f, buf, (unsigned) a, &w);
						if (!r)
							r = ext2fs_file_close(f);
						else
							ext2fs_file_close(f);
					}
				}
				if (!r) {
					r = ext2fs_read_inode(fs, ino, &inode);
					flags = inode.i_flags;
				}
			}
			printf("r mkfile %s %u %x\n", en(r), ino, flags);
		} else if (!strcmp(cmd, "xopen")) {
			ext2_ino_t ino;
			unsigned int fl = 0;
			k = sscanf(line + off, "%d %1199s %1199s", &s, s1, s2);
			if (k < 2 || s < 0 || s >= NSLOT || hs[s]) {
				printf("r xopen NOSLOT\n");
				continue;
			}
			ino = parse_ino(s1);
			if (!ino) {
				printf("r xopen NOFILE\n");
				continue;
			}
			r = ext2fs_xattrs_open(fs, ino, &hs[s]);
			if (!r && k >= 3 && !strcmp(s2, "raw")) {
				fl = XATTR_HANDLE_FLAG_RAW;
				r = ext2fs_xattrs_flags(hs[s], &fl, NULL);
			}
			if (!r)
				r = ext2fs_xattrs_read(hs[s]);
			if (r && hs[s])
				ext2fs_xattrs_close(&hs[s]);
			printf("r xopen %s %u\n", en(r), ino);
		} else if (!strcmp(cmd, "inode_refcount")) {
			struct ext2_inode inode;
			ext2_ino_t ino;
			sscanf(line + off, "%1199s", s1);
			ino = parse_ino(s1);
			r = ext2fs_read_inode(fs, ino, &inode);
			if (r)
				printf("r inode_refcount %s\n", en(r));
			else
				printf("r inode_refcount 0 %llu %08x %x %u %u %u\n",
				       (unsigned long long) ext2fs_get_ea_inode_ref(&inode),
				       ext2fs_get_ea_inode_hash(&inode), inode.i_flags,
				       inode.i_size, inode.i_blocks, inode.i_links_count);
		} else if ((!strcmp(cmd, "xclose") || !strcmp(cmd, "set") || !strcmp(cmd, "sethex") ||
			    !strcmp(cmd, "setstr") ||
			    !strcmp(cmd, "get") || !strcmp(cmd, "rm") || !strcmp(cmd, "list") ||
			    !strcmp(cmd, "count")) &&
			   (sscanf(line + off, "%d", &s) != 1 || s < 0 || s >= NSLOT || !hs[s])) {
			printf("r %s NOSLOT\n", cmd);
		} else if (!strcmp(cmd, "xclose")) {
			r = ext2fs_xattrs_close(&hs[s]);
			hs[s] = 0;
			printf("r xclose %s\n", en(r));
		} else if (!strcmp(cmd, "set")) {
			sscanf(line + off, "%d %1199s %llu %llu", &s, s1, &a, &b);
			pct_decode(s1);
			if (a + 1 > bufsz) { bufsz = a + 1; buf = realloc(buf, bufsz); }
			fill(buf, a, b);
			r = ext2fs_xattr_set(hs[s], s1, buf, (size_t) a);
			printf("r set %s\n", en(r));
		} else if (!strcmp(cmd, "setstr")) {
			/* value = the literal token (may be absent: empty value) */
			s2[0] = 0;
			sscanf(line + off, "%d %1199s %1199s", &s, s1, s2);
			pct_decode(s1);
			r = ext2fs_xattr_set(hs[s], s1, s2, strlen(s2));
			printf("r setstr %s\n", en(r));
		} else if (!strcmp(cmd, "sethex")) {
			char *hex, *p = line + off;
			size_t len = 0;
			int c = 0;
			sscanf(p, "%d %1199s %n", &s, s1, &c);
			pct_decode(s1);
			hex = p + c;
			if (strlen(hex) / 2 + 1 > bufsz) {
				bufsz = strlen(hex) / 2 + 1;
				buf = realloc(buf, bufsz);
			}
			while (hexv(hex[0]) >= 0 && hexv(hex[1]) >= 0) {
				buf[len++] = (unsigned char) (hexv(hex[0]) * 16 + hexv(hex[1]));
				hex += 2;
			}
			r = ext2fs_xattr_set(hs[s], s1, buf, len);
			printf("r sethex %s\n", en(r));
		} else if (!strcmp(cmd, "get")) {
			void *val = NULL;
			size_t len = 0, i;
			sscanf(line + off, "%d %1199s", &s, s1);
			pct_decode(s1);
			r = ext2fs_xattr_get(hs[s], s1, &val, &len);
			if (r) {
				printf("r get %s\n", en(r));
				continue;
			}
			printf("r get 0 %lu %08x", (unsigned long) len,
			       crc32z((unsigned char *) val, len));
			if (len <= 128) {
				printf(" ");
				for (i = 0; i < len; i++)
					printf("%02x", ((unsigned char *) val)[i]);
			}
			printf("\n");
			ext2fs_free_mem(&val);
		} else if (!strcmp(cmd, "rm")) {
			sscanf(line + off, "%d %1199s", &s, s1);
			pct_decode(s1);
			r = ext2fs_xattr_remove(hs[s], s1);
			printf("r rm %s\n", en(r));
		} else if (!strcmp(cmd, "list")) {
			int cnt = 0;
			printf("r list");
			r = ext2fs_xattrs_iterate(hs[s], list_cb, &cnt);
			printf(" ; %s %d\n", en(r), cnt);
		} else if (!strcmp(cmd, "count")) {
			size_t cnt = 0;
			int it = 0;
			r = ext2fs_xattrs_count(hs[s], &cnt);
			if (!r)
				r = ext2fs_xattrs_iterate(hs[s], count_cb, &it);
			printf("r count %s %lu %d\n", en(r), (unsigned long) cnt, it);
		} else {
			printf("r %s UNKNOWN\n", cmd);
		}
	}
	return 0;
}
