/*
 * drv_bitmap - executes a script of bitmap API calls read from stdin and prints the
 * result of every call.  No oracle in here; histories are generated and judged in
 * Python (checks/C16.py).
 *
 * With -DDRV_DEBUG_RB the rbtree backend is compiled from source into the driver with
 * its own DEBUG_RB structural check (check_tree) enabled; a broken tree invariant ends
 * the process with "Tree Error" on stderr and exit status 1.
 */
#include "config.h"
#include <stdio.h>
#include <stdlib.h>
#include <string.h>
#include <errno.h>
#include "ext2fs/ext2_fs.h"
#include "ext2fs/ext2fs.h"

#ifdef DRV_DEBUG_RB
#define DEBUG_RB
#include "blkmap64_rb.c"
#endif

#define NSLOT 16
static ext2fs_generic_bitmap slot[NSLOT];
static ext2_filsys fs;

static const char *errname(errcode_t e)
{
	static char buf[64];
	if (e == 0) return "0";
	if (e == ENOENT) return "ENOENT";
	if (e == EINVAL) return "EINVAL";
	if (e == EXT2_ET_INVALID_ARGUMENT) return "EINVARG";
	snprintf(buf, sizeof(buf), "E%ld", (long) e);
	return buf;
}

static int hexval(int c)
{
	if (c >= '0' && c <= '9') return c - '0';
	if (c >= 'a' && c <= 'f') return c - 'a' + 10;
	return 0;
}

static void setup_fs(int cluster_bits, int flag64)
{
	struct ext2_super_block param;
	errcode_t r;
	int i;

	for (i = 0; i < NSLOT; i++)
		if (slot[i]) { ext2fs_free_generic_bmap(slot[i]); slot[i] = 0; }
	if (fs) { ext2fs_free(fs); fs = 0; }
	memset(&param, 0, sizeof(param));
	ext2fs_blocks_count_set(&param, 32768);
	param.s_inodes_count = 4096;
	if (cluster_bits) {
		ext2fs_set_feature_bigalloc(&param);
		param.s_log_cluster_size = cluster_bits;
	}
	r = ext2fs_initialize("test fs", flag64 ? EXT2_FLAG_64BITS : 0, &param,
			      test_io_manager, &fs);
	if (r) { printf("r fs %s\n", errname(r)); return; }
	printf("r fs 0 cbits=%d\n", fs->cluster_ratio_bits);
}

int main(int argc, char **argv)
{
	char *line = NULL;
	size_t cap = 0;
	ssize_t n;
	unsigned char *buf = NULL;

	setvbuf(stdout, NULL, _IOFBF, 1 << 16);
	initialize_ext2_error_table();
	while ((n = getline(&line, &cap, stdin)) > 0) {
		char cmd[32];
		unsigned long long a = 0, b = 0, c = 0, d = 0, e = 0;
		char s1[8] = "", hex[1] = "";
		int s = 0, off = 0;
		(void) hex;

		if (sscanf(line, "%31s%n", cmd, &off) < 1)
			continue;
		if (!strcmp(cmd, "fs")) {
			sscanf(line + off, "%llu %llu", &a, &b);
			setup_fs((int) a, (int) b);
			continue;
		}
		if (!strcmp(cmd, "dirs")) {
			sscanf(line + off, "%llu", &a);
			ext2fs_bg_used_dirs_count_set(fs, 0, (__u32) a);
			printf("r dirs 0\n");
			continue;
		}
		if (!strcmp(cmd, "new")) {
			/* new slot magic type start end real_end */
			errcode_t r, magic;
			sscanf(line + off, "%d %7s %llu %llu %llu %llu", &s, s1, &a, &b, &c, &d);
			if (slot[s]) { ext2fs_free_generic_bmap(slot[s]); slot[s] = 0; }
			if (a == 0) {
				magic = s1[0] == 'I' ? EXT2_ET_MAGIC_INODE_BITMAP :
					s1[0] == 'B' ? EXT2_ET_MAGIC_BLOCK_BITMAP :
					EXT2_ET_MAGIC_GENERIC_BITMAP;
				r = ext2fs_make_generic_bitmap(magic, fs, (__u32) b, (__u32) c,
							       (__u32) d, "legacy", 0, &slot[s]);
			} else {
				magic = s1[0] == 'I' ? EXT2_ET_MAGIC_INODE_BITMAP64 :
					s1[0] == 'B' ? EXT2_ET_MAGIC_BLOCK_BITMAP64 :
					EXT2_ET_MAGIC_GENERIC_BITMAP64;
				r = ext2fs_alloc_generic_bmap(fs, magic, (int) a, b, c, d,
							      "drv", &slot[s]);
			}
			printf("r new %s\n", errname(r));
			continue;
		}
		if (!strcmp(cmd, "newsub")) {
			errcode_t r;
			sscanf(line + off, "%d", &s);
			if (slot[s]) { ext2fs_free_generic_bmap(slot[s]); slot[s] = 0; }
			r = ext2fs_allocate_subcluster_bitmap(fs, "sub", &slot[s]);
			printf("r newsub %s\n", errname(r));
			continue;
		}
		if (!strcmp(cmd, "deftype")) {
			sscanf(line + off, "%llu", &a);
			fs->default_bitmap_type = (int) a;
			printf("r deftype 0\n");
			continue;
		}
		if (!strcmp(cmd, "quit"))
			break;
		/* everything else: first arg is a slot */
		if (sscanf(line + off, "%d%n", &s, &n) < 1 || s < 0 || s >= NSLOT) {
			printf("r %s BADSLOT\n", cmd);
			continue;
		}
		off += n;
		if (!strcmp(cmd, "free")) {
			if (slot[s]) ext2fs_free_generic_bmap(slot[s]);
			slot[s] = 0;
			printf("r free 0\n");
			continue;
		}
		if (!slot[s]) { printf("r %s NOSLOT\n", cmd); continue; }
		if (!strcmp(cmd, "mark")) {
			sscanf(line + off, "%llu", &a);
			printf("r mark %d\n", !!ext2fs_mark_generic_bmap(slot[s], a));
		} else if (!strcmp(cmd, "unmark")) {
			sscanf(line + off, "%llu", &a);
			printf("r unmark %d\n", !!ext2fs_unmark_generic_bmap(slot[s], a));
		} else if (!strcmp(cmd, "test")) {
			sscanf(line + off, "%llu", &a);
			printf("r test %d\n", !!ext2fs_test_generic_bmap(slot[s], a));
		} else if (!strcmp(cmd, "mrange")) {
			sscanf(line + off, "%llu %llu", &a, &b);
			ext2fs_mark_block_bitmap_range2(slot[s], a, (unsigned) b);
			printf("r mrange 0\n");
		} else if (!strcmp(cmd, "urange")) {
			sscanf(line + off, "%llu %llu", &a, &b);
			ext2fs_unmark_block_bitmap_range2(slot[s], a, (unsigned) b);
			printf("r urange 0\n");
		} else if (!strcmp(cmd, "trange")) {
			sscanf(line + off, "%llu %llu", &a, &b);
			printf("r trange %d\n",
			       ext2fs_test_block_bitmap_range2(slot[s], a, (unsigned) b));
		} else if (!strcmp(cmd, "itrange")) {
			sscanf(line + off, "%llu %llu", &a, &b);
			printf("r itrange %d\n",
			       ext2fs_test_inode_bitmap_range(slot[s], (ext2_ino_t) a, (int) b));
		} else if (!strcmp(cmd, "get")) {
			errcode_t r;
			size_t nb, i;
			sscanf(line + off, "%llu %llu", &a, &b);
			nb = (b + 7) >> 3;
			buf = realloc(buf, nb + 1);
			memset(buf, 0xA5, nb);	/* poison: an untouched buffer is visible */
			r = ext2fs_get_generic_bmap_range(slot[s], a, (unsigned) b, buf);
			printf("r get %s ", errname(r));
			for (i = 0; i < nb; i++) printf("%02x", buf[i]);
			printf("\n");
		} else if (!strcmp(cmd, "set")) {
			errcode_t r;
			size_t nb, i;
			char *p;
			int k = 0;
			sscanf(line + off, "%llu %llu%n", &a, &b, &k);
			nb = (b + 7) >> 3;
			buf = realloc(buf, nb + 1);
			p = line + off + k;
			while (*p == ' ') p++;
			for (i = 0; i < nb; i++) {
				buf[i] = (hexval(p[0]) << 4) | hexval(p[1]);
				p += 2;
			}
			r = ext2fs_set_generic_bmap_range(slot[s], a, (unsigned) b, buf);
			printf("r set %s\n", errname(r));
		} else if (!strcmp(cmd, "ffz")) {
			__u64 out = 0xdeadbeef;
			errcode_t r;
			sscanf(line + off, "%llu %llu", &a, &b);
			r = ext2fs_find_first_zero_generic_bmap(slot[s], a, b, &out);
			if (r) printf("r ffz %s\n", errname(r));
			else printf("r ffz 0 %llu\n", (unsigned long long) out);
		} else if (!strcmp(cmd, "ffs")) {
			__u64 out = 0xdeadbeef;
			errcode_t r;
			sscanf(line + off, "%llu %llu", &a, &b);
			r = ext2fs_find_first_set_generic_bmap(slot[s], a, b, &out);
			if (r) printf("r ffs %s\n", errname(r));
			else printf("r ffs 0 %llu\n", (unsigned long long) out);
		} else if (!strcmp(cmd, "copy")) {
			int dst = 0;
			errcode_t r;
			sscanf(line + off, "%d", &dst);
			if (slot[dst]) { ext2fs_free_generic_bmap(slot[dst]); slot[dst] = 0; }
			r = ext2fs_copy_generic_bmap(slot[s], &slot[dst]);
			printf("r copy %s\n", errname(r));
		} else if (!strcmp(cmd, "resize")) {
			sscanf(line + off, "%llu %llu", &a, &b);
			printf("r resize %s\n",
			       errname(ext2fs_resize_generic_bmap(slot[s], a, b)));
		} else if (!strcmp(cmd, "fudge")) {
			__u64 oend = 0;
			errcode_t r;
			sscanf(line + off, "%llu", &a);
			r = ext2fs_fudge_generic_bmap_end(slot[s], 7777, a, &oend);
			if (r)
				printf("r fudge %s\n", r == 7777 ? "NEQ" : errname(r));
			else
				printf("r fudge 0 %llu\n", (unsigned long long) oend);
		} else if (!strcmp(cmd, "pad")) {
			ext2fs_set_generic_bmap_padding(slot[s]);
			printf("r pad 0\n");
		} else if (!strcmp(cmd, "cmp")) {
			int o = 0;
			errcode_t r;
			sscanf(line + off, "%d", &o);
			r = ext2fs_compare_generic_bmap(7777, slot[s], slot[o]);
			printf("r cmp %s\n", r == 7777 ? "NEQ" : errname(r));
		} else if (!strcmp(cmd, "clear")) {
			ext2fs_clear_generic_bmap(slot[s]);
			printf("r clear 0\n");
		} else if (!strcmp(cmd, "start")) {
			printf("r start %llu\n",
			       (unsigned long long) ext2fs_get_generic_bmap_start(slot[s]));
		} else if (!strcmp(cmd, "end")) {
			printf("r end %llu\n",
			       (unsigned long long) ext2fs_get_generic_bmap_end(slot[s]));
		} else if (!strcmp(cmd, "count")) {
			blk64_t out = 0xdeadbeef;
			errcode_t r;
			ext2fs_block_bitmap save = fs->block_map;
			sscanf(line + off, "%llu %llu", &a, &b);
			fs->block_map = slot[s];
			r = ext2fs_count_used_blocks(fs, a, b, &out);
			fs->block_map = save;
			if (r) printf("r count %s\n", errname(r));
			else printf("r count 0 %llu\n", (unsigned long long) out);
		} else if (!strcmp(cmd, "subcluster")) {
			/* convert a block-granular bitmap into the fs's cluster bitmap */
			errcode_t r = ext2fs_convert_subcluster_bitmap(fs, &slot[s]);
			printf("r subcluster %s\n", errname(r));
		} else {
			printf("r %s UNKNOWN\n", cmd);
		}
		(void) c; (void) d; (void) e;
	}
	fflush(stdout);
	return 0;
}
