/*
 * drv_iomt - several threads share ONE cached unix io_channel (IO_FLAG_THREADS) and issue
 * single-block reads and writes on a small set of blocks.  Every written buffer carries a
 * unique 64-bit id (thread << 40 | counter) repeated over the block, so a read identifies the
 * write it observed.  Each call is logged with its invocation and response time taken from one
 * monotonic clock *outside* the call (client boundary); the log is written after all threads
 * have joined.  No oracle in here: checks/C17.py decides register linearizability per block.
 *
 * usage: drv_iomt <file> <blocksize> <nblocks> <threads> <ops-per-thread> <seed> <delay-permille> <log>
 *
 * With -DE2FSPROGS_VERIF the hook ext2fs_verif_unixio_hook is used to stretch the window in
 * which a cached read has dropped the cache mutex (delay-permille of the misses sleep a little).
 *
 * log lines: "<thread> <R|r|W> <block> <id-hex> <t_call_ns> <t_ret_ns> <err>"   (r = a read whose
 *            8-byte words are not all equal; id is the first word)
 *            "F <block> <id-hex> <id-hex-of-backing-file>"       final state after join + flush
 *            "T <torn reads/final blocks whose words are not all equal>"
 */
#include "config.h"
#include <stdio.h>
#include <stdlib.h>
#include <string.h>
#include <stdint.h>
#include <errno.h>
#include <fcntl.h>
#include <unistd.h>
#include <time.h>
#include <pthread.h>
#include "ext2fs/ext2_fs.h"
#include "ext2fs/ext2fs.h"

#ifdef E2FSPROGS_VERIF
extern void (*ext2fs_verif_unixio_hook)(int where, unsigned long long block);
#endif

struct rec { char op; unsigned blk; uint64_t id, t0, t1; long err; };
struct thr {
	pthread_t th; int idx; unsigned seed; struct rec *recs; int n;
};

static io_channel ch;
static int bs, nblocks, nops, delay_pm;
static volatile int torn;
static pthread_barrier_t bar;

static uint64_t now_ns(void)
{
	struct timespec ts;

	clock_gettime(CLOCK_MONOTONIC, &ts);
	return (uint64_t) ts.tv_sec * 1000000000ull + ts.tv_nsec;
}

static unsigned rnd(unsigned *s)
{
	*s = *s * 1103515245u + 12345u;
	return (*s >> 8) & 0xffffff;
}

static __thread unsigned hook_seed;

static void hook(int where, unsigned long long block)
{
	(void) block;
	if (!hook_seed)
		hook_seed = (unsigned) (uintptr_t) &hook_seed | 1;
	if (where == 1 && (int) (rnd(&hook_seed) % 1000) < delay_pm) {
		struct timespec ts = { 0, 20000 + (rnd(&hook_seed) % 200) * 1000 };

		nanosleep(&ts, NULL);
	} else if (where == 1)
		sched_yield();
}

static uint64_t block_id(const unsigned char *buf, int *is_torn)
{
	uint64_t v, w;
	int i;

	memcpy(&v, buf, 8);
	for (i = 8; i + 8 <= bs; i += 8) {
		memcpy(&w, buf + i, 8);
		if (w != v) {
			*is_torn = 1;
			break;
		}
	}
	return v;
}

static void *worker(void *arg)
{
	struct thr *t = arg;
	unsigned char *buf;
	uint64_t ctr = 0;
	int i, k;

	if (posix_memalign((void **) &buf, 4096, bs))
		exit(2);
	pthread_barrier_wait(&bar);
	for (i = 0; i < nops; i++) {
		struct rec *r = &t->recs[t->n++];
		unsigned x = rnd(&t->seed);

		r->blk = rnd(&t->seed) % nblocks;
		if (x % 100 < 45) {
			r->op = 'W';
			r->id = ((uint64_t) (t->idx + 1) << 40) | ++ctr;
			for (k = 0; k + 8 <= bs; k += 8)
				memcpy(buf + k, &r->id, 8);
			r->t0 = now_ns();
			r->err = io_channel_write_blk64(ch, r->blk, 1, buf);
			r->t1 = now_ns();
		} else {
			int tr = 0;

			r->op = 'R';
			r->t0 = now_ns();
			r->err = io_channel_read_blk64(ch, r->blk, 1, buf);
			r->t1 = now_ns();
			r->id = block_id(buf, &tr);
			if (tr)
				r->op = 'r';	/* words differ: judged by the checker */
		}
		if (x % 997 == 0)
			sched_yield();
	}
	free(buf);
	return NULL;
}

int main(int argc, char **argv)
{
	struct thr *T;
	unsigned char *buf;
	errcode_t err;
	FILE *log;
	int nthreads, i, j, fd;
	unsigned seed;

	if (argc != 9) {
		fprintf(stderr, "usage\n");
		return 2;
	}
	bs = atoi(argv[2]); nblocks = atoi(argv[3]); nthreads = atoi(argv[4]);
	nops = atoi(argv[5]); seed = (unsigned) strtoul(argv[6], NULL, 0); delay_pm = atoi(argv[7]);
	err = unix_io_manager->open(argv[1], IO_FLAG_RW | IO_FLAG_THREADS, &ch);
	if (err) {
		fprintf(stderr, "open: %ld\n", (long) err);
		return 2;
	}
	io_channel_set_blksize(ch, bs);
#ifdef E2FSPROGS_VERIF
	if (delay_pm >= 0)
		ext2fs_verif_unixio_hook = hook;
#else
	(void) hook;
#endif
	T = calloc(nthreads, sizeof(*T));
	pthread_barrier_init(&bar, NULL, nthreads);
	for (i = 0; i < nthreads; i++) {
		T[i].idx = i;
		T[i].seed = seed * 2654435761u + i * 40503u + 1;
		T[i].recs = calloc(nops, sizeof(struct rec));
		pthread_create(&T[i].th, NULL, worker, &T[i]);
	}
	for (i = 0; i < nthreads; i++)
		pthread_join(T[i].th, NULL);
	log = fopen(argv[8], "w");
	if (!log)
		return 2;
	for (i = 0; i < nthreads; i++)
		for (j = 0; j < T[i].n; j++) {
			struct rec *r = &T[i].recs[j];

			fprintf(log, "%d %c %u %llx %llu %llu %ld\n", i, r->op, r->blk,
				(unsigned long long) r->id, (unsigned long long) r->t0,
				(unsigned long long) r->t1, r->err);
		}
	/* quiescent: what the channel says, then what the device holds after a flush */
	if (posix_memalign((void **) &buf, 4096, bs))
		return 2;
	{
		uint64_t *via = calloc(nblocks, sizeof(uint64_t));

		for (i = 0; i < nblocks; i++) {
			int tr = 0;

			err = io_channel_read_blk64(ch, i, 1, buf);
			via[i] = err ? ~0ull : block_id(buf, &tr);
			torn += tr;
		}
		err = io_channel_flush(ch);
		if (err)
			fprintf(log, "E flush %ld\n", (long) err);
		fd = open(argv[1], O_RDONLY);
		for (i = 0; i < nblocks; i++) {
			int tr = 0;
			uint64_t dev = ~0ull;

			if (pread(fd, buf, bs, (off_t) i * bs) == bs)
				dev = block_id(buf, &tr);
			torn += tr;
			fprintf(log, "F %d %llx %llx\n", i, (unsigned long long) via[i],
				(unsigned long long) dev);
		}
		close(fd);
	}
	fprintf(log, "T %d\n", torn);
	fclose(log);
	io_channel_close(ch);
	return 0;
}
