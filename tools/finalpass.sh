#!/bin/bash
# tools/finalpass.sh [seeds...]  -- run every registered quick check on /repo's working tree for the
# given seeds (default 1 2 3), one after the other, and print one status line per run.  The last
# run of each check uses the registered command line itself (no --seed), so that evidence/Cxx.json
# is what a fresh `./check Cxx --tier quick` writes.
cd "$(dirname "$0")/.."
SEEDS=${*:-1 2 3}
LOG=${FINALPASS_LOG:-/dev/shm/finalpass.log}
: > "$LOG"
props=$(python3 -c "import json; print(' '.join(c['property_id'] for c in json.load(open('MANIFEST.json'))['checks']))")
for s in $SEEDS; do
  for p in $props; do
    ./check $p --tier quick --seed $s > /dev/shm/fp_$p.out 2>&1
    rc=$?
    echo "seed=$s $p rc=$rc $(grep -c '^VIOLATION' /dev/shm/fp_$p.out) violations $(grep -c '^KNOWN-FINDING' /dev/shm/fp_$p.out) known $(grep '^\[C' /dev/shm/fp_$p.out | tail -1)" | tee -a "$LOG"
    [ $rc -ne 0 ] && cp /dev/shm/fp_$p.out /dev/shm/fp_${p}_seed$s.fail
  done
done
for p in $props; do
  ./check $p --tier quick > /dev/shm/fp_$p.out 2>&1
  echo "final $p rc=$? $(grep '^\[C' /dev/shm/fp_$p.out | tail -1)" | tee -a "$LOG"
done
