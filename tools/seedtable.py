#!/usr/bin/env python3
"""tools/seedtable.py  ->  markdown table of the seeded changes (seeded/*/meta.json) for DESIGN.md 7.5"""
import json, os, sys
HERE = os.path.dirname(os.path.dirname(os.path.abspath(__file__)))
# what had to be strengthened before the check caught the change ("" = caught as it was)
AFTER = {
    "C07-sparse2-last-group-not-trimmed": "directed boundary configurations: sparse_super2 with the last group right below / at the keep rule (the covering sampler only met the motif by luck: after one more factor was added to the lattice the same seed no longer did)",
    "C07-stride-bitmap-past-group-end": "directed boundary configurations: without flex_bg, the stride that shifts the bitmaps of group 1 onto the last block of the group (computed from the planned geometry)",
    "C01-rehash-dup-name-hash": "new corruption operator: the same name 2-4 times in one directory",
    "C01-lnf-expand-quota-bigalloc": "bigalloc+quota corpus image with a 700-entry directory; directed cases wiping the largest directory together with /lost+found, so that the re-created /lost+found has to grow by new clusters (an earlier 'catch' had been the unchanged tree's own pass-2 quota defect, fixed: 2873c2cd)",
    "C02-inode-scan-csum-window": "corpus image whose inode tables are 26 blocks per group (not a multiple of the 8-block scan window)",
    "C02-check-desc-one-pass": "new operator: a bitmap consistently relocated onto another owner's block (found a genuine defect first, fixed: b97b4e21)",
    "C03-wrap-to-block-1": "external journal devices (s_first = 2/3) in the journal generator",
    "C04-sync-skipped-on-error": "journals whose replay ends with an error (one data block failing its v2/v3 tag checksum)",
    "C04-flush-skips-fsync-after-eviction": "journal shape 'revoked tail' (8-20 logged blocks revoked by the last transaction)",
    "C08-dirblock-csum-not-rewritten": "multi-block directory of hard links to low inodes, created in a high group, on the shrink images (found debugfs rm leaking xattr blocks first, fixed: 9f99a3b3)",
    "C08-desperation-ignores-reserve": "engineered 'packed' images (first 15 groups full to the last block and inode, files behind them, forced shrink below the estimate) with mostly-zero file data - with dense data the changed resize2fs aborted with the error flag, which the property allows",
    "C09-truncate-keeps-buffer": "motif shrink-inside-the-buffered-block then regrow through the same handle",
    "C09-extent-first-block-merge-parents": "motif 'leaf edges': > 84 extents, written block + 2-block preallocation groups, then writes into the first preallocated block",
    "C11-inode-bitmap-not-repointed": "^flex_bg + RAID stride base image and a forced 'grow inode size on a stride layout' sequence",
    "C12-reopen-forgets-partial-tail": "chain kind 'tailmkfs': device length not a multiple of the 32 KiB undo block, later runs write into the tail again",
    "C13-e2undo-dryrun-unfinished": "e2undo -n (also -f, -v) on an undo file left unfinished by its recording run",
    "C14-inode-csum-extra-isize-4": "producer pipeline rewriting inodes with i_extra_isize 4..32 through debugfs",
    "C17-thread-start-32bit-wrap": "sparse filesystems with more than 2^32 clusters (1 thread vs 2,3,5,16)",
    "C19-l2-cache-partial-clear": "156 MiB block-mapped file on the sparse ext3 image: metadata in > 512 qcow2 L2 tables",
    "C11-full-htree-node-csum-tail": "base image with a 4500-entry directory compacted by e2fsck -fD while checksums were off (full interior htree node, every leaf with spare room) and a forced 'enable metadata_csum on a full htree node' sequence",
    "C20-backup-search-bigalloc-stride": "bigalloc geometries and a restore variant with only the primary descriptors destroyed (e2fsck's own backup search with the superblock intact); found two genuine defects first (fixed: 029167eb, b5a730c1)",
    "C19-qcow2-raw-skips-clusters-past-fs-size": "tiny filesystems filled to the last block, so that the qcow2 file is larger than the filesystem (found a genuine defect first, fixed: e83f2662)",
    "C17-read-overwrites-concurrent-write": "part (C): threads sharing one cached channel, unique values, offline register check, hook-stretched miss window (found a genuine lost-write race first, fixed: fdd739d0; the seeded patch is kept ported onto that fix)",
    "C14-journal-writer-escape-after-tag-csum": "pipeline through debugfs' journal writer (checksum v2/v3, blocks to escape, revoke) with an independent log walker recomputing every journal checksum",
    "C05-rehash-casefold-compare-without-flag": "corpus image with the casefold feature and case-SENSITIVE single-block directories holding names that differ only in case",
    "C01-clone-dirblock-list-unadjusted-bigalloc": "directed cases: a regular file claims the first block of a multi-block directory (passes 1B-1D must clone it) on every corpus image, incl. the three bigalloc ones",
    "C05-empty-xattr-value-collision": "corpus image with 128-byte inodes and empty-valued attributes in xattr blocks",
}
# changes whose own demonstration passes on the final tree: a later repair made the property hold in spite of them
NEUTRAL = {
    "C02-check-desc-one-pass": "no longer breaks the property: since fix b97b4e21 pass 1 detects a table placed on a later "
                               "group's backup blocks independently of ext2fs_check_desc(); the change's own demonstration "
                               "passes on the changed build of the final tree (it was caught by C02 before that fix went in)",
}
rows = []
for name in sorted(os.listdir(os.path.join(HERE, "seeded"))):
    mp = os.path.join(HERE, "seeded", name, "meta.json")
    if not os.path.exists(mp):
        continue
    m = json.load(open(mp))
    det = m.get("detection") or {}
    checks = det.get("checks") or (m.get("confirmation") or {}).get("checks") or {}
    caught = sorted(c for c, v in checks.items() if v.get("exit") == 1)
    summ = (m.get("summary") or "").replace("\n", " ").replace("|", "/")
    if len(summ) > 230:
        summ = summ[:227].rsplit(" ", 1)[0] + " ..."
    after = AFTER.get(name, "")
    if name in NEUTRAL and not caught:
        rows.append("| %s | %s | %s |" % (name, summ, NEUTRAL[name]))
        continue
    if after is None or not caught:
        verdict = "**not caught**"
        if after:
            verdict += " (tried: %s)" % after
    else:
        verdict = ", ".join(caught) + (" - after: " + after if after else "")
    rows.append("| %s | %s | %s |" % (name, summ, verdict))
print("| seeded change | what it does | caught by |\n|---|---|---|")
print("\n".join(rows))
