#!/usr/bin/env python3
"""tools/c09run.py <config-name> <script-file> [plain|asan]: run a C09 script on a fresh fs, show driver output + verdict"""
import sys, os
sys.path.insert(0, os.path.dirname(os.path.dirname(os.path.abspath(__file__))))
from vf import build, run
from checks import C09
cfg = [c for c in C09.CONFIGS if c[0] == sys.argv[1]][0]
variant = sys.argv[3] if len(sys.argv) > 3 else "plain"
b = build.get_build(variant); p = build.get_build("plain")
body = [l.rstrip("\n") for l in open(sys.argv[2]) if l.strip()]
if not body[0].startswith("open"): body = ["open IMG"] + body
if not any(l.startswith("closefs") for l in body): body += ["fclose %d" % k for k in range(6)] + ["closefs"]
os.makedirs("/dev/shm/c09run", exist_ok=True)
res = C09.execute(b.driver("drv_file"), run.base_env(b), p.tool("mke2fs"), p.tool("e2fsck"), cfg, body, 5, "/dev/shm/c09run")
for k, w in res.get("viol", []): print("VIOL", k, "|", w[:300])
if res.get("crash"): print("CRASH", res["crash"]["during"], res["crash"]["stderr"][:600])
print("image left at /dev/shm/c09run/fs.img")
