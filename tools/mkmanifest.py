#!/usr/bin/env python3
"""Generates /verif/MANIFEST.json from the table below (single source of truth)."""
import json
import os
import subprocess

HERE = os.path.dirname(os.path.dirname(os.path.abspath(__file__)))

ALL = ["C%02d" % i for i in range(1, 21)]

# property -> (category, technique, level text, level note, design ref)
CHECKS = {
    "C16": ("exploration",
            "model-based runtime monitoring: random API histories on every bitmap backend judged "
            "against a Python reference set; ASan+bounds build and DEBUG_RB tree-invariant build",
            "Every result of every bitmap call in seeded random histories (mark/unmark/test, range "
            "ops, bulk get/set, find-first, copy, resize, fudge, padding, compare, clear, "
            "count_used) on bitarray, rbtree, autodir and legacy 32-bit backends, incl. cluster "
            "bitmaps, equals a reference set; held on the histories explored, not a proof.",
            "Trusts the 60-line Python set model; ranges used as libext2fs callers use them "
            "(byte-aligned bulk ranges, set_range onto clear ranges); ASan red zones only.",
            "DESIGN.md section 2, C16"),
    "C13": ("exploration",
            "runtime monitoring at the device boundary: SHA-256 + size + hole map + mtime of the target "
            "before/after every read-only invocation, and strace -f -y as an interposition-proof "
            "witness of write-class syscalls on the target",
            "For (image state, read-only invocation) pairs over consistent, journal-pending, orphan, MMP, "
            "stale-quota, error-flagged, primary-superblock-destroyed and corrupted states and 29 "
            "invocations of 9 tools, the target (and external journal / undo / e2i file) is byte-, size- "
            "and hole-identical afterwards and no write-class syscall touched it; held on the pairs run.",
            "Targets are regular files on tmpfs (no block-device ioctls); strace sees every syscall of "
            "the traced quarter (all pairs in thorough); three write controls prove the witnesses work.",
            "DESIGN.md section 2, C13"),
    "C17": ("exploration",
            "model-based runtime monitoring of the io_channel API (byte-array device model + cache-"
            "coherence hook + LD_PRELOAD write-failure injection, fault_enumeration over every device "
            "write of sampled histories) and ThreadSanitizer runs of threaded bitmap loading with "
            "hook-injected delays, digests compared with single-threaded loading",
            "Every read of seeded io_channel histories (unix cached/uncached/direct/bounce, unixfd, undo- and "
            "test_io-wrapped) returns the model's bytes, the backing file equals the model after flush "
            "(with fsync) and close, every injected write failure is reported, clean cache entries equal "
            "the device; bitmap loading with 1..N threads gives identical bitmaps/flags, thread ranges "
            "partition the groups, and TSan is silent on the schedules observed (counted).",
            "Schedules are sampled (hook delays), not enumerated; TSan only sees intercepted "
            "synchronisation; fault injection on the plain build only; ASan red zones.",
            "DESIGN.md section 2, C17"),
    "C09": ("exploration",
            "model-based runtime monitoring: seeded histories of ext2fs_file_*/punch/fallocate calls "
            "(C driver, no oracle inside) judged against a sparse byte-array model, independent "
            "read-back by pyext4, e2fsck -fn + independent checker; plain and ASan builds",
            "Every read, the final bytes of every file as seen by a reader that shares no code with "
            "libext2fs, sizes, and filesystem consistency (incl. i_blocks/bitmaps via e2fsck -fn and "
            "pyext4) match the model over histories on extent, block-mapped, bigalloc and inline-data "
            "files at 1k/4k blocks, interleaved over 3-5 files, empty and nearly full filesystems.",
            "After an allocation failure the failing file's content is no longer judged; fallocate is "
            "used as its callers use it (no initialised blocks past EOF, FORCE_INIT only with zeroing).",
            "DESIGN.md section 2, C09"),
    "C12": ("exploration",
            "runtime monitoring at the device boundary: SHA-256 of the device before the first recorded "
            "run vs after e2undo over tool chains, kill/unfinished injection (LD_PRELOAD), and "
            "fault_enumeration of single-bit damage judged with an independent undo-layout parser",
            "Chains of 1-5 recorded runs (mke2fs/tune2fs/resize2fs/e2fsck/debugfs/e2undo -z) restore "
            "byte-exactly over the original length; abnormally ended recordings restore and mark the fs; "
            "every sampled single-bit damage of header/key/data blocks and foreign undo files are "
            "refused without a write; -n never writes.",
            "Kill model = process death (page cache survives); undo block sizes are those the tools "
            "pick; three located defects are listed as known findings (F1, F5, F8).",
            "DESIGN.md section 2, C12"),
    "C19": ("exploration",
            "runtime monitoring with an independent metadata enumeration (pyext4) and an independent "
            "qcow2 reader: byte comparison of every metadata block between source and image, tool "
            "output equality, source hash/mtime before/after",
            "For corpus images, images with pending journals and multi-GB sparse images crossing qcow2 L2 "
            "and refcount-block boundaries: every metadata block identical in -r/-Q images, e2fsck/"
            "dumpe2fs agree, qcow2->raw equals direct raw and the independent qcow2 reader, -ra preserves "
            "every owned block and the tree digest, source never modified.",
            "Exemptions are exactly e2image's documented omissions (backup sb/gdt, uninit bitmaps/tables).",
            "DESIGN.md section 2, C19"),
    "C20": ("exploration",
            "runtime monitoring with an independent backup-placement formula and field-wise comparison "
            "(pyext4), plus destroy-primary/restore-from-each-backup experiments judged by e2fsck -fn, "
            "the independent checker and the tree digest",
            "Over generated geometries (1k-4k blocks, 1-130 groups, sparse_super/sparse_super2/none, "
            "meta_bg, flex_bg, 64bit) after mke2fs and after resize2fs/tune2fs/repairing e2fsck: every "
            "prescribed backup location holds a valid current copy, none elsewhere, and restoring from "
            "first/last/other backups yields a consistent filesystem with an identical tree.",
            "meta_bg last-group descriptor copies are judged statically only (libext2fs never reads them).",
            "DESIGN.md section 2, C20"),
    "C03": ("exploration",
            "runtime monitoring against an executable reference model: journals written by an independent "
            "JBD2 writer (own CRCs, tag formats, escapes, revokes, wrap) into corpus images, replayed by both "
            "front-ends, every filesystem block compared with the model's prediction",
            "For generated journals (0-12 transactions, 32/64-bit tags, csum none/v1/v2/v3, async, multi-"
            "descriptor, escapes, revokes before/after, wrapped logs) with missing/stale/corrupted tails, "
            "e2fsck -E journal_only and debugfs jr leave exactly the committed, unrevoked images in place, "
            "everything else untouched, the journal empty and needs_recovery clear; e2fsck -fy ends clean.",
            "Writer and model come from the format description (a shared misunderstanding of the format would "
            "be invisible); internal journals only; a checksum-failed descriptor may stop replay earlier.",
            "DESIGN.md section 2, C03"),
    "C04": ("fault_enumeration",
            "offline checker over a recorded syscall trace (LD_PRELOAD iotrace): crash images rebuilt from "
            "every prefix of the recovery run's device writes with un-synced writes dropped, a static "
            "write-ordering rule, and re-running recovery on each crash image",
            "For traced recovery runs of both front-ends: at no crash point is the journal marked empty or "
            "needs_recovery cleared while a replayed block is missing, and re-running recovery on every crash "
            "image reproduces the uninterrupted result (crash states enumerated per prefix: all kept, each "
            "single write dropped/only kept, random subsets, all subsets for windows <= 6).",
            "Crash model: completed fsync makes earlier writes durable, each traced write call is atomic; "
            "torn primary superblocks without a reachable backup are a listed known finding.",
            "DESIGN.md section 2, C04"),
    "C05": ("exploration",
            "runtime monitoring with an independent tree digest (pyext4) before/after every repair mode on "
            "consistent images and after summary/checksum-only corruptions, plus e2fsck -fn and the "
            "independent checker afterwards",
            "Repair modes -fp/-fy/-fyD/-E bmap2extent/-E fixes_only leave every path, type, byte, size, "
            "mode, owner, link group, symlink target and xattr unchanged on corpus images and generated "
            "directories; damage confined to bitmaps, counts, UNINIT flags and checksum fields is repaired "
            "without changing any file (finite universe of 30000 cases, quick samples it).",
            "Timestamps are not compared; failing cases are reduced to a 1-minimal corruption set before keying.",
            "DESIGN.md section 2, C05"),
    "C08": ("exploration",
            "runtime monitoring: independent tree digest/consistency/size checks around resize2fs runs and an "
            "offline checker over recorded write traces for the EXT2_ERROR_FS flag rule at every prefix",
            "Over images built by the tree (flex_bg, meta_bg, bigalloc, sparse_super2, full, ...) and targets "
            "(minimum, group boundaries +-1, random, -M, 32<->64 bit, chains): success leaves a consistent fs "
            "of the requested size with an identical tree; refusals change nothing; in traced runs every "
            "prefix between first modification and final superblock rewrite carries the error flag, made "
            "durable by an fsync first.",
            "Offline resize only; the flag rule is judged on the traced subset chosen to cover what runs did.",
            "DESIGN.md section 2, C08"),
    "C14": ("fault_enumeration",
            "independent recomputation of every checksum in images written by the tree's tools, a bit-flip "
            "sweep over checksum-covered bytes judged by the library read path and e2fsck -fn, and CRC "
            "primitives compared with bitwise definitions",
            "Every checksummed object produced by mke2fs/debugfs/tune2fs/resize2fs/repairing e2fsck carries "
            "the format's checksum per an independent implementation; a flipped bit in any sampled covered "
            "byte of superblock, descriptors, bitmaps, inodes, extent/dir/htree/xattr blocks, MMP is rejected "
            "by the library and by e2fsck -fn; crc32c/crc16/crc32-be equal their definitions for lengths "
            "0-600 x alignments 0-15.",
            "Journal block checksums are covered by C03; descriptor checksum acceptance by e2fsck -fn is a "
            "listed known finding.",
            "DESIGN.md section 2, C14"),
    "C18": ("exploration",
            "runtime monitoring with the host filesystem as the oracle: generated trees populated via mke2fs "
            "-d / debugfs scripts / tar, image read back only by pyext4 and compared with lstat/readlink/"
            "listxattr/SEEK_HOLE; rdump/dump/cat output compared with the source",
            "Names, types incl. devices/fifos/sockets, bytes, sizes, holes, symlink targets, hard-link groups, "
            "full modes, 32-bit owners, mtimes, user xattrs match the host tree for every generated tree and "
            "14 feature sets; images are consistent and byte-reproducible; extraction returns the same data.",
            "Host tree on tmpfs; route B limited to what debugfs can express; tar route compares no xattrs/holes.",
            "DESIGN.md section 2, C18"),
    "C07": ("exploration",
            "runtime monitoring of mke2fs over a seeded covering sample (pairwise, then random) of its option "
            "lattice x boundary device sizes: e2fsck -fn, the independent checker, an independent parse of the "
            "resulting geometry/features/backups (pyext4 + own geometry arithmetic), byte hashes for -n and for "
            "repeated identical runs",
            "For every accepted configuration sampled (block/cluster/inode size, -i/-N, features, journal size, "
            "sizes at one-group / tiny-last-group / descriptor-block / meta_bg boundaries, -g, -G, resize=, RAID, "
            "offset, packed_meta_blocks, num_backup_sb, -d trees): e2fsck -fn exits 0, the independent checker is "
            "silent, parsed geometry and features equal the request, backups are exactly where prescribed and "
            "agree; mke2fs -n writes nothing; identical runs are byte-identical.",
            "Refused configurations carry no claim; sparse files up to 64 GB, no real block devices; the reserved "
            "block share is compared although the statement names it only implicitly (-m is part of the request).",
            "DESIGN.md section 2, C07"),
    "C10": ("exploration",
            "model-based runtime monitoring: debugfs namespace histories generated from a Python namespace model "
            "(legal commands and expected failures), interleaved with e2fsck -fyD/-fy; after every chunk the "
            "independent reader's listing, link counts, inode/block accounting, htree hash ranges (own hash "
            "functions) and e2fsck -fn are compared with the model",
            "For 300-3000-command histories on linear, htree (1-2 levels; 3 in thorough) and inline-data "
            "directories at 1k/4k blocks with/without metadata_csum, filetype, dir_nlink: every directory lists "
            "exactly the model's names with the right inode type, identity and link count, expected failures "
            "fail, removed objects release inode and blocks, hash ranges are ordered, the filesystem is "
            "consistent after every chunk.",
            "Names exclude NUL, '/', LF, CR; debugfs ln/unlink are paired with sif links_count as their design "
            "requires; casefold/encrypted directories cannot be created here.",
            "DESIGN.md section 2, C10"),
    "C11": ("exploration",
            "model-based runtime monitoring of tune2fs sequences: independent superblock parse/diff against a "
            "settings model, independent tree digest before/after, the follow-up e2fsck exactly when tune2fs "
            "asks for it, then e2fsck -fn and the independent checker",
            "For sequences of 1-8 tune2fs invocations (feature toggles incl. metadata_csum/uninit_bg/journal/quota/"
            "project/extent/csum_seed/mmp/ea_inode/orphan_file, -U, -I, -J, -Q, -e/-c/-C/-i, -L/-M, -m/-r, -E, -o; "
            "forced orders such as csum off -> UUID -> csum on) on populated images built by the tree: each "
            "accepted run changes exactly the requested setting, keeps every file, and leaves (after the "
            "requested e2fsck, if any) a consistent filesystem; refusals change nothing.",
            "Unmounted filesystems only; acceptance is taken from the exit status, the model only predicts side "
            "effects that the option implies.",
            "DESIGN.md section 2, C11"),
    "C15": ("exploration",
            "model-based runtime monitoring: random histories of ext2fs_xattr_* calls (C driver, no oracle inside; "
            "plain and ASan builds) and debugfs ea_* commands judged against a Python dict model, with an "
            "independent parse of inode body / xattr block / EA inodes (order, hashes, refcounts, leaks) and "
            "e2fsck -fn + independent checker after every close",
            "For 30-120-operation histories over all name prefixes, name lengths 1-255, values 0 bytes to 64 KiB, "
            "inode sizes 128-1024, +-ea_inode, +-metadata_csum, 1k/4k blocks, shared xattr blocks (refcount 2) and "
            "inline-data files: every get/list equals the model, entries are in kernel order with correct "
            "hashes and refcounts, no block or EA inode is leaked or freed twice, the filesystem stays consistent.",
            "A refusal (no space) near the placement limit is accepted either way; POSIX ACL names use well-formed "
            "ACLs or raw mode; ASan red zones only.",
            "DESIGN.md section 2, C15"),
    "C01": ("exploration",
            "runtime monitoring of the two-pass protocol (e2fsck -fy, then e2fsck -fn) over a finite, "
            "enumerable universe of structured corruptions of committed corpus images; the oracle is the "
            "pair of exit statuses, the problem log gives the finding signature",
            "For 60000 enumerated corruption cases (superblock, descriptors, bitmaps, inodes, extent/indirect "
            "blocks, directory leaves, htree nodes, xattr blocks, journal superblock, special inodes, block "
            "swaps, byte mutations; 1-5 per case) a repair that claims success is followed by a clean -fn, "
            "except for the listed non-convergence classes of the pinned tree (each reduced to a 1-minimal "
            "corruption and keyed by that specific input: image + object.field operator old->new).",
            "The universe is finite and was soaked completely; quick runs a seeded 3000-case sample of it.",
            "DESIGN.md section 2, C01"),
    "C06": ("exploration",
            "compiler sanitizers as the oracle: an AddressSanitizer(+bounds) build of every tool run, one process "
            "per (input, tool) with report text captured, exit status and signal judged against the documented "
            "set, and a watchdog (first expiry re-run alone, only a second expiry is a hang); inputs come from a "
            "finite, enumerable universe of structured and unstructured corruptions of committed corpus images, "
            "external journals, undo files and qcow2 images",
            "For the 84000 enumerated inputs x ~14 tool invocations (e2fsck -fn/-fp/-fy, dumpe2fs [-x], tune2fs -l, "
            "resize2fs -P, e2image -r/-Q and qcow2->raw, e2undo [-n], e2freefrag, a read-only debugfs script incl. "
            "logdump/htree_dump/rdump/cat) no ASan/bounds report, no fatal signal, no undocumented exit status and "
            "no reproducible hang was observed; held on these executions, not a proof of memory safety.",
            "ASan red zones only (no intra-object / stale-but-mapped reads), no MSan; output-size-governed "
            "commands are cut off after 8 MB; thorough = the whole universe, quick = a seeded 2% sample.",
            "DESIGN.md section 2, C06"),
    "C02": ("exploration",
            "runtime monitoring with an independent oracle: every image on which e2fsck -fn exits 0 is "
            "re-read by pyext4/check.py (no libext2fs code: five invariant families), over two finite "
            "universes of structured corruptions of committed corpus images (stream a: 40000 corruptions "
            "kept iff the independent checker sees a broken invariant, then e2fsck -fn must exit != 0; "
            "stream b: 60000 post-repair images that e2fsck -fn accepts must pass the independent checker)",
            "For the enumerated cases an image the independent checker rejects (block out of range / in fixed "
            "metadata / doubly owned, bitmap or count differing from usage, link count or reachability, "
            "malformed extent tree / directory block / htree node, failing metadata checksum) never gets "
            "exit 0 from e2fsck -fn, except for the listed inputs (four root causes, 19 inputs).",
            "Both universes were soaked completely; quick runs a seeded sample (2000 + 1000). The oracle is "
            "calibrated to be silent on the corpus and on the e2fsck-accepted images of tests/*/image.gz; it "
            "judges only the five families of the statement.",
            "DESIGN.md section 2, C02"),
}

NOT_YET = "check not built yet in this round (planned, see DESIGN.md section 2)"


def main():
    hooks_commits = []
    try:
        out = subprocess.run(["git", "-C", "/repo", "log", "--format=%h %s"],
                             stdout=subprocess.PIPE, check=True).stdout.decode()
        hooks_commits = [l.split()[0] for l in out.splitlines() if l.split(" ", 1)[1].startswith("hook:")]
    except Exception:
        pass
    checks = []
    for pid in ALL:
        if pid not in CHECKS:
            continue
        cat, tech, text, note, ref = CHECKS[pid]
        checks.append({
            "property_id": pid,
            "quick_cmd": "./check %s --tier quick" % pid,
            "thorough_cmd": "./check %s --tier thorough" % pid,
            "evidence_file": "/verif/evidence/%s.json" % pid,
            "replay_cmd_template": "./check %s --replay {path}" % pid,
            "engine": "vf",
            "level_claimed": {"category": cat, "text": text, "design_ref": ref},
            "level_note": note,
            "technique": tech,
        })
    na_reasons = {}
    try:
        na_reasons = json.load(open(os.path.join(HERE, "tools", "not_applicable.json")))
    except FileNotFoundError:
        pass
    man = {
        "version": 1,
        "setup_cmd": "./setup.sh",
        "hooks": {
            "guard": "E2FSPROGS_VERIF",
            "enable": "every check copies /repo's working tree to a scratch directory and "
                      "configures it with CFLAGS containing -DE2FSPROGS_VERIF (vf/build.py)",
            "baseline_off_cmd": "tools/baseline_off.sh",
            "source_commits": hooks_commits,
            "add_only": True,
        },
        "engines": [{"name": "vf", "path": "/verif/vf",
                     "serves_properties": sorted(CHECKS),
                     "kind_free_text": "runtime monitoring harness: scratch builds (plain/ASan/TSan) "
                                       "of /repo's working tree, C API drivers, LD_PRELOAD syscall "
                                       "tracer, independent Python ext4/JBD2 reader, reference models"}],
        "checks": checks,
        "not_applicable": [{"property_id": p, "reason": na_reasons.get(p, NOT_YET)}
                           for p in ALL if p not in CHECKS],
        "notes": "All verdicts come from executions of code built from /repo's current working "
                 "tree. Exit 0 held / 1 VIOLATION / 2 harness failure (inconclusive).",
    }
    with open(os.path.join(HERE, "MANIFEST.json"), "w") as f:
        json.dump(man, f, indent=1)
        f.write("\n")


if __name__ == "__main__":
    main()
