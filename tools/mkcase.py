#!/usr/bin/env python3
"""materialise a corruption-universe case:  tools/mkcase.py <tag> <cid> <out.img> [profile]"""
import sys, os
sys.path.insert(0, os.path.dirname(os.path.dirname(os.path.abspath(__file__))))
from vf import zoo, corrupt, fsckpair
tag, cid, out = sys.argv[1], int(sys.argv[2]), sys.argv[3]
profile = sys.argv[4] if len(sys.argv) > 4 else "all"
d = "/dev/shm/zt"; os.makedirs(d, exist_ok=True)
names = zoo.corpus_names("thorough")
imgs = {n: zoo.corpus_image(n, d) for n in names}
u = corrupt.Universe(tag, imgs, 1 << 30)
c = u.case(cid, profile)
fsckpair.materialise(c, u.paths[c.image], out)
print(c.image, c.descr)
