#!/usr/bin/env python3
"""tools/c02case.py <replay-dir> [out.img]  -- materialise a C02/C01 replay case (image + patches),
run e2fsck -fy / -fn on copies and the independent checker, print everything (triage helper)."""
import json, os, shutil, subprocess, sys
HERE = os.path.dirname(os.path.dirname(os.path.abspath(__file__)))
sys.path.insert(0, HERE)
from vf import build, run, zoo, corrupt, fsckpair

rd = sys.argv[1]
out = sys.argv[2] if len(sys.argv) > 2 else "/dev/shm/c02case.img"
if ":" in rd and not os.path.exists(rd):
    # "<universe tag>:<size>:<cid>", e.g. C01-v1:60000:29990
    tag, size, cid = rd.split(":")
    os.makedirs("/dev/shm/c02case.d", exist_ok=True)
    names = zoo.corpus_names("thorough")
    u = corrupt.Universe(tag, {n: zoo.corpus_image(n, "/dev/shm/c02case.d") for n in names}, int(size))
    c = u.case(int(cid))
    case = {"image": c.image, "descr": c.descr, "patches": [[o, b.hex()] for o, b in c.patches]}
else:
    case = json.load(open(os.path.join(rd, "case.json")))["case"]
b = build.get_build("plain")
env = run.base_env(b)
os.makedirs("/dev/shm/c02case.d", exist_ok=True)
base = zoo.corpus_image(case["image"], "/dev/shm/c02case.d")
shutil.copyfile(base, out)
corrupt.apply_patches(out, [(o, bytes.fromhex(h)) for o, h in case["patches"]])
print("image", case["image"], "descr", case["descr"], "patches", case["patches"])
print("py before:", fsckpair.pycheck(out))
fn = out + ".fn"
shutil.copyfile(out, fn)
r = run.run([b.tool("e2fsck"), "-fn", fn], env=env, timeout=180)
print("---- e2fsck -fn rc", r.rc)
print(r.text[-3000:])
fy = out + ".fy"
shutil.copyfile(out, fy)
r = run.run([b.tool("e2fsck"), "-fy", fy], env=env, timeout=180)
print("---- e2fsck -fy rc", r.rc)
print(r.text[-4000:])
r = run.run([b.tool("e2fsck"), "-fn", fy], env=env, timeout=180)
print("---- e2fsck -fn after rc", r.rc)
print(r.text[-2000:])
print("py after:", fsckpair.pycheck(fy))
print("kept:", out, fn, fy, "base:", base)
