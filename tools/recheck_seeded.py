#!/usr/bin/env python3
"""tools/recheck_seeded.py [name ...] [--scale F] [--tier quick|thorough]
Run the registered checks against the committed seeded changes (seeded/<name>/patch.diff):
a scratch worktree of /repo's HEAD gets the patch, the checks named in meta.json
("checks_to_run", default: the property's own check) run with VERIF_REPO pointing at it, and
the outcome is stored in meta.json["detection"].  Nothing is ever applied to /repo itself."""
import json, os, shutil, subprocess, sys, time
HERE = os.path.dirname(os.path.dirname(os.path.abspath(__file__)))
args = sys.argv[1:]


def opt(name, default=None):
    if name in args:
        i = args.index(name)
        v = args[i + 1]
        del args[i:i + 2]
        return v
    return default


scale = opt("--scale", "1")
tier = opt("--tier", "quick")
names = [a for a in args if not a.startswith("--")] or sorted(os.listdir(os.path.join(HERE, "seeded")))


def sh(cmd, **kw):
    return subprocess.run(cmd, shell=True, stdout=subprocess.PIPE, stderr=subprocess.STDOUT, text=True, **kw)


head = sh("git -C /repo rev-parse --short HEAD").stdout.strip()
for name in names:
    d = os.path.join(HERE, "seeded", name)
    mp = os.path.join(d, "meta.json")
    if not os.path.exists(os.path.join(d, "patch.diff")):
        continue
    meta = json.load(open(mp)) if os.path.exists(mp) else {}
    prop = meta.get("property") or name.split("-")[0]
    checks = meta.get("checks_to_run") or [prop]
    wt = "/tmp/seedre-%s" % name
    scratch = "/dev/shm/e2fs-verif-seedre-%s" % name
    sh("git -C /repo worktree remove --force %s" % wt)
    r = sh("git -C /repo worktree add -q --detach %s HEAD" % wt)
    det = {"repo_head": head, "tier": tier, "scale": scale, "checks": {}}
    try:
        r = sh("git -C %s apply %s/patch.diff" % (wt, d))
        if r.returncode != 0:
            r = sh("git -C %s apply -3 %s/patch.diff" % (wt, d))
        det["applies"] = r.returncode == 0
        if not det["applies"]:
            det["apply_output"] = r.stdout[-400:]
            print("%-44s patch does not apply to %s" % (name, head))
        else:
            env = dict(os.environ, VERIF_SCRATCH=scratch, VERIF_REPO=wt)
            for c in checks:
                t0 = time.time()
                r = sh("cd %s && ./check %s --tier %s --scale %s" % (HERE, c, tier, scale), env=env, timeout=4 * 3600)
                keys = sorted(set(l[7:] for l in r.stdout.split("\n") if l.startswith("  key: ")))
                det["checks"][c] = {"exit": r.returncode, "n_violation_keys": len(keys), "violation_keys": keys[:8]}
                print("%-44s %s exit %s, %d keys %s" % (name, c, r.returncode, len(keys), keys[:2]))
            det["caught_by"] = sorted(c for c, v in det["checks"].items() if v["exit"] == 1)
    finally:
        sh("git -C /repo worktree remove --force %s" % wt)
        shutil.rmtree(scratch, ignore_errors=True)
    meta["detection"] = det
    json.dump(meta, open(mp, "w"), indent=1)
