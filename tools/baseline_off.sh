#!/bin/sh
# Build /repo's current working tree WITHOUT the E2FSPROGS_VERIF guard in a scratch copy and
# run the repository's own test suite there (the stable baseline of /root/.vp/BASELINE.json).
set -e
BASE=${VERIF_SCRATCH:-/dev/shm/e2fs-verif}
D="$BASE/baseline-off.$$"
rm -rf "$D"; mkdir -p "$D"
trap 'rm -rf "$D"' EXIT
R=${VERIF_REPO:-/repo}
cd "$R"
git ls-files -co --exclude-standard -z | rsync -a --from0 --files-from=- "$R"/ "$D"/
cd "$D"
rm -f config.status config.log
./configure --quiet CFLAGS=" -Wno-error" > "$D/.configure.log" 2>&1
make -j16 -s V=0 > "$D/.make.log" 2>&1
set +e
make -j16 -k check > "$D/.check.log" 2>&1
rc=$?
grep -E "tests succeeded|tests failed|^[a-z0-9_]+: .*: failed" "$D/.check.log" | tail -20
cp "$D/.check.log" /tmp/e2fs-baseline-off.log 2>/dev/null
exit $rc
