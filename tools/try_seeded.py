#!/usr/bin/env python3
"""tools/try_seeded.py <Cxx> <mutdir> [--name NAME] [--checks C01,C02] [--skip-tests] [--scale F]
Confirm a seeded change produced by an independent sub-agent and run our checks against it:
  1. fresh worktree of /repo HEAD + git apply patch.diff
  2. demo.sh must exit 0 on the unchanged build and non-zero on the changed build
  3. the repository's own test suite must still pass on the changed tree
  4. ./check <Cxx> (and any extra checks) with VERIF_REPO=<worktree>: does it fire?
Stores everything under /verif/seeded/<name>/ (patch.diff, demo files, meta.json)."""
import json, os, shutil, subprocess, sys, time
HERE = os.path.dirname(os.path.dirname(os.path.abspath(__file__)))
sys.path.insert(0, HERE)
pid, mutdir = sys.argv[1], sys.argv[2]
args = sys.argv[3:]
def opt(name, default=None):
    return args[args.index(name) + 1] if name in args else default
name = opt("--name", pid + "-" + os.path.basename(mutdir.rstrip("/")).lower())
checks = opt("--checks", pid).split(",")
scale = opt("--scale", "1")
out = os.path.join(mutdir, "out")
wt = "/tmp/seedtry-%s" % name
scratch = "/dev/shm/e2fs-verif-seed-%s" % name
def sh(cmd, **kw):
    return subprocess.run(cmd, shell=True, stdout=subprocess.PIPE, stderr=subprocess.STDOUT, text=True, **kw)
sh("git -C /repo worktree remove --force %s" % wt)
r = sh("git -C /repo worktree add -q --detach %s HEAD" % wt); assert r.returncode == 0, r.stdout
r = sh("git -C %s apply %s/patch.diff" % (wt, out))
res = {"property": pid, "name": name, "applies": r.returncode == 0, "apply_output": r.stdout[-500:]}
try:
    if not res["applies"]:
        raise SystemExit("patch does not apply: " + r.stdout)
    env = dict(os.environ, VERIF_SCRATCH=scratch)
    # builds (guard off, like the repository's own build) for the demo
    b0 = sh("cd %s && python3 -m vf.build nohook" % HERE, env=dict(env, VERIF_REPO="/repo")).stdout.strip().split("\n")[-1]
    b1 = sh("cd %s && python3 -m vf.build nohook" % HERE, env=dict(env, VERIF_REPO=wt)).stdout.strip().split("\n")[-1]
    d0 = sh("bash %s/demo.sh %s" % (out, b0), cwd=out, timeout=1800)
    d1 = sh("bash %s/demo.sh %s" % (out, b1), cwd=out, timeout=1800)
    res["demo_unchanged_exit"], res["demo_changed_exit"] = d0.returncode, d1.returncode
    res["demo_changed_tail"] = d1.stdout[-600:]
    print("demo: unchanged exit %s, changed exit %s" % (d0.returncode, d1.returncode))
    if "--skip-tests" not in args:
        t = sh("%s/tools/baseline_off.sh" % HERE, env=dict(env, VERIF_REPO=wt), timeout=3600)
        res["repo_tests_on_changed_tree"] = t.stdout.strip().split("\n")[-3:]
        print("repo tests:", res["repo_tests_on_changed_tree"])
    res["checks"] = {}
    for c in checks:
        t0 = time.time()
        r = sh("cd %s && ./check %s --scale %s" % (HERE, c, scale), env=dict(env, VERIF_REPO=wt), timeout=7200)
        keys = sorted(set(l[7:] for l in r.stdout.split("\n") if l.startswith("  key: ")))
        res["checks"][c] = {"exit": r.returncode, "violation_keys": keys[:12], "n_keys": len(keys)}
        print("check %s: exit %s, %d distinct keys %s" % (c, r.returncode, len(keys), keys[:3]))
finally:
    sh("git -C /repo worktree remove --force %s" % wt)
    shutil.rmtree(scratch, ignore_errors=True)
dst = os.path.join(HERE, "seeded", name)
os.makedirs(dst, exist_ok=True)
for f in os.listdir(out):
    p = os.path.join(out, f)
    if os.path.isfile(p) and os.path.getsize(p) < (1 << 20):
        shutil.copy(p, dst)
meta = {}
try:
    meta = json.load(open(os.path.join(out, "meta.json")))
except Exception:
    pass
meta["confirmation"] = res
meta["what_i_ran"] = "tools/try_seeded.py %s %s %s" % (pid, mutdir, " ".join(args))
json.dump(meta, open(os.path.join(dst, "meta.json"), "w"), indent=1)
print("stored in", dst)
