#!/usr/bin/env python3
"""Build the image zoo with the current /repo build and (with --commit) store it as the
committed corpus (corpus/*.img.xz + index.json).  Every image must pass e2fsck -fn."""
import json, os, subprocess, sys
sys.path.insert(0, os.path.dirname(os.path.dirname(os.path.abspath(__file__))))
from vf import build, run, zoo

def one(spec):
    b = build.get_build("plain", quiet=True)
    work = os.environ["ZOO_WORK"]
    path = os.path.join(work, spec["name"] + ".img")
    try:
        info = zoo.build_image(b, spec, path, work)
    except zoo.ZooError as e:
        return spec["name"], "BUILD-FAIL", str(e)[-600:]
    args = [b.tool("e2fsck"), "-fn"]
    if spec.get("extjournal"):
        args += ["-j", path + ".jnl"]
    r = run.run(args + [path], env=run.base_env(b), timeout=300)
    return spec["name"], r.rc, r.text[-600:] if r.rc else ""

def main():
    commit = "--commit" in sys.argv
    only = [a for a in sys.argv[1:] if not a.startswith("--")]
    with run.Work("zoo") as w:
        os.environ["ZOO_WORK"] = w.dir
        build.get_build("plain")
        specs = [s for s in zoo.SPECS if not only or s["name"] in only]
        res = run.pmap(one, specs)
        bad = 0
        for name, rc, txt in res:
            print("%-28s %s" % (name, rc))
            if rc != 0:
                bad += 1
                print(txt)
        if commit and not bad:
            cdir = os.path.join(zoo.VERIF, "corpus")
            os.makedirs(cdir, exist_ok=True)
            idx = {"images": []}
            if only and os.path.exists(os.path.join(cdir, "index.json")):
                idx = json.load(open(os.path.join(cdir, "index.json")))
                idx["images"] = [e for e in idx["images"] if e["name"] not in only]
            for s in specs:
                p = os.path.join(w.dir, s["name"] + ".img")
                with open(os.path.join(cdir, s["name"] + ".img.xz"), "wb") as out:
                    subprocess.run(["xz", "-9", "-T1", "-c", p], stdout=out, check=True)
                e = {"name": s["name"], "sha256": run.sha256_file(p), "size": os.path.getsize(p),
                     "args": s["args"], "tree": s["tree"], "extras": s.get("extras", []), "big": bool(s.get("big"))}
                if os.path.exists(p + ".jnl"):
                    with open(os.path.join(cdir, s["name"] + ".jnl.xz"), "wb") as out:
                        subprocess.run(["xz", "-9", "-c", p + ".jnl"], stdout=out, check=True)
                    e["journal_dev"] = True
                idx["images"].append(e)
            order = [x["name"] for x in zoo.SPECS]
            idx["images"].sort(key=lambda e: order.index(e["name"]))
            with open(os.path.join(cdir, "index.json"), "w") as f:
                json.dump(idx, f, indent=1)
            subprocess.run(["du", "-sh", cdir])
        return 1 if bad else 0

sys.exit(main())
