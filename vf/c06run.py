"""Child execution for C06: like run.run / run.run_capped_pipe, plus
  * stderr is read through a pipe and only its head and tail are kept (a tool that prints
    a warning per loop iteration for 2^32 iterations must not fill the scratch disk),
  * stdout is discarded, or read through a pipe that is closed after `stdout_cap` bytes
    (SIGPIPE then ends commands whose output length is governed by on-disk size fields),
  * RLIMIT_FSIZE for files the child writes (SIGXFSZ),
  * on watchdog expiry the child first gets SIGABRT, so that the sanitizer runtime
    (handle_abort=1) prints where it was looping, and SIGKILL a few seconds later.
"""
import os
import resource
import select
import signal
import subprocess
import time

from .run import Result

KEEP = 192 << 10


class Res(Result):
    __slots__ = ("capped", "abort_trace")


def execute(argv, env=None, timeout=120, stdout_cap=None, fsize=None, cwd=None, grace=8):
    t0 = time.time()

    def pre():
        if fsize:
            resource.setrlimit(resource.RLIMIT_FSIZE, (fsize, fsize))
        resource.setrlimit(resource.RLIMIT_CORE, (0, 0))
    p = subprocess.Popen(argv, env=env, cwd=cwd, stdin=subprocess.DEVNULL,
                         stdout=(subprocess.PIPE if stdout_cap else subprocess.DEVNULL),
                         stderr=subprocess.PIPE, start_new_session=True, preexec_fn=pre)
    efd = p.stderr.fileno()
    ofd = p.stdout.fileno() if stdout_cap else None
    fds = [efd] + ([ofd] if ofd is not None else [])
    head, tail, elen = [], b"", 0
    got = 0
    capped = False
    timed_out = False
    deadline = t0 + timeout
    aborted_at = None

    def feed_err(b):
        nonlocal elen, tail
        if elen < KEEP:
            head.append(b[:KEEP - elen])
            rest = b[KEEP - elen:]
        else:
            rest = b
        elen += len(b)
        if rest:
            tail = (tail + rest)[-KEEP:]

    while fds:
        now = time.time()
        if aborted_at is None and now >= deadline:
            timed_out = True
            aborted_at = now
            try:
                os.killpg(p.pid, signal.SIGABRT)
            except OSError:
                pass
        if aborted_at is not None and now >= aborted_at + grace:
            break
        r, _, _ = select.select(fds, [], [], 0.5)
        for fd in r:
            try:
                b = os.read(fd, 1 << 16)
            except OSError:
                b = b""
            if not b:
                fds.remove(fd)
                continue
            if fd == efd:
                feed_err(b)
            else:
                got += len(b)
                if got >= stdout_cap:
                    capped = True
                    fds.remove(fd)
                    p.stdout.close()
        if not r and p.poll() is not None:
            # child gone; drain what is left
            for fd in list(fds):
                try:
                    while True:
                        b = os.read(fd, 1 << 16)
                        if not b:
                            break
                        if fd == efd:
                            feed_err(b)
                except OSError:
                    pass
            break
    if p.poll() is None:
        if not timed_out:
            # pipes closed but the child lives on: wait until the deadline
            try:
                p.wait(timeout=max(0.1, deadline - time.time()))
            except subprocess.TimeoutExpired:
                timed_out = True
                try:
                    os.killpg(p.pid, signal.SIGABRT)
                except OSError:
                    pass
                try:
                    p.wait(timeout=grace)
                except subprocess.TimeoutExpired:
                    pass
    if p.poll() is None:
        try:
            os.killpg(p.pid, signal.SIGKILL)
        except OSError:
            pass
        p.wait()
    else:
        try:
            os.killpg(p.pid, signal.SIGKILL)     # stray grandchildren
        except OSError:
            pass
    for f in (p.stderr, p.stdout):
        try:
            if f:
                f.close()
        except OSError:
            pass
    err = b"".join(head)
    if elen > KEEP:
        if elen > 2 * KEEP:
            err += b"\n[... %d bytes of stderr dropped ...]\n" % (elen - 2 * KEEP)
        err += tail
    rc = p.returncode
    sig = -rc if rc is not None and rc < 0 else 0
    res = Res(rc, sig, b"", err, timed_out, time.time() - t0, list(argv))
    res.capped = capped
    res.abort_trace = None
    return res
