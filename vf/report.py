"""Verdict bookkeeping: evidence files, known-findings matching, replay directories."""
import hashlib
import json
import os
import re
import shutil
import sys
import time

VERIF = os.path.dirname(os.path.dirname(os.path.abspath(__file__)))
KNOWN = os.path.join(VERIF, "known_findings.json")


def load_known():
    try:
        with open(KNOWN) as f:
            d = json.load(f)
    except FileNotFoundError:
        return []
    return d.get("findings", [])


def _jsonable(x, depth=0):
    if isinstance(x, (bytes, bytearray)):
        return x[:64].hex() + ("..." if len(x) > 64 else "")
    if isinstance(x, dict):
        return {str(k): _jsonable(v, depth + 1) for k, v in x.items()}
    if isinstance(x, (list, tuple, set, frozenset)):
        return [_jsonable(v, depth + 1) for v in x]
    if isinstance(x, (str, int, float, bool)) or x is None:
        return x
    return repr(x)


class Report:
    def __init__(self, prop, tier, seed, level="exploration", rule=""):
        self.prop, self.tier, self.seed, self.level = prop, tier, seed, level
        self.rule = rule
        self.t0 = time.time()
        self.evaluations = 0
        self.nontrivial = set()
        self.samples = []
        self.counters = {}
        self.sets = {}
        self.violations = []      # unlisted
        self.known_hits = {}      # key -> count
        self.inconclusive = 0
        self.assumptions = []
        self.extra = {}
        self.known = [k for k in load_known() if k.get("property") == prop
                      and k.get("status", "known") == "known"]
        self._printed_known = set()
        self.max_samples = 6
        self.harness_errors = []

    # -- counting ---------------------------------------------------------------
    def case(self, nontrivial_key=None, n=1):
        """One evaluated case; nontrivial_key (hashable / str) marks it non-trivial and
        identifies its distinctness class."""
        self.evaluations += n
        if nontrivial_key is not None:
            self.nontrivial.add(nontrivial_key if isinstance(nontrivial_key, str)
                                else json.dumps(_jsonable(nontrivial_key), sort_keys=True))

    def count(self, name, n=1):
        self.counters[name] = self.counters.get(name, 0) + n

    def add(self, setname, item):
        self.sets.setdefault(setname, set()).add(item if isinstance(item, (str, int)) else
                                                 json.dumps(_jsonable(item), sort_keys=True))

    def sample(self, obj, force=False):
        if force or len(self.samples) < self.max_samples:
            self.samples.append(_jsonable(obj))

    def note_inconclusive(self, what=None):
        self.inconclusive += 1
        if what is not None:
            self.counters.setdefault("inconclusive_kinds", 0)
            self.add("inconclusive_examples", str(what)[:200])

    def harness_error(self, what):
        self.harness_errors.append(str(what)[:500])

    # -- violations -------------------------------------------------------------
    def match_known(self, key):
        for k in self.known:
            if k.get("key") == key:
                return k
            pat = k.get("key_regex")
            if pat and re.fullmatch(pat, key):
                return k
        return None

    def violation(self, key, what, replay=None, files=None):
        """Record a violation.  key: narrow signature string used for known-findings
        matching.  replay: JSON-able case descriptor.  files: {name: path or bytes} copied
        into the replay directory.  Returns True if it is an unlisted violation."""
        k = self.match_known(key)
        if k is not None:
            self.known_hits[key] = self.known_hits.get(key, 0) + 1
            if key not in self._printed_known:
                self._printed_known.add(key)
                print("KNOWN-FINDING: property=%s %s" % (self.prop, k.get("what", key)))
                sys.stdout.flush()
            return False
        rid = hashlib.sha256((key + json.dumps(_jsonable(replay), sort_keys=True)).encode()
                             ).hexdigest()[:12]
        rdir = os.path.join(VERIF, "replays", self.prop, rid)
        if len(self.violations) < 20:
            os.makedirs(rdir, exist_ok=True)
            with open(os.path.join(rdir, "case.json"), "w") as f:
                json.dump({"property": self.prop, "key": key, "what": what, "seed": self.seed,
                           "tier": self.tier, "case": _jsonable(replay)}, f, indent=1)
            for name, src in (files or {}).items():
                dst = os.path.join(rdir, name)
                try:
                    if isinstance(src, (bytes, bytearray)):
                        with open(dst, "wb") as f:
                            f.write(src)
                    elif os.path.exists(src):
                        if os.path.getsize(src) > (4 << 20) or name.endswith(".img"):
                            import subprocess
                            with open(dst + ".xz", "wb") as out:
                                subprocess.run(["xz", "-1", "-T4", "-c", src], stdout=out)
                        else:
                            shutil.copy(src, dst)
                except OSError as e:
                    self.harness_error("replay copy failed: %s" % e)
        self.violations.append({"key": key, "what": str(what)[:1000], "replay": rdir})
        print("VIOLATION property=%s replay=%s" % (self.prop, rdir))
        print("  key: %s" % key)
        print("  what: %s" % str(what)[:600])
        sys.stdout.flush()
        return True

    # -- finish -----------------------------------------------------------------
    def finish(self, min_nontrivial=2):
        wall = time.time() - self.t0
        cov = {
            "evaluations": self.evaluations,
            "distinct_nontrivial": len(self.nontrivial),
            "rule": self.rule,
            "samples": self.samples,
            "inconclusive": self.inconclusive,
            "known_finding_hits": self.known_hits,
            "counters": self.counters,
            "distinct": {k: len(v) for k, v in self.sets.items()},
        }
        for k, v in self.sets.items():
            if len(v) <= 60:
                cov.setdefault("distinct_values", {})[k] = sorted(v, key=str)
        cov.update(_jsonable(self.extra))
        ev = {
            "property_id": self.prop, "tier": self.tier, "seed": int(self.seed),
            "level": self.level, "coverage": cov, "assumptions": self.assumptions,
            "wall_s": round(wall, 2), "violations": len(self.violations),
        }
        replay_run = bool(os.environ.get("VERIF_REPLAY_RUN"))
        os.makedirs(os.path.join(VERIF, "evidence"), exist_ok=True)
        path = os.path.join(VERIF, "evidence", self.prop + ".json")
        other_tree = os.environ.get("VERIF_REPO") not in (None, "", "/repo")
        if replay_run or other_tree:
            # evidence/ only ever describes runs against /repo itself
            path = os.path.join(VERIF, "replays", self.prop + (".last-replay.json" if replay_run
                                                               else ".other-tree.json"))
            os.makedirs(os.path.dirname(path), exist_ok=True)
            if replay_run:
                min_nontrivial = 0
        tmp = path + ".tmp%d" % os.getpid()
        with open(tmp, "w") as f:
            json.dump(ev, f, indent=1, sort_keys=True)
            f.write("\n")
        os.rename(tmp, path)
        print("[%s] tier=%s seed=%s evaluations=%d distinct_nontrivial=%d violations=%d "
              "known_hits=%d inconclusive=%d wall=%.1fs" %
              (self.prop, self.tier, self.seed, self.evaluations, len(self.nontrivial),
               len(self.violations), sum(self.known_hits.values()), self.inconclusive, wall))
        for k, v in sorted(self.counters.items()):
            print("   %-40s %s" % (k, v))
        for k, v in sorted(self.sets.items()):
            print("   distinct %-31s %d" % (k, len(v)))
        if self.violations:
            return 1
        if self.harness_errors:
            for h in self.harness_errors[:10]:
                print("HARNESS-ERROR: %s" % h)
            return 2
        if (self.evaluations == 0 and not replay_run) or len(self.nontrivial) < min_nontrivial:
            print("HARNESS-ERROR: run observed too little (evaluations=%d nontrivial=%d)" %
                  (self.evaluations, len(self.nontrivial)))
            return 2
        return 0
