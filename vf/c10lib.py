"""Helpers of check C10 (directory operations keep the namespace exact):

 * the namespace model: an interpreter of the debugfs namespace commands that says, for
   every command in every state, whether it must succeed or must fail and what the
   namespace looks like afterwards (or UNDEF for uses of the low-level commands whose result
   is not a well-formed namespace and which the generator therefore never emits),
 * the name factory (documented alphabet, length bias, siblings, hash-targeted names,
   major-hash collisions found by brute force with vf.pyext4.dirhash),
 * an htree shape reader on top of vf.pyext4 (levels, leaves and their hash ranges), used
   to steer the workload and to measure splits / tree growth,
 * parsers for debugfs output (`-f` transcript, `ls -l`).

Shares no code with libext2fs.
"""
import struct

from .pyext4 import dirhash as DH
from .pyext4 import image as I

M32 = 0xFFFFFFFF

# ----------------------------------------------------------------------------------------
# names
#
# Alphabet: every byte value except NUL and '/' (illegal in a name), LF and CR (they end a
# debugfs script line).  Blank, TAB and '"' are passed to debugfs inside a quoted token ('"'
# doubled); debugfs `ls` prints bytes < 32, >= 127 and '\\' as \xNN, so every name survives the
# round trip through the script and through `ls -l`.  Not generated: ".", "..", and names of
# the form "<...>" (debugfs would read them as inode numbers).
FORBIDDEN = {0, 0x2F, 0x0A, 0x0D}
PLAIN = b"abcdefghijklmnopqrstuvwxyzABCDEFGHIJKLMNOPQRSTUVWXYZ0123456789._-+=,@%"
AWKWARD = [b for b in (list(range(1, 32)) + [0x20, 0x22, 0x23, 0x21, 0x24, 0x26, 0x27, 0x28, 0x29,
                                              0x2A, 0x3A, 0x3B, 0x3C, 0x3E, 0x3F, 0x5B, 0x5C, 0x5D,
                                              0x5E, 0x60, 0x7B, 0x7C, 0x7D, 0x7E, 0x7F] +
                         list(range(0x80, 0x100))) if b not in FORBIDDEN]
HIGH = list(range(0x80, 0x100))
LEN_BIAS = [1, 1, 2, 2, 3, 4, 4, 5, 7, 8, 8, 9, 11, 12, 12, 13, 15, 16, 16, 17,
            251, 252, 252, 253, 254, 255, 255, 255]
LEN_LONG = [200, 204, 208, 211, 212, 216, 217, 218, 219, 220, 221, 224, 228, 236, 240, 244,
            247, 248, 249, 250, 251, 252, 252, 253, 254, 255, 255, 255]


def name_ok(n):
    if not n or len(n) > 255 or n in (b".", b".."):
        return False
    if any(b in FORBIDDEN for b in n):
        return False
    if len(n) > 2 and n[:1] == b"<" and n[-1:] == b">":
        return False
    return True


def pick_len(rng, shape="mixed"):
    if shape == "long":
        return rng.choice(LEN_LONG) if rng.random() < 0.8 else rng.randrange(150, 256)
    if shape == "short":
        return rng.choice([1, 2, 3, 4, 5, 6, 7, 8, 8, 9, 10, 11, 12, 12, 13, 14, 15, 16, 17, 20, 24])
    if shape == "medium":
        return rng.randrange(20, 120)
    r = rng.random()
    if r < 0.45:
        return rng.choice(LEN_BIAS)
    if r < 0.75:
        return rng.randrange(1, 40)
    return rng.randrange(1, 256)


def random_name(rng, ln, style=None):
    """A name of exactly ln bytes.  style: None = random mix; 'plain', 'awkward', 'high',
    'dash', 'dots'."""
    if style is None:
        r = rng.random()
        style = ("plain" if r < 0.40 else "awkward" if r < 0.65 else "high" if r < 0.82 else
                 "dash" if r < 0.90 else "dots")
    for _ in range(50):
        if style == "high":
            b = bytearray(rng.choice(HIGH) if rng.random() < 0.7 else rng.choice(PLAIN) for _ in range(ln))
        else:
            b = bytearray(rng.choice(PLAIN) for _ in range(ln))
        if style == "awkward":
            for _k in range(rng.choice([1, 1, 2, 3])):
                b[rng.randrange(ln)] = rng.choice(AWKWARD)
            if rng.random() < 0.3:
                b[0] = rng.choice(AWKWARD)
            if rng.random() < 0.3:
                b[-1] = rng.choice(AWKWARD)
        elif style == "dash":
            b[0] = 0x2D
            if ln > 1 and rng.random() < 0.5:
                b[1] = rng.choice(b"-lrdp")
        elif style == "dots":
            k = rng.choice([1, 2, 3])
            for j in range(min(k, ln)):
                b[j] = 0x2E
            if rng.random() < 0.4:
                b[-1] = 0x2E
        n = bytes(b)
        if name_ok(n):
            return n
    return bytes(rng.choice(b"abcdefghijklmnopqrstuvwxyz") for _ in range(ln)) if ln != 0 else b"x"


def sibling(rng, name):
    """A name differing from `name` only in its last byte."""
    for _ in range(20):
        c = rng.choice(AWKWARD) if rng.random() < 0.4 else rng.choice(PLAIN)
        n = name[:-1] + bytes([c])
        if n != name and name_ok(n):
            return n
    return None


def quote(name):
    """debugfs (libss) token for a name: quoted, '"' doubled."""
    return b'"' + name.replace(b'"', b'""') + b'"'


def ls_escape(name):
    out = bytearray()
    for ch in name:
        if ch < 32 or ch >= 127 or ch == 0x5C:
            out += b"\\x%02x" % ch
        else:
            out.append(ch)
    return bytes(out)


def ls_unescape(s):
    out = bytearray()
    i = 0
    n = len(s)
    while i < n:
        if s[i] == 0x5C and i + 3 < n and s[i + 1] == 0x78:
            try:
                out.append(int(s[i + 2:i + 4], 16))
                i += 4
                continue
            except ValueError:
                pass
        out.append(s[i])
        i += 1
    return bytes(out)


# ----------------------------------------------------------------------------------------
# hashes

class HashParams:
    def __init__(self, version, seed, unsigned):
        self.base = version                 # 0 legacy, 1 half_md4, 2 tea
        self.seed = tuple(seed)
        self.unsigned = bool(unsigned)
        self.version = version + 3 if unsigned else version

    @classmethod
    def from_image(cls, img):
        sb = img.sb
        return cls(sb.s_def_hash_version, sb.s_hash_seed, bool(sb.s_flags & 2))

    def hash(self, name):
        return DH.dirhash(self.version, name, self.seed)[0]

    def key(self):
        return (self.base, self.unsigned)


def _legacy_state(name, unsigned, st=(0x12A3FE2D, 0x37ABE8F9)):
    h0, h1 = st
    for ch in name:
        c = ch if unsigned else (ch - 256 if ch > 127 else ch)
        h = (h1 + (h0 ^ ((c * 7152373) & M32))) & M32
        if h & 0x80000000:
            h = (h - 0x7FFFFFFF) & M32
        h1 = h0
        h0 = h
    return h0, h1


class PrefixHasher:
    """hash(prefix + suffix) for many suffixes at the cost of hashing the suffix only (the
    hashes consume the name in 32 / 16 byte chunks; legacy byte by byte).  Results are
    cross-checked against DH.dirhash by the callers before they are used."""

    def __init__(self, hp, prefix):
        self.hp = hp
        chunk = {0: 1, 1: 32, 2: 16}[hp.base]
        keep = len(prefix) - len(prefix) % chunk
        self.head, self.tail = prefix[:keep], prefix[keep:]
        self.prefix = prefix
        buf = [0x67452301, 0xEFCDAB89, 0x98BADCFE, 0x10325476]
        if any(hp.seed):
            buf = list(hp.seed)
        u = hp.unsigned
        if hp.base == 0:
            self.state = _legacy_state(self.head, u)
        elif hp.base == 1:
            p = self.head
            while p:
                DH._half_md4(buf, DH._str2hashbuf(p, 8, u))
                p = p[32:]
            self.state = buf
        else:
            p = self.head
            while p:
                DH._tea(buf, DH._str2hashbuf(p, 4, u))
                p = p[16:]
            self.state = buf

    def hash(self, suffix):
        hp = self.hp
        u = hp.unsigned
        rest = self.tail + suffix
        if hp.base == 0:
            h = (_legacy_state(rest, u, self.state)[0] << 1) & M32
        elif hp.base == 1:
            buf = list(self.state)
            p = rest
            while p:
                DH._half_md4(buf, DH._str2hashbuf(p, 8, u))
                p = p[32:]
            h = buf[1]
        else:
            buf = list(self.state)
            p = rest
            while p:
                DH._tea(buf, DH._str2hashbuf(p, 4, u))
                p = p[16:]
            h = buf[0]
        h &= ~1 & M32
        if h == 0xFFFFFFFE:
            h = 0xFFFFFFFC
        return h


SUFFIX_ALPHA = b"abcdefghijklmnopqrstuvwxyzABCDEFGHIJKLMNOPQRSTUVWXYZ0123456789" + bytes(range(0xA1, 0xC0))


def _suffix(k, width):
    n = len(SUFFIX_ALPHA)
    out = bytearray()
    for _ in range(width):
        out.append(SUFFIX_ALPHA[k % n])
        k //= n
    return bytes(out)


def find_collisions(hp, prefix, total_len, tries):
    """Brute force over `tries` names prefix+suffix of total_len bytes; returns groups (lists
    of >= 2 names) that share the major hash, verified with DH.dirhash."""
    width = total_len - len(prefix)
    ph = PrefixHasher(hp, prefix)
    seen = {}
    groups = {}
    for k in range(tries):
        s = _suffix(k, width)
        h = ph.hash(s)
        o = seen.get(h)
        if o is None:
            seen[h] = s
        else:
            groups.setdefault(h, [o]).append(s)
    out = []
    for h, sl in groups.items():
        names = [prefix + s for s in sl]
        if all(name_ok(n) and hp.hash(n) == h for n in names) and len(set(names)) == len(names):
            out.append((h, names))
    out.sort()
    return out


def name_in_range(rng, hp, lo, hi, ln, avoid, tries=4000, style=None):
    """A name of ln bytes (ln >= 4) whose major hash lies in [lo, hi]; brute force over the
    last bytes.  Returns None when unlucky."""
    base = random_name(rng, ln, style)
    w = min(4, ln)
    ph = PrefixHasher(hp, base[:-w])
    start = rng.randrange(1 << 20)
    for k in range(tries):
        s = _suffix(start + k, w)
        h = ph.hash(s)
        if lo <= h <= hi:
            n = base[:-w] + s
            if n not in avoid and name_ok(n) and hp.hash(n) == h:
                return n
    return None


# ----------------------------------------------------------------------------------------
# the namespace model

OK, FAIL, UNDEF = "ok", "fail", "undef"
KIND_FT = {"f": 1, "d": 2, "c": 3, "b": 4, "p": 5, "s": 6, "l": 7}
KIND_FMT = {"f": I.S_IFREG, "d": I.S_IFDIR, "c": I.S_IFCHR, "b": I.S_IFBLK, "p": I.S_IFIFO, "l": I.S_IFLNK}
LINK_MAX = 65000


class Obj:
    __slots__ = ("oid", "kind", "nlink", "names", "target", "rdev", "content", "entries", "parent",
                 "nsub", "overflowed")

    def __init__(self, oid, kind):
        self.oid, self.kind = oid, kind
        self.nlink = 2 if kind == "d" else 1
        self.names = 1
        self.target = None
        self.rdev = None
        self.content = None
        self.entries = {} if kind == "d" else None
        self.parent = None
        self.nsub = 0
        self.overflowed = False


class Model:
    """Interpreter of debugfs namespace commands.  Ops (names are bytes, single components
    resolved in the current directory):
      ("cd", name|b"/"|b"..")  ("mkdir", n)  ("write", hostidx, n)  ("symlink", n, target)
      ("mknod", n, b"p")  ("mknod", n, b"c"|b"b", major, minor)  ("ln", src, dst)  ("unlink", n)
      ("sif", n, count)   ("rm", n)  ("rmdir", n)  ("expand_dir", n|b".")
    debugfs semantics: `ln` and `unlink` add / remove a directory entry WITHOUT touching
    i_links_count; `sif <name> links_count <n>` sets it; `rm` decrements it and frees the inode
    at 0.  apply() returns OK (must succeed; model updated), FAIL (must be rejected; model
    unchanged) or UNDEF (not modelled - never generated; the minimiser rejects such scripts).
    A state is 'settled' when every non-directory has as many names as links and every
    directory exactly one name; scripts are only judged at settled chunk ends."""

    def __init__(self, dir_nlink=True):
        self.dir_nlink = dir_nlink
        self.objs = {}
        self.nextid = 0
        root = self._new("d")
        root.parent = root.oid
        root.names = 1
        self.root = root.oid
        lf = self._new("d")
        lf.parent = root.oid
        root.entries[b"lost+found"] = lf.oid
        root.nsub = 1
        root.nlink = 3
        self.lost_found = lf.oid
        self.cwd = root.oid
        self.freed_objects = 0
        self.freed_with_blocks = 0

    def _new(self, kind):
        o = Obj(self.nextid, kind)
        self.objs[o.oid] = o
        self.nextid += 1
        return o

    def cwdobj(self):
        return self.objs[self.cwd]

    def lookup(self, name):
        oid = self.cwdobj().entries.get(name)
        return None if oid is None else self.objs[oid]

    def inodes_in_use(self):
        """number of in-use inodes excluding the root directory"""
        return len(self.objs) - 1

    def _inc_dir(self, d):
        d.nsub += 1
        if d.nlink != 1 or not d.overflowed:
            d.nlink += 1
        if self.dir_nlink and d.nlink > LINK_MAX:
            d.nlink = 1
            d.overflowed = True

    def _dec_dir(self, d):
        d.nsub -= 1
        if d.nlink > 1:
            d.nlink -= 1

    def settled(self):
        for o in self.objs.values():
            if o.kind == "d":
                if o.names != 1:
                    return False
            elif o.names != o.nlink:
                return False
        return True

    def path_of(self, oid):
        parts = []
        guard = 0
        while oid != self.root and guard < 64:
            o = self.objs[oid]
            p = self.objs[o.parent]
            nm = next((n for n, i in p.entries.items() if i == oid), b"?")
            parts.append(nm)
            oid = o.parent
            guard += 1
        return b"/" + b"/".join(reversed(parts))

    def apply(self, op):
        cmd = op[0]
        cwd = self.cwdobj()
        ents = cwd.entries
        if cmd == "cd":
            n = op[1]
            if n == b"/":
                self.cwd = self.root
                return OK
            if n == b"..":
                self.cwd = cwd.parent
                return OK
            o = self.lookup(n)
            if o is None or o.kind != "d":
                return FAIL
            if o.parent != cwd.oid:
                return UNDEF
            self.cwd = o.oid
            return OK
        n = op[2] if cmd == "write" else op[1]
        if cmd == "expand_dir" and n == b".":
            return OK                      # the current directory itself
        if not name_ok(n):
            return UNDEF
        if cmd in ("mkdir", "write", "symlink", "mknod"):
            if n in ents:
                return FAIL
            if cmd == "mkdir":
                o = self._new("d")
                o.parent = cwd.oid
                self._inc_dir(cwd)
            elif cmd == "write":
                o = self._new("f")
                o.content = op[1]
            elif cmd == "symlink":
                o = self._new("l")
                o.target = op[2]
            else:
                t = op[2]
                o = self._new({b"p": "p", b"c": "c", b"b": "b"}[t])
                if t != b"p":
                    o.rdev = (op[3], op[4])
            ents[n] = o.oid
            return OK
        if cmd == "ln":
            src, dst = op[1], op[2]
            so = self.lookup(src)
            if so is None:
                return FAIL
            if not name_ok(dst):
                return UNDEF
            do = self.lookup(dst)
            if do is not None:
                if do.kind != "d":
                    return FAIL            # ext2fs_link into a non-directory
                if so.kind == "d" or src in do.entries:
                    return UNDEF
                do.entries[src] = so.oid
                so.names += 1
                return OK
            ents[dst] = so.oid
            so.names += 1
            return OK
        o = self.lookup(n)
        if cmd == "unlink":
            if o is None:
                return FAIL
            if o.names < 2:
                return UNDEF               # would orphan the inode
            del ents[n]
            o.names -= 1
            return OK
        if cmd == "sif":
            if o is None or o.kind == "d":
                return UNDEF
            o.nlink = op[2]
            return OK
        if cmd == "rm":
            if o is None or o.kind == "d":
                return FAIL
            if o.nlink < 1:
                return UNDEF
            if o.nlink == 1 and o.names != 1:
                return UNDEF               # frees an inode that other names still use
            del ents[n]
            o.names -= 1
            o.nlink -= 1
            if o.nlink == 0:
                del self.objs[o.oid]
                self.freed_objects += 1
                if o.kind == "f" or (o.kind == "l" and len(o.target) >= 60):
                    self.freed_with_blocks += 1
            return OK
        if cmd == "rmdir":
            if o is None or o.kind != "d":
                return FAIL
            if o.entries:
                return FAIL
            if o.names != 1 or o.parent != cwd.oid or o.oid in (self.root, self.cwd):
                return UNDEF
            del ents[n]
            del self.objs[o.oid]
            self.freed_objects += 1
            self.freed_with_blocks += 1
            self._dec_dir(cwd)
            return OK
        if cmd == "expand_dir":
            if o is None or o.kind != "d":
                return FAIL
            return OK
        return UNDEF


def op_line(op, hostfiles):
    """debugfs script line (bytes) of an op"""
    cmd = op[0]
    if cmd == "cd":
        return b"cd " + (op[1] if op[1] in (b"/", b"..") else quote(op[1]))
    if cmd == "mkdir":
        return b"mkdir " + quote(op[1])
    if cmd == "write":
        return b"write " + hostfiles[op[1]].encode() + b" " + quote(op[2])
    if cmd == "symlink":
        return b"symlink " + quote(op[1]) + b" " + quote(op[2])
    if cmd == "mknod":
        if op[2] == b"p":
            return b"mknod " + quote(op[1]) + b" p"
        return b"mknod " + quote(op[1]) + b" " + op[2] + b" %d %d" % (op[3], op[4])
    if cmd == "ln":
        return b"ln " + quote(op[1]) + b" " + quote(op[2])
    if cmd == "sif":
        return b"sif " + quote(op[1]) + b" links_count %d" % op[2]
    if cmd == "expand_dir" and op[1] == b".":
        return b"expand_dir ."
    if cmd in ("unlink", "rm", "rmdir", "expand_dir"):
        return cmd.encode() + b" " + quote(op[1])
    raise ValueError(cmd)


def op_to_json(op):
    return [x.decode("latin-1") if isinstance(x, bytes) else x for x in op]


def op_from_json(j):
    j = list(j)
    cmd = j[0]
    out = [cmd]
    for k, x in enumerate(j[1:], 1):
        if isinstance(x, str):
            out.append(x.encode("latin-1"))
        else:
            out.append(x)
    return tuple(out)


# ----------------------------------------------------------------------------------------
# debugfs output

def split_transcript(out, lines):
    """out: merged stdout+stderr of `debugfs -f`; lines: the script lines.  Returns a list
    with the output lines of every command, or None when the echo lines do not match."""
    res = []
    pos = 0
    chunks = out.split(b"\n")
    i = 0
    n = len(chunks)
    # skip the banner
    cur = None
    for ln in lines:
        want = b"debugfs: " + ln
        found = False
        while i < n:
            if chunks[i] == want:
                found = True
                i += 1
                break
            if cur is not None:
                cur.append(chunks[i])
            i += 1
        if not found:
            return None
        cur = []
        res.append(cur)
    while i < n:
        if cur is not None:
            cur.append(chunks[i])
        i += 1
    return res


def cmd_failed(outlines):
    """A namespace command failed iff it printed anything but blank lines and the
    'Allocated inode: N' notice."""
    for l in outlines:
        if not l.strip():
            continue
        if l.startswith(b"Allocated inode: "):
            continue
        return True
    return False


def parse_ls(outlines):
    """debugfs `ls -l` -> list of (name, ino, mode, dirent_file_type); deleted / empty slots
    (inode 0) are skipped.  Returns (entries, unparsed_lines)."""
    ents = []
    bad = []
    for l in outlines:
        if not l.strip():
            continue
        # "%c%6u%c %6o (%d)  %5d  %5d   %5llu %17s name"
        try:
            body = l[1:]
            p = body.split(None, 1)
            ino = int(p[0].rstrip(b">"))
            rest = p[1]
            p = rest.split(None, 1)
            mode = int(p[0], 8)
            rest = p[1]
            if not rest.startswith(b"("):
                raise ValueError
            k = rest.index(b")")
            ft = int(rest[1:k])
            rest = rest[k + 1:]
            p = rest.split(None, 3)       # uid gid size remainder
            int(p[0]), int(p[1]), int(p[2])
            rem = p[3] if len(p) > 3 else b""
            # remainder: either "DD-Mon-YYYY HH:MM name" or blanks + name for inode 0
            if ino == 0:
                continue
            q = rem.split(b" ", 2)
            if len(q) < 3:
                raise ValueError
            name = q[2]
            ents.append((ls_unescape(name), ino, mode, ft))
        except (ValueError, IndexError):
            bad.append(l)
    return ents, bad


# ----------------------------------------------------------------------------------------
# directory shape (htree reader)

def dir_shape(img, ino_obj):
    """{'kind': 'inline'|'linear'|'htree', 'levels': n, 'leaves': [(lo, hi, lblk)], 'nblocks',
    'interior': n}.  levels counts index levels (1 = root only)."""
    bs = img.bs
    if ino_obj.flags & I.FL_INLINE_DATA:
        return {"kind": "inline", "levels": 0, "leaves": [], "nblocks": 0, "interior": 0,
                "size": ino_obj.size}
    nblocks = (ino_obj.size + bs - 1) // bs
    shape = {"kind": "linear", "levels": 0, "leaves": [], "nblocks": nblocks, "interior": 0,
             "size": ino_obj.size}
    if not (ino_obj.flags & I.FL_INDEX) or not img.sb.has_compat("dir_index"):
        return shape
    shape["kind"] = "htree"
    try:
        blocks = dict(img.dir_blocks(ino_obj))
        root = img.blk(blocks[0])
        levels = root[30]
        shape["levels"] = levels + 1
        leaves = []
        interior = [0]

        def node(buf, off, level, lo, hi):
            limit, count = struct.unpack_from("<HH", buf, off)
            ents = []
            for k in range(min(count, (bs - off) // 8)):
                h, b = struct.unpack_from("<II", buf, off + 8 * k)
                ents.append((lo if k == 0 else h, b & 0x0FFFFFFF))
            for k, (h, b) in enumerate(ents):
                nxt = ents[k + 1][0] if k + 1 < len(ents) else hi
                if level > 0:
                    interior[0] += 1
                    node(img.blk(blocks[b]), 8, level - 1, h, nxt)
                else:
                    leaves.append((h, nxt, b))

        node(root, 32, levels, 0, 0x100000000)
        shape["leaves"] = leaves
        shape["interior"] = interior[0]
    except Exception:
        shape["levels"] = None
    return shape


def leaf_fill(img, ino_obj, lblk):
    """(bytes used by live entries at their minimal size, number of live entries) of a leaf"""
    blocks = dict(img.dir_blocks(ino_obj))
    used = 0
    n = 0
    for (_o, ino, _rl, nl, ft, _name) in img.parse_dirents(img.blk(blocks[lblk]), strict=False):
        if ino and not (nl == 0 and ft == 0xDE):
            used += (8 + nl + 3) & ~3
            n += 1
    return used, n


def decode_rdev(ino_obj):
    b0, b1 = struct.unpack_from("<II", ino_obj.i_block, 0)
    if b0:
        return ((b0 >> 8) & 0xFF, b0 & 0xFF)
    return ((b1 & 0xFFF00) >> 8, (b1 & 0xFF) | ((b1 >> 12) & 0xFFF00))
