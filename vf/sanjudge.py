"""Verdict of one child process for robustness properties (C06): sanitizer report parsing,
fatal signals, documented exit statuses.  No e2fsprogs knowledge beyond exit-status sets."""
import re
import signal

FATAL_SIGNALS = {signal.SIGSEGV: "SEGV", signal.SIGABRT: "ABRT", signal.SIGBUS: "BUS",
                 signal.SIGFPE: "FPE", signal.SIGILL: "ILL"}
# bug types that ASan prints for a deadly signal it intercepted (handle_segv/abort/...=1)
SIGNAL_BUGTYPES = {"SEGV", "ABRT", "BUS", "FPE", "ILL"}
# deaths that only mean "the harness cut the output / file size short"
CAP_SIGNALS = {signal.SIGPIPE: "PIPE", signal.SIGXFSZ: "XFSZ"}

# extra ASAN_OPTIONS appended by C06: backtraces for every fatal signal, bounded memory
ASAN_EXTRA = ("handle_abort=1:handle_sigfpe=1:handle_sigill=1:handle_sigbus=1:"
              "max_allocation_size_mb=3072:hard_rss_limit_mb=6144:symbolize=1")

_RE_ASAN = re.compile(r"ERROR: AddressSanitizer: ([A-Za-z0-9_\-]+)")
_RE_FRAME = re.compile(r"^\s+#(\d+) 0x[0-9a-f]+ (?:in (\S+) ?(.*)|\((.*)\))$")
_RE_UBSAN = re.compile(r"^(\S+?):(\d+):(\d+): runtime error: (.*)$", re.M)

_SKIP_FUNC = ("__interceptor_", "__asan", "__sanitizer", "__ubsan", "__GI_", "__pthread_",
              "__libc_", "__assert", "_IO_", "__mem", "__str", "__stpcpy", "__wmem")
_SKIP_LOC = ("libsanitizer", "/libc.so", "/libasan", "sysdeps/", "nptl/", "stdlib/", "string/",
             "libio/", "assert/", "/libubsan", "stdio-common/", "malloc/")


RESOURCE_BUGS = ("allocation-size-too-big", "out-of-memory", "calloc-overflow", "requested",
                 "failed", "rss-limit-exceeded", "pvalloc-overflow", "reallocarray-overflow",
                 "invalid-allocation-alignment")


def resource_verdict(etext, rc, sig):
    """deaths caused by the sanitizer runtime running out of memory (not memory-safety
    reports, not the tool's own orderly 'memory allocation failed' exit)"""
    if "hard rss limit exhausted" in etext:
        return "rss-limit"
    if rc == 99 or sig:
        for m in ("AddressSanitizer: out of memory", "AddressSanitizer failed to allocate",
                  "AddressSanitizer: allocator is out of memory", "ERROR: AddressSanitizer: out-of-memory",
                  "ERROR: AddressSanitizer: allocation-size-too-big",
                  "ERROR: AddressSanitizer: requested allocation size",
                  "ERROR: AddressSanitizer: calloc parameters overflow",
                  "LeakSanitizer has encountered a fatal error", "ReserveShadowMemoryRange failed"):
            if m in etext:
                return "oom"
    return None


def _frames(text, start):
    """function/location pairs of the first stack trace after position `start`."""
    out = []
    begun = False
    for line in text[start:].split("\n")[:200]:
        m = _RE_FRAME.match(line)
        if m:
            begun = True
            out.append((m.group(2) or "?", m.group(3) or m.group(4) or ""))
        elif begun:
            break
    return out


def top_frame(frames, root=None):
    """first frame that belongs to the code under test (not an interceptor / libc)"""
    if root:
        for fn, loc in frames:
            if root in loc and not fn.startswith(_SKIP_FUNC):
                return fn
    for fn, loc in frames:
        if fn.startswith(_SKIP_FUNC) or fn in ("raise", "abort", "memcpy", "memset", "memmove",
                                                "strlen", "strcpy", "strncpy", "memcmp", "qsort",
                                                "msort_with_tmp", "read", "write", "pread64",
                                                "pwrite64", "free", "malloc", "calloc", "realloc",
                                                "printf", "vfprintf", "fprintf", "fwrite", "puts"):
            continue
        if any(s in loc for s in _SKIP_LOC):
            continue
        return fn
    return frames[0][0] if frames else "?"


TOOL_DIRS = ("/misc/", "/e2fsck/", "/debugfs/", "/resize/")


def hang_frame(frames, root=None):
    """signature of a hang: the innermost frame that lies in the tool's own directory (the
    library frames below it differ from sample to sample), else the innermost frame of the
    tree under test"""
    ours = [(fn, loc) for fn, loc in frames if (root and root in loc)]
    for fn, loc in ours:
        if any(d in loc[len(root):] if root else d in loc for d in TOOL_DIRS):
            return fn
    return ours[0][0] if ours else None


def parse_sanitizer(etext, root=None):
    """-> None or dict(kind='asan'|'signal', bug=..., func=..., excerpt=...)"""
    m = _RE_ASAN.search(etext)
    if m:
        bug = m.group(1)
        if bug == "attempting":
            rest = etext[m.end():m.end() + 40]
            bug = "double-free" if "double-free" in rest else "bad-free"
        fr = _frames(etext, m.end())
        func = top_frame(fr, root)
        i = max(0, m.start() - 12)
        kind = "signal" if bug in SIGNAL_BUGTYPES else "asan"
        return {"kind": kind, "bug": bug, "func": func, "excerpt": etext[i:i + 2600],
                "frames": ["%s %s" % f for f in fr[:12]], "frames_raw": fr}
    m = _RE_UBSAN.search(etext)
    if m:
        msg = m.group(4)
        if "out of bounds" in msg:
            bug = "index-out-of-bounds"
        else:
            bug = "ubsan-" + re.sub(r"[^a-z]+", "-", msg.lower())[:30].strip("-")
        fr = _frames(etext, m.end())
        func = top_frame(fr, root) if fr else "%s" % m.group(1).split("/")[-1]
        return {"kind": "asan", "bug": bug, "func": func, "excerpt": etext[m.start():m.start() + 2000],
                "frames": ["%s %s" % f for f in fr[:12]], "frames_raw": fr}
    return None


def exit_documented(binary, rc):
    if rc is None or rc < 0:
        return True            # signals are judged elsewhere
    if binary == "e2fsck":
        return (rc & ~0xBF) == 0
    if binary == "dumpe2fs":
        # dumpe2fs(8): "0 if the operation completed without errors ... a non-zero return code
        # if there are any errors" (its main() returns the library error code, truncated)
        return True
    return rc < 64


def judge(binary, res, root=None, capped=False, san_exit=99):
    """res: run.Result.  Returns dict(verdict=None|'violation'|'inconclusive'|'timeout',
    key_tail=..., what=...).  key_tail is appended to 'C06 <binary> ' by the caller."""
    et = res.etext
    if res.timed_out:
        # the watchdog sent SIGABRT first: the runtime's ABRT report says where it was
        san = parse_sanitizer(et, root)
        func = None
        if san and san["bug"] == "ABRT":
            func = hang_frame(san["frames_raw"], root)
        return {"verdict": "timeout", "key_tail": "hang", "hang_func": func,
                "what": "watchdog expired" + ("; interrupted at:\n" + "\n".join(san["frames"]) if san else "")}
    rv = resource_verdict(et, res.rc, res.sig)
    san = parse_sanitizer(et, root)
    if rv and (san is None or san["bug"] in RESOURCE_BUGS):
        return {"verdict": "inconclusive", "key_tail": "resource " + rv, "what": et[-600:]}
    if san:
        if san["kind"] == "signal":
            tail = "signal %s in %s" % (san["bug"], san["func"])
        else:
            tail = "asan %s in %s" % (san["bug"], san["func"])
        return {"verdict": "violation", "key_tail": tail, "what": san["excerpt"],
                "frames": san["frames"]}
    if res.rc == san_exit and not (binary == "dumpe2fs" and "==ERROR" not in et and "Sanitizer" not in et):
        return {"verdict": "violation", "key_tail": "asan unparsed-report exit%d" % san_exit,
                "what": et[-1500:]}
    if res.sig:
        if res.sig in CAP_SIGNALS:
            return {"verdict": None, "capped": CAP_SIGNALS[res.sig]}
        if res.sig in FATAL_SIGNALS:
            return {"verdict": "violation", "key_tail": "signal %s" % FATAL_SIGNALS[res.sig],
                    "need_class": True, "what": et[-1200:]}
        if res.sig == signal.SIGKILL:
            return {"verdict": "inconclusive", "key_tail": "killed", "what": "SIGKILL (not ours)"}
        return {"verdict": "violation", "key_tail": "signal %d" % res.sig, "need_class": True,
                "what": et[-1200:]}
    if not exit_documented(binary, res.rc):
        return {"verdict": "violation", "key_tail": "undocumented exit status %s" % res.rc,
                "what": (res.text[-600:] + "\n" + et[-600:])}
    return {"verdict": None}
